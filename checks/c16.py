"""C16 — treap heap order, canonical (Cartesian) shape, height (rlib/treap + rlib/rand)."""
import collections
import concurrent.futures
import subprocess
import sys

import c03

# parse_tree follows the observed shape recursively: a degenerate treap (what a broken generator produces) is as deep as it is large
sys.setrecursionlimit(max(sys.getrecursionlimit(), 50000))

ID = "C16"
CRATE = "c03"
COQ_DIR = "C16"
COQ_DEPS = ["C03"]
PROFILES = ["debug", "release"]
CORR_IMPORT = "From RlibV Require Import C03.Model C03.Corr C16.Model C16.Corr.\nOpen Scope Z_scope."
AUDIT_IMPORT = ("From Coq Require Import ZArith List Bool.\nImport ListNotations.\n"
                "From RlibV Require Import C03.Model C03.Corr C03.Proofs C16.Model C16.ModelFam C16.Corr C16.Proofs C16.ProofsStrict C16.ProofsHist C16.ProofsTight C16.Properties.\nOpen Scope Z_scope.")
EXPLAIN = "explain"
CASE_TYPE = "case"
AXIOM_ALLOW = []
SHARD = 900
SEARCH_MAX = 3000      # size of the enlarged search after a model-only mismatch
THEOREMS = [
    ('c16_heap_preserved',
     'forall (T M V A : Type) (update : T -> option T -> option T -> T) (push : T -> option T -> option T -> T * option T * option T) (size : T -> Z) (modify : M -> T -> T) (elem : T -> V) (agg : T -> A) (ps : list Z) (ops : list (@op T M V)), Forall Heap (run_final update push size modify elem agg ps ops)'),
    ('c16_priorities_only_moved',
     'forall (T M : Type) (update : T -> option T -> option T -> T) (push : T -> option T -> option T -> T * option T * option T) (size : T -> Z) (modify : M -> T -> T), (forall a b : @tree T, Heap a -> Heap b -> Heap (merge update push a None b None) /\\ prios (merge update push a None b None) = prios a ++ prios b) /\\ (forall (t : @tree T) k a b, Heap t -> split_at update push size t None k = (a, b) -> Heap a /\\ Heap b /\\ prios a ++ prios b = prios t) /\\ (forall q (t : @tree T) a b, Heap t -> split_by update push q t None = (a, b) -> Heap a /\\ Heap b /\\ prios a ++ prios b = prios t) /\\ (forall t : @tree T, Heap t -> (Heap (fst (first push t None)) /\\ prios (fst (first push t None)) = prios t) /\\ (Heap (fst (last push t None)) /\\ prios (fst (last push t None)) = prios t) /\\ (Heap (fst (collect push t None)) /\\ prios (fst (collect push t None)) = prios t)) /\\ (forall (t : @tree T) k x p, Heap t -> Heap (insert_at update push size t k x p) /\\ exists l r, prios t = l ++ r /\\ prios (insert_at update push size t k x p) = l ++ p :: r) /\\ (forall (t : @tree T) k, Heap t -> Heap (fst (remove_at update push size t k)) /\\ exists l m r, prios t = l ++ m ++ r /\\ prios (fst (remove_at update push size t k)) = l ++ r) /\\ (forall m (t : @tree T), Heap t -> Heap (modify_root modify m t) /\\ prios (modify_root modify m t) = prios t)'),
    ('c16_canonical',
     'forall (T : Type) (t1 t2 : @tree T), Heap t1 -> Heap t2 -> inorder t1 = inorder t2 -> NoDup (map fst (inorder t1)) -> t1 = t2'),
    ('c16_heapb_Heap',
     'forall (T : Type) (t : @tree T), heapb t = true <-> Heap t'),
    ('c16_heap_strict_preserved',
     'forall (T M V A : Type) (update : T -> option T -> option T -> T) (push : T -> option T -> option T -> T * option T * option T) (size : T -> Z) (modify : M -> T -> T) (elem : T -> V) (agg : T -> A) (ps : list Z) (ops : list (@op T M V)), Forall HeapS (run_final update push size modify elem agg ps ops)'),
    ('c16_canonical_ties',
     'forall (T : Type) (t1 t2 : @tree T), HeapS t1 -> HeapS t2 -> inorder t1 = inorder t2 -> t1 = t2'),
    ('c16_cartesian',
     'forall (T : Type) (t : @tree T), HeapS t -> t = cart (inorder t)'),
    ('c16_heap_strict_heap',
     'forall (T : Type) (t : @tree T), HeapS t -> Heap t'),
    ('c16_history_priorities',
     'forall (T M A : Type) (update : T -> option T -> option T -> T) (push : T -> option T -> option T -> T * option T * option T) (size : T -> Z) (modify : M -> T -> T) (elem : T -> Z) (agg : T -> A) (act : M -> Z -> Z) (aggf : list Z -> A) (Pending : T -> list M -> Prop), lawful update push size modify elem agg act aggf Pending -> forall (mk : Z -> T) (md : amod -> M) (actc : amod -> Z -> Z), (forall v : Z, Fresh size elem agg aggf Pending (mk v)) -> (forall v : Z, elem (mk v) = v) -> (forall (m : amod) (e : Z), act (md m) e = actc m e) -> forall (ps : list Z) (ops : list cop) (want : list (list pv)), prun actc [] ps ops = Some want -> Forall2 (fun t pxs => HeapS t /\\ Rep size elem agg act aggf Pending t (map snd pxs) /\\ prios t = map fst pxs) (run_final update push size modify elem agg ps (map (conv modify mk md) ops)) want'),
    ('c16_model_check_spec_check',
     'forall c : case, model_check c = true -> spec_check c = true'),
    ('c16_height_partial',
     'forall k : Z, 0 <= k <= 14 -> let n := 2 ^ k in (height (fam step_append n) <= 5 * Z.log2 (n + 1) + 20 /\\ Heap (fam step_append n) /\\ tsize isize (fam step_append n) = n) /\\ (height (fam step_front n) <= 5 * Z.log2 (n + 1) + 20 /\\ Heap (fam step_front n) /\\ tsize isize (fam step_front n) = n) /\\ (height (fam step_rotate n) <= 5 * Z.log2 (n + 1) + 20 /\\ Heap (fam step_rotate n) /\\ tsize isize (fam step_rotate n) = n)'),
    ('c16_height_tight_partial',
     'forall k : Z, 0 <= k <= 10 -> let n := 2 ^ k in Forall (fun step => height (fam step n) <= 3 * Z.log2 (n + 1) + 12 /\\ Heap (fam step n) /\\ tsize isize (fam step n) = n) [step_append; step_front; step_rotate; step_deque; step_middle; step_mergebuild]'),
]
RULE = ("the multi-treap histories of C03, including move = remove_at followed by insert_at of the returned item object, whose new node "
        "draws a new priority (two item kinds; priorities random / tiny range with ties / all equal / increasing / "
        "decreasing / the six boundary values 0, 1, 2^31-1, 2^31, 2^32-2, 2^32-1 / hybrid / native draws of the process-wide generator; items that the caller modified before from_item / insert_at, so that they enter with a pending tag, and the real insert_at steered through every rank of the new node, ties included: c03.hybrid_tagged; "
        "C03's boundary families seen through the full shape: every assignment over {0, 2^32-2, 2^32-1}, empty operands next to boundary priorities, positions up to usize::MAX, "
        "chains of depth 70-300 with increasing / decreasing / equal / native priorities); "
        "NODES CREATED ON OTHER THREADS (ops Ft / It: from_item resp. insert_at run on a freshly spawned thread, the treap is moved there and back; T threads x m nodes, then merged; and a fifth of the "
        "creations of a third of the random histories): the model predicts ONE stream for the whole process; "
        "NODES CREATED THROUGH THE BUILDING BLOCKS (ops Fn / In: Box::new(TreapNode::new(item)) into the root field; TreapNode::split_at + TreapNode::new + TreapNode::merge x 2); "
        "BURNT DRAWS (op Z:k = k times drop(TreapNode::new(item))): the stream is entered at offsets up to ~10^6, the phase of the real insert_at varies, and the first 32-bit collision of the "
        "stream (draws 30918 and 80580, both 654029068) meets itself inside the real insert_at / merge in every arrangement; "
        "FAMILY HISTORIES of 40-300 (quick) / up to 3000 (thorough) nodes with native priorities and of 64-200 nodes with increasing / decreasing / equal / tiny / boundary priorities: sorted appends, "
        "front inserts, middle inserts, alternating ends, merge-building from one-node treaps, sorted-set building through split_by, scattered insert + remove_at, k treaps filled round robin and concatenated, "
        "blocks started from Treap::default() / Treap::new(), split-and-swap rotations; split_by with NON-MONOTONE predicates (decided by model_check; the list specification is silent there); "
        "FAULTS IN USER CODE INSIDE A LIBRARY CALL (op E, harness/crates/c03/src/fault.rs): on a throw-away treap (never observed afterwards) an item type with switchable callbacks makes exactly "
        "one insert_at (also through the building blocks) / from_item + merge / split_at / split_by / remove_at / collect / first / last end abnormally - the first update() the NEW node of insert_at takes part in, "
        "or the k-th update / push / size call or split_by predicate call, panics - (a) on a worker thread that dies, (b) under catch_unwind on the line's own thread, (c) while another thread is creating "
        "nodes (either side); or the callback RE-ENTERS the library (creates nodes; builds and collects a treap with insert_at; does so on a thread it spawns and joins) and returns or panics afterwards; "
        "one probe draw follows, then the history goes on (events at the start / in the middle of the family histories of 6-40 (quick) / up to 3000 (thorough) nodes, one to three events at random "
        "places of random native histories, with burnt draws and creations on other threads): the draws made before and during the abnormal exit COUNT, the probe and every later priority are the "
        "next draws of the one process-wide stream (decided by model_check / spec_check like burnt draws); a line with an event runs in a child process under a watchdog, a line that does not come "
        "back (a callback re-entering the library while the library holds its generator lock) is the observation H, which nothing accepts; "
        "observed = full final shape of every live treap through the "
        "public fields left/right/priority/item + final collect(); non-trivial = some final treap has >= 3 nodes and the history "
        "contains a split or merge; "
        "implementation-level search (extra), on the debug AND the release executor: families append, front, rotate (split-and-swap), appendremove, deque, middle, mergebuild, setbuild (ascending / scattered keys), "
        "splitany (stateful non-monotone split_by), randremove, nodeapi (building blocks only), roundrobin k (strided subsequences of the stream in one treap), blocks (Treap::default / new), "
        "threads T x m (sequential and concurrent; pieces moved to one thread and merged), doubling (t = merge(t, t.clone()), run only when Treap<Item>: Clone exists) up to 10^6 (1.1*10^6: past 2^20 draws) nodes, "
        "fault (22 events of the kinds above - quick - / the whole catalogue of 299 - thorough -, then 1500-3000 / up to 50000 sorted appends, front inserts, merge-building, alternating ends, middle inserts, rotations, "
        "append + remove, set building on the main thread; time-out 20 s: a hang is a violation) with the "
        "generator's own priorities: at every power of two the exact invariant of the code on every edge (<= left, < right: the shape is the Cartesian tree), subtree sizes, every node still has the priority it was "
        "born with, height <= 3*floor(log2(n+1))+12 (failure probability < 3e-6 for independent uniform priorities, n <= 2^21; implies the bound 5*log2(n+1)+20 of c16_height_partial); the hash of ALL priorities drawn on the line "
        "equals the hash of the modelled stream (bit for bit, up to 1.1*10^6 draws, both profiles; concurrent threads: as a multiset; after a fault event: the hash of the continuation from the probe on), and where the in-order sequence has a closed form the final height equals "
        "the height of the Cartesian tree of the predicted priorities")
TRUSTED = c03.TRUSTED + [
    "executor harness/crates/c03/src/fam.rs (family search: its own heap / size / born-priority / height checks and hashes; reads the priority of a new node back through the public fields)",
    "checks/c16.py (prediction of the draw index of every node creation of a line, burnt draws and creations on other threads included; hash and Cartesian-tree height of the predicted stream for the search; "
    "the number of draws a fault event must have consumed, checked against the probe priority in the event's token)",
    "executor harness/crates/c03/src/fault.rs (item type with switchable panicking / re-entrant callbacks; its own checks of the helper thread's and the nested treap; "
    "the child process + watchdog of main.rs for lines with an event)"]
ASSUMPTIONS = c03.ASSUMPTIONS + [
    "the height bound is a statement about the randomness of the generator: proved only as finite computations for the named "
    "families (c16_height_partial) and searched on the implementation up to 1.1*10^6 nodes in both build profiles",
    "threads of one executor line are joined before the next creation on another thread, except in the concurrent thread family, where only the multiset of priorities is predicted",
    "Treap::clone does not exist in the repository; the doubling family is compiled in through autoref specialisation and runs as soon as Treap<Item>: Clone holds",
    "after a panic inside an operation the treap involved is in an unspecified state and is never observed; what is checked is the rest of the process (generator, its lock, fresh treaps). "
    "When an unrelated callback of insert_at panics the new node may or may not have been created yet: both draw counts are accepted (exactly one when the callback that fired involved the new node)",
    "a hang is detected by time-out only (3 s for a history line in its child process, 20 s for a search line of at most 5000 nodes, 120 s above)"]



def shrink(c):
    """c03's shrinking (drop operations, ...); then simpler fault events: no concurrent thread, catch_unwind instead of a
    worker thread, a smaller throw-away treap"""
    ops = c["ops"]
    evs_only = [op for op in ops if op[0] == "E"]
    if any(is_reentrant(op[1]) for op in evs_only) and len(ops) > len(evs_only) + 2:
        # a re-entrant callback under a lock that the library holds does not come back: every candidate that still hangs costs the
        # watchdog's time in both profiles, so the drastic candidates go first and alone (each event on its own, all events,
        # the events and the first operations of the history)
        head = [op for op in ops if op[0] != "E"][:2]
        return [dict(c, ops=[op]) for op in evs_only if is_reentrant(op[1])][:3] + [dict(c, ops=evs_only), dict(c, ops=evs_only + head)]
    out = c03.shrink(c)
    for i, op in enumerate(ops):
        if op[0] != "E":
            continue
        e, alts = op[1], []
        if e["where"] in ("p", "q"):
            alts.append(dict(e, where={"p": "c", "q": "t"}[e["where"]], q=0))
        if e["where"] == "t":
            alts.append(dict(e, where="c"))
        if e["m"] > 2:
            alts.append(dict(e, m=e["m"] // 2, pos=min(e["pos"], e["m"] // 2)))
        if e["r"] > 1:
            alts.append(dict(e, r=1))
        for a in alts:
            out.append(dict(c, ops=ops[:i] + [["E", a]] + ops[i + 1:]))
    return out


# ----------------------------------------------------------------------------- the modelled stream (python side)
_STREAM = []


def stream(n):
    """the first n draws of the process-wide generator after the reset at the start of a line (cached)"""
    global _STREAM
    if len(_STREAM) < n:
        _STREAM = c03.lcg_prios(max(n, 2 * len(_STREAM), 4096))
    return _STREAM


# ----------------------------------------------------------------------------- extra ops of C16's histories
# ["Z", k]            burn k draws (k times drop(TreapNode::new(item))): no counterpart in the Coq history, the creation
#                     index of the later nodes moves on by k
# c["via"] = {"<index of an F / I op>": "t" | "n"}    that creation runs on a freshly spawned thread (Ft / It) resp. through
#                     the building blocks TreapNode::new + root field / TreapNode::{split_at, merge} (Fn / In); the Coq
#                     history has the plain CFrom / CInsert

# ["E", {event}]      a FAULT in user code inside a library call, on a throw-away treap (harness/crates/c03/src/fault.rs): an item type
#                     whose update / push / size (or the split_by predicate) panics or re-enters the library in the middle of
#                     insert_at / merge / split_at / split_by / remove_at / collect / first / last - under catch_unwind on the line's
#                     thread (where = c), on a worker thread that dies (t), while another thread creates q nodes (p, q) - followed by
#                     ONE probe draw.  No counterpart in the Coq history either: for the treaps of the history the event is a burn of
#                     as many draws as it consumed (the m nodes of the throw-away treap, the node of the interrupted insert_at / the
#                     from_item, the nodes a re-entrant callback created, the q nodes of the other thread, the probe); the token of the
#                     event carries the probe's priority and is checked here against that draw of the modelled stream.
#                     {"what", "where", "m", "pos", "cb": update|push|size|pred, "tid": "any" | "new" | id, "k", "act", "r", "q"}

def has_burn(c):
    """draws that no node of the Coq history gets (burnt draws, the draws of a fault event)"""
    return any(op[0] in ("Z", "E") for op in c["ops"])


def has_event(c):
    return any(op[0] == "E" for op in c["ops"])


CB_CODE = {"update": 0, "push": 1, "size": 2, "pred": 3}
PANIC_ACTS = (0, 3, 4)          # the callback panics (after re-entering the library: 3, 4)
REENTER_ACTS = (1, 2, 3, 4, 5)  # the callback creates r nodes itself (5: on a thread it spawns and joins)


def ev(what, where, m, pos, cb="update", tid="any", k=1, act=0, r=0, q=0):
    return {"what": what, "where": where, "m": m, "pos": pos, "cb": cb, "tid": tid, "k": k, "act": act, "r": r,
            "q": q if where in ("p", "q") else 0}


def event_token(e):
    tid = {"any": -1, "new": e["m"]}.get(e["tid"], e["tid"])
    return "E:%s:%s:%d:%d:%d:%d:%d:%d:%d:%d" % (e["what"], e["where"], e["m"], e["pos"], CB_CODE[e["cb"]], tid, e["k"], e["act"], e["r"], e["q"])


def parse_event_token(tok):
    f = tok.split(":")
    m, tid = int(f[3]), int(f[6])
    return ev(f[1], f[2], m, int(f[4]), {v: k for k, v in CB_CODE.items()}[int(f[5])],
              "any" if tid < 0 else ("new" if tid == m else tid), int(f[7]), int(f[8]), int(f[9]), int(f[10]))


def event_draws(e, tok, j):
    """(draws consumed by the event whose token is `tok`, probe included, when j draws were made before it; the token is
    consistent with the modelled stream?).  The draws made before the abnormal exit COUNT: the m nodes of the throw-away
    treap, the new node of an insert_at that got as far as creating it (certain when the callback that fired involved the
    new node; either way when an unrelated callback panicked), the from_item of a merge event, the r nodes a re-entrant
    callback created (if it fired), the q nodes of the concurrent thread."""
    created = {"ins": [1], "nod": [1], "mrg": [1]}.get(e["what"], [0])
    f = tok.split(":")
    good = len(f) == 4 and f[0] == "E" and all(x.isdigit() for x in f[1:])
    fired, panicked, probe = (int(f[1]), int(f[2]), int(f[3])) if good else (0, 0, -1)
    if good and panicked != (1 if (fired and e["act"] in PANIC_ACTS) else 0):
        good = False            # a panic that did not come out of the library call, or one that nobody asked for
    if e["what"] in ("ins", "nod") and panicked and e["tid"] != "new":
        created = [0, 1]
    base = e["m"] + (e["r"] * fired if e["act"] in REENTER_ACTS else 0) + e["q"]
    for c in created:
        d = base + c
        if good and stream(j + d + 1)[j + d] == probe:
            return d + 1, True
    return base + max(created) + 1, False


def op_tokens(obs):
    """the per-operation tokens of an observation line ([] when the line panicked or hung)"""
    so = split_obs(obs)
    return [] if so is None else so[0]


def split_obs(obs):
    """c03.split_obs; a line killed by the executor's watchdog (`H`: hang) is no observation either"""
    return None if obs.strip() == "H" else c03.split_obs(obs)


def harness_line(c):
    via = c.get("via") or {}
    toks = ["h", str(c["kind"])]
    for i, op in enumerate(c["ops"]):
        if op[0] == "Z":
            toks.append("Z:%d" % op[1])
            continue
        if op[0] == "E":
            toks.append(event_token(op[1]))
            continue
        tok = c03.harness_line(dict(c, ops=[op])).split()[2]
        v = via.get(str(i))
        if v in ("t", "n") and op[0] in ("F", "I"):
            tok = op[0] + v + tok[1:]
        toks.append(tok)
    return " ".join(toks)


def case_prios(c, toks=None, bad=None):
    """priority of every node creation that the Coq history sees, in order.  The j-th draw of a line (burnt draws and the
    draws of fault events included) is stream[j]; a node whose priority is `n` (every node of a native case) keeps its draw.
    `toks`: the per-operation tokens of the observation (an event's token tells whether its callback fired and the probe);
    `bad` collects the indices of events whose token contradicts the modelled stream."""
    ps, L, j = [], [], 0
    for i, op in enumerate(c["ops"]):
        if op[0] == "Z":
            j += op[1]
        elif op[0] == "E":
            d, good = event_draws(op[1], toks[i] if (toks and i < len(toks)) else "", j)
            j += d
            if not good and bad is not None:
                bad.append(i)
        elif op[0] == "F":
            ps.append((j, op[2]))
            j += 1
        elif op[0] == "I" and op[1] < len(L):
            ps.append((j, op[4]))
            j += 1
        elif op[0] == "V" and op[1] < len(L) and op[3] < len(L) and op[2] < len(L[op[1]]):
            ps.append((j, op[5]))
            j += 1
        c03.py_step(L, op, c["kind"])
    draws = stream(j)
    nat_ = c.get("native")
    return [draws[k] if (nat_ or p == "n") else p for k, p in ps]


def coq_ops(c):
    return "[%s]" % "; ".join(c03.coq_op(op) for op in c["ops"] if op[0] not in ("Z", "E"))


def coq_native(c):
    """Coq's native flag = "the priorities are a prefix of the modelled stream": not so when draws were burnt (then the
    predicted draws are handed over as given priorities and the specification compares them one by one)"""
    return bool(c.get("native")) and not has_burn(c)


# ----------------------------------------------------------------------------- generators
def with_via(rng, c, num=1, den=5):
    """about num/den of the creations on another thread, as many through the building blocks"""
    via = {}
    for i, op in enumerate(c["ops"]):
        if op[0] in ("F", "I"):
            r = rng.below(den * 2)
            if r < num:
                via[str(i)] = "t"
            elif r < 2 * num:
                via[str(i)] = "n"
    if via:
        c["via"] = via
    return c


def with_burns(rng, c, big=False):
    """burnt draws before about a quarter of the creations (mostly a few, sometimes thousands); `big`: the line starts
    far inside the stream"""
    ops = []
    if big:
        ops.append(["Z", rng.choice([255, 256, 257, 4095, 65536, 99991, (1 << 20) - 3, rng.below(1000000)])])
    for op in c["ops"]:
        if op[0] in ("F", "I", "V") and rng.chance(1, 4):
            ops.append(["Z", rng.choice([1, 1, 2, 3, 7, 37, 255, 1000, 4099])])
        ops.append(op)
    c["ops"] = ops
    c["mode"] = c.get("mode", "native") + "+burn"
    return c


def merge_all(ops, cnt):
    """concatenate treaps 0..cnt-1 (in this order) into one: afterwards it is the only one"""
    if cnt >= 2:
        ops.append(["M", 0, 1])                      # [t2, .., t(cnt-1), t0+t1]
        for left in range(cnt - 2, 0, -1):
            ops.append(["M", left, 0])               # merged ++ next;   `left` = index of the merged one
    return ops


def thread_hist(T, m, kind, order, main_every=0):
    """T threads create m nodes each (from_item + insert_at on a spawned thread, `order`: append / front), every
    `main_every`-th creation stays on the line's own thread; the pieces are merged in thread order.  One stream."""
    ops, via, cnt = [], {}, 0
    for t in range(T):
        for j in range(m):
            v = 10 * t + j
            if j == 0:
                ops.append(["F", v, 0])
            else:
                ops.append(["I", t, j if order == "append" else 0, v, 0])
            cnt += 1
            if not (main_every and cnt % main_every == 0):
                via[str(len(ops) - 1)] = "t"
    merge_all(ops, T)
    ops += [["S", 0], ["G", 0], ["C", 0]]
    return {"kind": kind, "native": True, "mode": "threads", "ops": ops, "via": via}


COLLISION = (30918, 80580)       # the first two draws of the stream with the same 32-bit value (654029068)


def collision_cases():
    """the two equal native priorities meet inside the real insert_at / merge, in both orders, next to other nodes"""
    a, b = COLLISION
    gap = b - a - 1
    hists = [
        [["Z", a], ["F", 1, 0], ["Z", gap], ["I", 0, 1, 2, 0]],
        [["Z", a], ["F", 1, 0], ["Z", gap], ["I", 0, 0, 2, 0]],
        [["Z", a], ["F", 1, 0], ["Z", gap], ["F", 2, 0], ["M", 0, 1]],
        [["Z", a], ["F", 1, 0], ["Z", gap], ["F", 2, 0], ["M", 1, 0]],
        [["Z", a - 2], ["F", 5, 0], ["I", 0, 1, 6, 0], ["I", 0, 1, 1, 0], ["Z", gap - 2], ["I", 0, 0, 7, 0], ["I", 0, 2, 8, 0],
         ["I", 0, 2, 2, 0], ["I", 0, 1, 9, 0], ["A", 0, 3], ["M", 1, 0], ["R", 0, 0]],
    ]
    out = []
    for k, h in enumerate(hists):
        for kind in (0, 1):
            c = {"kind": kind, "native": True, "mode": "collision", "ops": h + [["S", 0], ["G", 0], ["C", 0]]}
            if k % 2 == 1:
                c["via"] = {str(i): ("t" if kind == 0 else "n") for i, op in enumerate(h) if op[0] in ("F", "I") and i >= 3}
            out.append(c)
    return out


FAMILIES = ["append", "front", "middle", "deque", "mergebuild", "mergefront", "setbuild", "setscatter", "randremove", "roundrobin",
            "blocks", "rotate"]


def fam_hist(fam, n, kind, mode, k=3):
    """the families of the implementation-level search as correspondence cases (full shape against the model)"""
    def pr(j):
        return {"inc": 10 * (j + 1), "dec": 10000000 - 10 * j, "equal": 7, "tiny": (j * 7 + j // 3) % 3,
                "edge": c03.EDGE_PRIOS[(j * 5 + j // 4) % 6]}.get(mode, 0)
    ops, L = [], []

    def emit(op):
        ops.append(op)
        c03.py_step(L, op, kind)

    if fam in ("append", "front", "middle", "deque", "randremove", "rotate"):
        emit(["N"])
        for i in range(n):
            s = len(L[0])
            pos = {"append": s, "front": 0, "middle": s // 2, "deque": 0 if i % 2 == 0 else s}.get(fam, (i * 7919) % (s + 1))
            emit(["I", 0, pos, i % 97, pr(i)])
            if fam == "randremove" and i % 2 == 1:
                emit(["R", 0, (i * 104729) % len(L[0])])
            if fam == "rotate":
                emit(["A", 0, (i * 104729 + 12345) % (i + 2)])
                emit(["M", 1, 0])
    elif fam in ("mergebuild", "mergefront"):
        emit(["F", 0, pr(0)])
        for i in range(1, n):
            emit(["F", i % 97, pr(i)])
            emit(["M", 1, 0] if (fam == "mergefront" and i % 2 == 1) else ["M", 0, 1])
    elif fam in ("setbuild", "setscatter"):
        emit(["N"])
        for i in range(n):
            v = i if fam == "setbuild" else (i * 7919) % 10007
            emit(["B", 0, v])
            emit(["F", v, pr(i)])
            emit(["M", 0, 2])
            emit(["M", 1, 0])
    elif fam == "roundrobin":
        for j in range(k):
            emit(["D"] if j % 2 else ["N"])
        for i in range(n):
            j = i % k
            emit(["I", j, 0 if j % 2 == 1 else len(L[j]), i % 97, pr(i)])
        for op in merge_all([], k):
            emit(op)
    elif fam == "blocks":
        emit(["N"])
        for i in range(n):
            if i % k == 0:
                if i:
                    emit(["M", 0, 1])
                emit(["D"] if (i // k) % 2 == 0 else ["N"])
            emit(["I", 1, 0, i % 97, pr(i)])
        emit(["M", 0, 1])
    else:
        raise ValueError(fam)
    assert len(L) == 1, (fam, len(L))
    ops += [["S", 0], ["G", 0], ["f", 0], ["l", 0]]
    return {"kind": kind, "native": mode == "native", "mode": "fam-%s-%s" % (fam, mode), "ops": ops}


def splitby_any(rng, kind, n):
    """split_by with arbitrary (non-monotone) thresholds on an unsorted sequence: the two parts are whatever the search path
    says; heap order and the model's shape must hold (the list specification has no opinion).  No move afterwards (its
    python-side bookkeeping needs the lengths)."""
    mode = rng.choice(["random", "tiny", "native", "edge", "inc", "dec"])
    ops, L, j = [], [], [0]

    def pr():
        j[0] += 1
        return {"random": rng.below(1 << 32), "tiny": rng.below(3), "edge": rng.choice(c03.EDGE_PRIOS), "inc": 10 * j[0],
                "dec": 1000000 - 10 * j[0]}.get(mode, 0)
    ops.append(["F", rng.range(-20, 20), pr()])
    for i in range(1, n):
        ops.append(["I", 0, rng.below(i + 1), rng.range(-20, 20), pr()])
    live = 1
    for _ in range(rng.range(3, 8)):
        r = rng.below(10)
        i = rng.below(live)
        if r < 5 and live < 6:
            ops.append(["B", i, rng.range(-22, 22)])
            live += 1
        elif r < 8 and live >= 2:
            jx = rng.below(live - 1)
            ops.append(["M", i, jx + (1 if jx >= i else 0)])
            live -= 1
        elif r < 9:
            ops.append(["U", i, "a", rng.range(-5, 5), kind])
        else:
            ops.append(["I", i, rng.below(n + 2), rng.range(-20, 20), pr()])
    for i in range(live):
        ops += [["G", i], ["C", i]]
    return {"kind": kind, "native": mode == "native", "mode": "splitby-any", "ops": ops}


# ----------------------------------------------------------------------------- faults in user code inside a library call
def fault_events(principal_only=False):
    """the catalogue of events (see fault.rs).  PRINCIPAL: the first update() the new node of insert_at takes part in panics -
    the node exists, its priority is drawn, the library is in the middle of its merges - under catch_unwind, on a worker
    thread that dies, and while another thread is creating nodes.  NEIGHBOURS: the k-th update / push / size call of
    insert_at (also through the building blocks), merge after from_item, split_at, split_by (also its predicate), remove_at,
    collect, first, last; callbacks that RE-ENTER the library (create nodes, build and collect a treap, do so on a thread
    they spawn and join) and then return or panic."""
    out = []
    shapes = ((1, 0), (1, 1), (2, 1), (5, 0), (5, 5), (8, 3), (8, 8))
    for where in "ctpq":
        for j, (m, pos) in enumerate(shapes):
            out.append(ev("ins", where, m, pos, "update", "new", q=(64, 257, 1000)[j % 3]))
    if principal_only:
        return out
    for what in ("ins", "nod"):
        for cb in ("update", "push", "size"):
            for k in (1, 2, 3, 5):
                for where in ("c", "t"):
                    out.append(ev(what, where, 7, (k * 3) % 8, cb, "any", k))
        out.append(ev(what, "p", 6, 2, "push", "new", q=300))
        out.append(ev(what, "q", 6, 6, "update", "any", 2, q=300))
        out.append(ev(what, "c", 0, 0, "update", "any"))            # nothing to call back: the operation completes
    for cb in ("update", "push"):
        for k in (1, 2):
            for pos in (0, 1):
                for where in ("c", "t", "p"):
                    out.append(ev("mrg", where, 6, pos, cb, "any", k, q=200))
    for what, cbs in (("spl", ("push", "update", "size")), ("spb", ("pred", "push", "update")), ("rem", ("push", "update", "size")),
                      ("col", ("push",)), ("fst", ("push",)), ("lst", ("push",))):
        for cb in cbs:
            for k in (1, 2, 4):
                for where in ("c", "t"):
                    out.append(ev(what, where, 9, (2 * k + 1) % 9, cb, "any", k))
        out.append(ev(what, "q", 9, 4, cbs[0], "any", 1, q=150))
    for act in (1, 2, 5, 3, 4):
        for where in ("c", "t"):
            for r in (1, 3):
                out.append(ev("ins", where, 6, 3, "update", "new", 1, act, r))
                out.append(ev("nod", where, 6, 6, "push", "any", 2, act, r))
                out.append(ev("mrg", where, 6, r % 2, "update", "any", 1, act, r))
                out.append(ev("rem", where, 6, 2, "update", "any", 2, act, r))
            out.append(ev("spl", where, 6, 3, "push", "any", 1, act, 2))
            out.append(ev("spb", where, 6, 3, "pred", "any", 2, act, 2))
            out.append(ev("col", where, 6, 0, "push", "any", 3, act, 2))
        out.append(ev("ins", "p", 6, 0, "update", "new", 1, act, 2, q=120))
    return out


def is_reentrant(e):
    return e["act"] in REENTER_ACTS


def fault_hist(e, fam, n, kind, at="start", k=3, pre=0):
    """the event, then (at = "mid": half before, half after) a family history with the generator's own priorities on the line's
    own thread; `pre`: burnt draws first.  The treaps of the history never meet the event's throw-away treap."""
    c = fam_hist(fam, n, kind, "native", k=k)
    ops = c["ops"]
    i = 0 if at == "start" else len(ops) // 2
    c["ops"] = ([["Z", pre]] if pre else []) + ops[:i] + [["E", e]] + ops[i:]
    c["mode"] = "fault-%s-%s-%s" % (e["what"], e["where"], ("reenter%d" % e["act"]) if e["act"] else e["cb"])
    return c


def with_events(rng, c, events):
    """one to three fault events at random places of a history (in front of a creation, so that something is created afterwards)"""
    at = [i for i, op in enumerate(c["ops"]) if op[0] in ("F", "I", "V")]
    if not at:
        return c
    picks = sorted({rng.choice(at) for _ in range(rng.choice([1, 1, 2, 3]))}, reverse=True)
    ops = list(c["ops"])
    via = c.get("via") or {}
    for i in picks:
        ops.insert(i, ["E", rng.choice(events)])
        via = {str(int(k) + (1 if int(k) >= i else 0)): v for k, v in via.items()}
    c = dict(c, ops=ops, mode=c.get("mode", "native") + "+fault")
    if via:
        c["via"] = via
    return c


FAULT_AFTER = ["append", "front", "mergebuild", "deque", "middle", "mergefront", "roundrobin", "blocks", "setscatter", "rotate"]


def fault_cases(r2, quick):
    evs = fault_events()
    out = []
    if quick:
        # every principal event, a spread of the neighbours (re-entrant ones: short histories, a hang costs the watchdog's time)
        rest = evs[28:]
        off = r2.below(3)

        def pick(j, e):
            if is_reentrant(e):
                # under a lock held across the callback every re-entrant insert_at event costs the watchdog's time: one per kind of re-entry and place
                return (e["what"] == "ins" and e["tid"] == "new" and e["r"] == 1 and e["where"] in ("c", "t")) or j % 4 == off
            return j % 3 == off
        chosen = evs[:28] + [e for j, e in enumerate(rest) if pick(j, e)]
    else:
        chosen = evs
    for j, e in enumerate(chosen):
        fam = FAULT_AFTER[j % 3] if (quick or j % 2 == 0) else FAULT_AFTER[j % len(FAULT_AFTER)]
        n = (6 if is_reentrant(e) else (12, 25, 40)[j % 3]) if quick else (8 if (is_reentrant(e) and j % 4) else (20, 60, 150)[j % 3])
        out.append(fault_hist(e, fam, n, j % 2, at=("start", "mid")[(j // 3) % 2], k=(3, 4)[j % 2], pre=(0, 0, 30917, 5)[j % 4]))
    # larger fresh treaps after the principal events; several events in one line
    principal = evs[:28]
    for j, (fam, n) in enumerate(((("append", 300), ("front", 150), ("mergebuild", 200), ("deque", 120)) if quick else
                                  [(f, n) for f in FAULT_AFTER for n in (300, 1000)] + [("append", 3000), ("front", 3000), ("mergebuild", 3000)])):
        out.append(fault_hist(principal[(5 * j + 6) % 28], fam, n, j % 2, k=7))
    for t in range(36 if quick else 1500):
        kind = t % 2
        c = c03.gen_history(r2, r2.choice([6, 12, 20, 30]), kind, "native", 35)
        if t % 4 == 0:
            c = with_burns(r2, c)
        if t % 3 == 0:
            c = with_via(r2, c)
        pool = principal if t % 2 == 0 else [e for e in evs if not is_reentrant(e)] if t % 4 == 1 else evs
        out.append(with_events(r2, c, pool))
    return out


def only_kinds(cases, kinds=(0, 1)):
    return [c for c in cases if c["kind"] in kinds]


def generate(rng, tier):
    quick = tier == "quick"
    cases = c03.exhaustive_small(4 if quick else 5)
    # move = remove_at + insert_at of the returned item object: every priority assignment, every pair of positions
    cases += c03.exhaustive_move(3, 3, kinds=(0, 1)) if quick else c03.exhaustive_move(5, 3, kinds=(0, 1))
    cases += c03.native_move(4 if quick else 6, kinds=(0, 1))
    # a tagged item enters through the REAL insert_at / from_item, the new node at every rank among the others (ties included)
    cases += c03.hybrid_tagged(2, 2, kinds=(0, 1)) if quick else c03.hybrid_tagged(4, 2, kinds=(0, 1))
    n = 1100 if quick else 25000
    modes = ["random", "random", "tiny", "tiny", "equal", "inc", "dec", "native", "native", "native"]
    for t in range(n):
        kind = t % 2
        mode = modes[rng.below(len(modes))]
        nops = rng.choice([4, 10, 20, 30, 45] if quick else [4, 10, 20, 45, 80])
        cases.append(c03.gen_history(rng, nops, kind, mode, 35 if quick else 60))

    # ---- everything below draws from its own stream of choices (the cases above do not depend on it)
    r2 = rng.fork("c16-ext")
    # boundary priorities / empty operands / huge positions / long chains of C03, seen through the full shape
    edge3 = [0, c03.U32MAX - 1, c03.U32MAX]
    cases += only_kinds(c03.exhaustive_small(3 if quick else 4, alphabet=edge3, mode="edge-exhaustive"))
    cases += only_kinds(c03.exhaustive_move(2, 2, kinds=(0, 1), alphabet=edge3, mode="edge-move") if quick
                        else c03.exhaustive_move(3, 3, kinds=(0, 1), alphabet=edge3, mode="edge-move"))
    cases += only_kinds(c03.edge_empty())
    cases += only_kinds(c03.big_positions())
    if quick:
        cases += [c03.long_chain(70, 0, "inc"), c03.long_chain(130, 1, "dec"), c03.long_chain(70, 1, "equal"), c03.long_chain(300, 0, "native")]
    else:
        cases += [c03.long_chain(m, kind, mode) for m in (70, 130, 300) for kind in (0, 1) for mode in ("inc", "dec", "equal", "native")]
        cases += [c03.long_chain(1000, 0, "native"), c03.long_chain(1000, 1, "native")]
    # random histories: boundary / hybrid priorities; creations on other threads and through the building blocks; burnt draws
    ext_modes = ["edge", "hybrid", "native", "native", "random", "tiny"]
    for t in range(330 if quick else 9000):
        kind = t % 2
        mode = ext_modes[r2.below(len(ext_modes))]
        nops = r2.choice([4, 10, 20, 30, 45] if quick else [4, 10, 20, 45, 80])
        c = c03.gen_history(r2, nops, kind, mode, 35 if quick else 60)
        if t % 3 == 0 and mode == "native":
            c = with_burns(r2, c, big=(t % 2 == 0))
        if t % 3 != 1:
            c = with_via(r2, c)
        cases.append(c)
    # threads x nodes per thread, merged in thread order
    shapes = [(2, 3), (3, 4), (8, 4), (5, 5), (16, 2), (12, 1)] if quick else \
        [(2, 3), (3, 4), (8, 4), (5, 5), (16, 2), (12, 1), (2, 40), (20, 20), (64, 4), (40, 1), (7, 30)]
    for k, (T, m) in enumerate(shapes):
        for order in ("append", "front"):
            cases.append(thread_hist(T, m, (k + (order == "front")) % 2, order, main_every=(0, 3, 2)[k % 3]))
    cases += collision_cases()
    # the families of the search as correspondence cases
    for k, fam in enumerate(FAMILIES):
        sizes = [40 + 17 * (k % 4), 300 if k % 3 == 0 else 150] if quick else [60, 300, 1000]
        for m in sizes:
            cases.append(fam_hist(fam, m, (k + m) % 2, "native", k=(3, 7, 16)[(k + m) % 3]))
        if not quick and fam in ("append", "rotate", "setscatter", "roundrobin"):
            cases.append(fam_hist(fam, 3000, k % 2, "native", k=89))
        for mode in (("inc", "dec", "equal", "tiny", "edge") if not quick else (("inc", "dec", "equal", "tiny", "edge")[k % 5],)):
            cases.append(fam_hist(fam, 64 if quick else 200, (k + len(mode)) % 2, mode, k=5))
    for k in (0, 1, 2) if quick else range(12):
        c = fam_hist(FAMILIES[(5 * k + 1) % len(FAMILIES)], 50 + 30 * (k % 5), k % 2, "native", k=4)
        cases.append(with_via(r2, with_burns(r2, c, big=True), 1, 3))
    # split_by with non-monotone predicates
    for t in range(60 if quick else 1500):
        cases.append(splitby_any(r2, t % 2, r2.choice([3, 6, 10, 16, 30])))
    # faults in user code inside a library call, callbacks that re-enter the library: fresh treaps afterwards (own stream of choices)
    cases += fault_cases(rng.fork("c16-fault"), quick)
    return cases


def parse_tree(toks, pos, kind):
    """returns (coq term, next position, node count)"""
    if toks[pos] == ".":
        return "E", pos + 1, 0
    assert toks[pos] == "(", toks[pos]
    l, pos, nl = parse_tree(toks, pos + 1, kind)
    x, sm, sz, t1, t2, t3, pr = [int(v) for v in toks[pos:pos + 7]]
    pos += 7
    r, pos, nr = parse_tree(toks, pos, kind)
    assert toks[pos] == ")", toks[pos]
    z = c03.z
    if kind == 0:
        it = "(ISz %s %s %s %s)" % (z(x), z(sm), z(sz), z(t1))
    else:
        it = "(IAA %s %s %s %s %s)" % (z(x), z(sm), z(sz), "(Some %s)" % z(t3) if t2 == 1 else "None", z(t1))
    return "(Nd %s %s %s %s)" % (l, it, z(pr), r), pos + 1, nl + nr + 1


def parse_shapes(toks, kind):
    out, sizes, pos = [], [], 0
    while pos < len(toks):
        t, pos, n = parse_tree(toks, pos, kind)
        out.append(t)
        sizes.append(n)
    return out, sizes


def coq_term(c, obs, profile):
    so = split_obs(obs)
    bad = []
    prios = case_prios(c, op_tokens(obs), bad)
    if so is None or bad:
        # the line panicked / hung, or an event's self-check failed (`!helper`, `!nested`) or its probe is not the draw the
        # modelled stream has at that point: an observation that no model value equals and no specification accepts
        o = "None"
    else:
        shapes, _ = parse_shapes(so[1], c["kind"])
        colls = ["[%s]" % "; ".join(c03.z(int(v)) for v in t.partition(":")[2].split(",") if v != "") for t in so[2]]
        o = "(Some ([%s], [%s]))" % ("; ".join(shapes), "; ".join(colls))
    return "(%s %s %s %s %s)" % ("CaseA" if c["kind"] == 0 else "CaseB", coq_ops(c),
                                 "[%s]" % "; ".join(c03.z(p) for p in prios),
                                 "true" if coq_native(c) else "false", o)


def nontrivial(c, obs):
    so = split_obs(obs)
    if so is None:
        return False
    _, sizes = parse_shapes(so[1], c["kind"])
    return max(sizes + [0]) >= 3 and any(op[0] in ("A", "B", "M", "I", "R", "V") for op in c["ops"])


def classify(c, obs):
    so = split_obs(obs)
    big = 0
    if so is not None:
        _, sizes = parse_shapes(so[1], c["kind"])
        big = max(sizes + [0])
    tag = c.get("mode", "?") + ("+via" if c.get("via") else "")
    return "kind%d/%s/%s" % (c["kind"], tag, "n<3" if big < 3 else ("n<10" if big < 10 else ("n<28" if big < 28 else "n>=28")))


def known_finding(c, obs, profile):
    return None


# ----------------------------------------------------------------------------- implementation-level search
MAX_SEARCH_REPORTS = 6
HK = 0x9E3779B97F4A7C15
M64 = (1 << 64) - 1


def stream_hashes(counts):
    """{count: (chain hash, multiset hash)} of the first `count` draws, as harness/crates/c03/src/fam.rs computes them"""
    want = set(counts)
    out, c, m = {}, 0, 0
    if 0 in want:
        out[0] = (0, 0)
    for i, p in enumerate(stream(max(want) if want else 0)):
        c = (c * HK + p + 1) & M64
        z = ((p + HK) * 0xBF58476D1CE4E5B9) & M64
        m = (m + (z ^ (z >> 29))) & M64
        if i + 1 in want:
            out[i + 1] = (c, m)
            if len(out) == len(want):
                break
    return out


def tight_bound(n):
    return 3 * ((n + 1).bit_length() - 1) + 12


def cart_height(ps):
    """height of the Cartesian tree of a priority sequence with the code's tie rule (on a tie the later one goes up)"""
    n = len(ps)
    if n == 0:
        return 0
    left, right, stack = [-1] * n, [-1] * n, []
    for i, p in enumerate(ps):
        last = -1
        while stack and ps[stack[-1]] >= p:
            last = stack.pop()
        left[i] = last
        if stack:
            right[stack[-1]] = i
        stack.append(i)
    h, level = 0, [stack[0]]
    while level:
        h += 1
        nxt = []
        for v in level:
            if left[v] >= 0:
                nxt.append(left[v])
            if right[v] >= 0:
                nxt.append(right[v])
        level = nxt
    return h


def inorder_ids(fam, args):
    """in-order sequence of node ids (= creation indices, before the burn offset) of the final treap of a search job, where
    a closed form / cheap simulation exists; None otherwise"""
    n = args[0]
    a = args[1] if len(args) > 1 else 0
    if fam in ("append",) or (fam == "mergebuild" and a == 0) or (fam == "setbuild" and a == 0):
        return list(range(n))
    if fam == "front":
        return list(range(n - 1, -1, -1))
    if fam == "deque":
        return list(range((n - 1) // 2 * 2, -1, -2)) + list(range(1, n, 2))
    if fam == "mergebuild":
        return list(range((n - 1) - (n % 2), 0, -2)) + list(range(0, n, 2))
    if fam == "middle":
        L, R = [], collections.deque()
        for i in range(n):
            if i % 2:
                L.append(i)
            else:
                R.appendleft(i)
        return L + list(R)
    if fam == "setbuild":
        return sorted(range(n), key=lambda i: (i * 1234577) % 2000003)
    if fam == "appendremove":
        d = collections.deque()
        for i in range(n):
            d.append(i)
            if i % 3 == 2:
                d.popleft()
        return list(d)
    if fam == "roundrobin":
        k = max(a, 1)
        out = []
        for j in range(k):
            ids = list(range(j, n, k))
            out += ids[::-1] if j % 2 == 1 else ids
        return out
    if fam == "blocks":
        b = max(a, 1)
        out = []
        for s in range(0, n, b):
            out += list(range(min(s + b, n) - 1, s - 1, -1))
        return out
    if fam == "threads":
        T, m, front, par = args[0], args[1], (args[2] if len(args) > 2 else 0), (args[3] if len(args) > 3 else 0)
        if par:
            return None
        out = []
        for t in range(T):
            ids = list(range(t * m, (t + 1) * m))
            out += ids[::-1] if front else ids
        return out
    if fam in ("rotate", "randremove") and n <= 40000:
        xs = []
        for i in range(n):
            if fam == "rotate":
                xs.insert((i * 7919) % (i + 1), i)
                cut = (i * 104729 + 12345) % (i + 2)
                xs = xs[cut:] + xs[:cut]
            else:
                xs.insert((i * 7919) % (len(xs) + 1), i)
                if i % 2 == 1:
                    xs.pop((i * 104729) % len(xs))
        return xs
    return None


def job_nodes(fam, args):
    """number of nodes a search job creates (burnt draws not counted)"""
    return args[0] * args[1] if fam == "threads" else args[0]


FAULT_TIMEOUT = 20     # seconds: a fault job builds a few thousand nodes; one that does not come back hangs in a lock


def slice_hashes(off, n):
    """(chain hash, multiset hash) of draws off .. off+n-1 of the modelled stream, as fam.rs computes them over the nodes
    recorded after a fault event"""
    c = m = 0
    for p in stream(off + n)[off:off + n]:
        c = (c * HK + p + 1) & M64
        z = ((p + HK) * 0xBF58476D1CE4E5B9) & M64
        m = (m + (z ^ (z >> 29))) & M64
    return c, m


def fault_jobs(tier):
    """(n, family built afterwards, its parameter, event, burnt draws first)"""
    jobs = [
        (2000, "append", 0, ev("ins", "t", 8, 8, "update", "new"), 0),          # a worker dies inside insert_at, then sorted appends
        (2000, "front", 0, ev("ins", "c", 8, 3, "update", "new"), 0),           # caught with catch_unwind on the same thread
        (3000, "mergebuild", 1, ev("ins", "p", 5, 2, "update", "new", q=3000), 0),   # while another thread is creating nodes
        (2000, "append", 0, ev("ins", "q", 8, 0, "update", "new", q=3000), 30918),
        (2500, "deque", 0, ev("ins", "c", 1, 1, "update", "new"), 65535),
        (1500, "middle", 0, ev("ins", "t", 8, 4, "push", "any", 2), 0),
        (1500, "rotate", 0, ev("nod", "t", 8, 4, "update", "any", 3), 0),
        (1500, "mergebuild", 0, ev("mrg", "c", 8, 1, "update", "any"), 0),
        (1500, "randremove", 0, ev("mrg", "p", 8, 0, "push", "any", q=2000), 0),
        (1500, "append", 0, ev("spl", "t", 8, 4, "push", "any"), 0),
        (1500, "front", 0, ev("spb", "c", 8, 4, "pred", "any", 2), 0),
        (1500, "appendremove", 0, ev("rem", "t", 8, 4, "update", "any", 2), 0),
        (1500, "setbuild", 1, ev("col", "c", 8, 0, "push", "any"), 0),
        (1500, "append", 0, ev("ins", "c", 8, 4, "size", "any"), 0),
        # callbacks that re-enter the library (and return, or panic afterwards)
        (1500, "append", 0, ev("ins", "c", 8, 4, "update", "new", 1, 1, 3), 0),
        (1500, "front", 0, ev("ins", "t", 8, 4, "update", "new", 1, 2, 5), 0),
        (1500, "mergebuild", 0, ev("ins", "c", 8, 4, "push", "any", 1, 5, 4), 0),
        (1500, "append", 0, ev("ins", "c", 8, 8, "update", "new", 1, 3, 2), 0),
        (1500, "deque", 0, ev("ins", "t", 8, 8, "update", "new", 1, 4, 6), 4097),
        (1500, "append", 0, ev("mrg", "c", 8, 0, "update", "any", 1, 2, 5), 0),
        (1500, "middle", 0, ev("rem", "t", 8, 3, "update", "any", 1, 1, 2), 0),
        (1500, "append", 0, ev("spl", "q", 8, 3, "update", "any", 1, 4, 3, q=1000), 0),
    ]
    if tier != "quick":
        evs = fault_events()
        for j, e in enumerate(evs):
            fam = ("append", "front", "mergebuild", "deque", "middle", "rotate", "appendremove", "setbuild", "randremove", "nodeapi", "splitany")[j % 11]
            jobs.append(((20000, 3000, 50000)[j % 3], fam, j % 2, dict(e, q=e["q"] * 20), (0, 255, 80580, 999983)[j % 4]))
    return jobs


def search_jobs(tier):
    """(profile, family, [args], burn, exact_height?)"""
    jobs = []

    def add(profile, fam, args, burn=0, exact=True):
        jobs.append((profile, fam, list(args), burn, exact))

    big = 1000000
    thread_shapes = [(200, 5), (64, 16), (1000, 1), (16, 1000), (128, 128), (46, 1), (3, 7), (2, 5000)]
    if tier == "quick":
        # debug: the original four at full size, the new families smaller; release: everything at 10^6 and past 2^20 draws
        for fam in ("append", "front", "appendremove"):
            add("debug", fam, [big], exact=False)
        add("debug", "rotate", [300000], exact=False)
        for fam, args in (("deque", [60000]), ("middle", [60000]), ("mergebuild", [60000, 1]), ("setbuild", [60000, 1]),
                          ("splitany", [60000]), ("randremove", [40000]), ("nodeapi", [60000]), ("roundrobin", [60000, 89]),
                          ("roundrobin", [100000, 4096]), ("blocks", [60000, 7, 0]), ("blocks", [60000, 1000, 1]),
                          ("rotate", [20000])):
            add("debug", fam, args)
        for fam, args in (("append", [1100000]), ("front", [big]), ("rotate", [big]), ("appendremove", [big]), ("deque", [big]),
                          ("middle", [big]), ("mergebuild", [big, 0]), ("mergebuild", [big, 1]), ("setbuild", [big, 0]),
                          ("setbuild", [big, 1]), ("splitany", [big]), ("randremove", [big]), ("nodeapi", [big]),
                          ("roundrobin", [big, 3]), ("roundrobin", [big, 144]), ("roundrobin", [big, 65536]),
                          ("blocks", [big, 7, 0]), ("blocks", [big, 1000, 1]), ("threads", [100, 10000, 0, 1])):
            add("release", fam, args, exact=False)
        for fam, args in (("append", [200000]), ("deque", [100000]), ("setbuild", [100000, 1]), ("roundrobin", [100000, 233]),
                          ("randremove", [40000]), ("rotate", [30000])):
            add("release", fam, args)
        for profile in ("debug", "release"):
            for (T, m) in thread_shapes:
                for par in (0, 1):
                    add(profile, "threads", [T, m, (T + par) % 2, par])
            add(profile, "doubling", [16, 10])
            add(profile, "doubling", [1, 12])
            for k, (fam, args) in enumerate((("append", [3000]), ("front", [3000]), ("middle", [500]), ("roundrobin", [5000, 7]),
                                             ("threads", [32, 32, 0, 0]), ("threads", [32, 32, 1, 1]))):
                add(profile, fam, args, burn=(30918, 1 << 16, 262143, 999983, 80580, 4097)[k])
    else:
        for profile in ("debug", "release"):
            for fam, tail in (("append", []), ("front", []), ("rotate", []), ("appendremove", []), ("deque", []), ("middle", []),
                              ("mergebuild", [0]), ("mergebuild", [1]), ("setbuild", [0]), ("setbuild", [1]), ("splitany", []),
                              ("randremove", []), ("nodeapi", []), ("blocks", [7, 0]), ("blocks", [1000, 1]), ("blocks", [1, 0]),
                              ("blocks", [65536, 1])):
                for n in (1000, 65536, 250000, big):
                    if profile == "debug" and n == big and fam in ("rotate", "splitany", "randremove", "setbuild", "nodeapi") and tail != [0]:
                        n = 400000
                    add(profile, fam, [n] + tail, exact=(profile == "release" or n <= 65536))
            add(profile, "append", [1100000], exact=False)
            add(profile, "front", [1100000], exact=False)
            for k in (2, 3, 7, 64, 89, 144, 233, 256, 377, 610, 1024, 4096, 65536):
                add(profile, "roundrobin", [big if profile == "release" else 250000, k], exact=(profile == "release"))
                add(profile, "roundrobin", [20000, k])
            for (T, m) in thread_shapes + [(100, 10000), (1000, 100), (256, 256), (512, 8), (8, 512), (89, 89), (4000, 1)]:
                for par in (0, 1):
                    for front in (0, 1):
                        add(profile, "threads", [T, m, front, par])
            for b, r in ((16, 10), (1, 12), (5, 8), (1000, 6)):
                add(profile, "doubling", [b, r])
            # the stream entered at many offsets (short and medium runs), both profiles
            for k in range(40):
                off = (k * 27449 + 255) % 1000000
                add(profile, ("append", "front", "middle", "deque")[k % 4], [(300, 5000, 40, 20000)[k % 4]], burn=off)
                add(profile, "threads", [16 + k, 16 + (k * 7) % 50, k % 2, k % 2], burn=off)
            add(profile, "roundrobin", [5000, 7], burn=COLLISION[0])
    for profile in ("debug", "release"):
        for (n, fam, a, e, burn) in fault_jobs(tier):
            add(profile, "fault", [n, fam, a, event_token(e)], burn=burn)
    return jobs


def check_fault_job(job, rc, toks, payload, name, cov, viol):
    """one `x fault` line: the fresh treap built AFTER the event must pass the executor's checks (heap order, sizes, born-with
    priorities, height bound), its priorities must be the continuation of the one process-wide stream (the draws made before
    and during the abnormal exit count) and its height the height of the Cartesian tree of that continuation.  Returns 1 if
    the exact height was compared."""
    profile, _, (n, after, a, etok), burn, _ = job
    e = parse_event_token(etok)
    about = ("after the event %s (%s) and %d burnt draws, family '%s' with %d nodes, %s build"
             % (etok, "callback re-enters the library" if is_reentrant(e) else "callback panics", burn, after, n, profile))
    if not (rc == 0 and toks[:1] == ["ok"] and len(toks) == 11):
        viol.append({"name": "search-" + name,
                     "payload": dict(payload, event=e, what="implementation-level search: a fresh treap built on the main thread AFTER a fault in user code inside a "
                                     "library call (%s) violates the exact heap invariant, the subtree sizes, 'a node keeps the priority it was born with' or "
                                     "height <= 3*floor(log2(n+1))+12 - or the line crashed, or did not come back within %d s (a user callback that re-enters "
                                     "the library while the library still holds its generator lock)" % (about, FAULT_TIMEOUT))})
        return 0
    height, worst, checks, size, created, chain, multi = [int(t) for t in toks[3:10]]
    dtot, good = event_draws(e, toks[10], burn)
    off = burn + dtot
    hc, hm = slice_hashes(off, n)
    entry = {"final_height": height, "final_size": size, "bound": tight_bound(size), "worst_height_over_bound_permille": worst,
             "checkpoints": checks, "event": toks[10], "draws_before_the_fresh_treap": off}
    cov["search_" + name] = entry
    if not good or created != n or chain != hc or multi != hm:
        viol.append({"name": "search-stream-" + name, "kind": "broken-correspondence", "nofail": True,
                     "payload": dict(payload, event=e, obligation="the priorities drawn after an abnormal exit of user code are the NEXT draws of the one process-wide generator (C16/Model.v lcg_prios)",
                                     what="implementation-level search: %s - the probe drawn right after the event or the %d priorities of the fresh treap are not the "
                                          "continuation of the modelled stream from draw %d on (the draws made before and during the event count); heap order and the "
                                          "height bound held on this line" % (about, created, off - 1),
                                     expected={"probe_is_draw": off - 1, "probe": stream(off)[off - 1], "chain_hash": hc, "multiset_hash": hm})})
        return 0
    entry["stream"] = "draws %d .. %d, in order" % (off, off + n - 1)
    ids = inorder_ids(after, [n, a])
    if ids is None:
        return 0
    draws = stream(off + n)
    wh = (cart_height([draws[off + i] for i in ids]), len(ids))
    entry["predicted_height"] = wh[0]
    if (height, size) != wh:
        viol.append({"name": "search-shape-" + name, "kind": "broken-correspondence", "nofail": True,
                     "payload": dict(payload, event=e, obligation="final shape = Cartesian tree of the predicted in-order priorities (c16_cartesian)",
                                     what="implementation-level search: %s ends with %d nodes at height %d; the Cartesian tree of the predicted in-order priority "
                                          "sequence has %d nodes and height %d" % (about, size, height, wh[1], wh[0]))})
    return 1


def extra(ctx, known):
    """implementation-level search with the generator's own priorities (never counted as proof)"""
    jobs = search_jobs(ctx.tier)

    def line_of(job):
        _, fam, args, burn, _ = job
        return "x %s %s%s" % (fam, " ".join(str(a) for a in args), " +%d" % burn if burn else "")

    def one(job):
        limit = (FAULT_TIMEOUT if job[2][0] <= 5000 else 6 * FAULT_TIMEOUT) if job[1] == "fault" else 1800
        try:
            p = subprocess.run([ctx.bins[job[0]]], input=line_of(job) + "\n", stdout=subprocess.PIPE, stderr=subprocess.PIPE,
                               text=True, timeout=limit)
            return job, p.returncode, p.stdout.strip(), p.stderr[-500:]
        except subprocess.TimeoutExpired:
            return job, -1, "timeout after %d s" % limit, ""

    with concurrent.futures.ThreadPoolExecutor(4) as ex:
        fut = ex.map(one, jobs)
        # meanwhile: the modelled stream, its hashes at every count a job needs, and the predicted final heights
        counts = {job_nodes(f, a) + b for (_, f, a, b, _) in jobs if f not in ("doubling", "fault")}
        hashes = stream_hashes(counts)
        draws = stream(max(counts))
        want_h = {}
        for (_, fam, args, burn, exact) in jobs:
            key = (fam, tuple(args), burn)
            if exact and fam not in ("doubling", "fault") and key not in want_h:
                ids = inorder_ids(fam, args)
                want_h[key] = None if ids is None else (cart_height([draws[burn + i] for i in ids]), len(ids))
        results = list(fut)

    cov, viol, n_exact, skipped, n_fault = {}, [], 0, 0, 0
    for job, rc, out, err in results:
        profile, fam, args, burn, exact = job
        name = "%s_%s%s_%s" % (fam, "_".join(str(a) for a in args).replace(":", "-"), "_burn%d" % burn if burn else "", profile)
        toks = out.split()
        payload = {"executor_line": line_of(job), "profile": profile, "executor_output": out, "returncode": rc, "stderr": err}
        if fam == "fault":
            n_fault += 1
            n_exact += check_fault_job(job, rc, toks, payload, name, cov, viol)
            continue
        if rc == 0 and toks[:3] == ["skip", "doubling", "noclone"]:
            skipped += 1
            cov["search_" + name] = {"skipped": "Treap<Item>: Clone does not exist"}
            continue
        if not (rc == 0 and toks[:1] == ["ok"] and len(toks) == 10):
            viol.append({"name": "search-" + name,
                         "payload": dict(payload, what="implementation-level search: family '%s' (args %s, %d burnt draws, %s build) with the treap's own "
                                                       "priorities violates the exact heap invariant, the subtree sizes, 'a node keeps the priority it was born "
                                                       "with' or height <= 3*floor(log2(n+1))+12 (or crashed: a degenerate tree exhausts the stack)"
                                                       % (fam, args, burn, profile))})
            continue
        height, worst, checks, size, created, chain, multi = [int(t) for t in toks[3:10]]
        nodes = job_nodes(fam, args)
        entry = {"final_height": height, "final_size": size, "bound": tight_bound(size), "older_bound": 5 * ((size + 1).bit_length() - 1) + 20,
                 "worst_height_over_bound_permille": worst, "checkpoints": checks, "draws": created}
        cov["search_" + name] = entry
        if fam == "doubling":
            continue
        par = fam == "threads" and len(args) > 3 and args[3] == 1
        hc, hm = hashes[nodes + burn]
        if created != nodes + burn or multi != hm or (not par and chain != hc):
            viol.append({"name": "search-stream-" + name, "kind": "broken-correspondence", "nofail": True,
                         "payload": dict(payload, obligation="the priorities drawn on one executor line are the first draws of the modelled generator (C16/Model.v lcg_prios)",
                                         what="implementation-level search: the %d priorities drawn by family '%s' (args %s, %d burnt draws, %s build) are not the first %d draws of the "
                                              "modelled process-wide generator (%s); heap order and the height bound held on this line"
                                              % (created, fam, args, burn, profile, nodes + burn, "as a multiset" if par else "in creation order"),
                                         expected={"draws": nodes + burn, "chain_hash": hc, "multiset_hash": hm})})
            continue
        entry["stream"] = "multiset of the first %d draws" % created if par else "first %d draws, in order" % created
        wh = want_h.get((fam, tuple(args), burn))
        if exact and wh is not None:
            n_exact += 1
            entry["predicted_height"] = wh[0]
            if (height, size) != wh:
                viol.append({"name": "search-shape-" + name, "kind": "broken-correspondence", "nofail": True,
                             "payload": dict(payload, obligation="final shape = Cartesian tree of the predicted in-order priorities (c16_cartesian)",
                                             what="implementation-level search: family '%s' (args %s, %d burnt draws, %s build) ends with %d nodes at height %d; the Cartesian tree of the "
                                                  "predicted in-order priority sequence has %d nodes and height %d" % (fam, args, burn, profile, size, height, wh[1], wh[0]))})
    ctx.say("[C16] search: %d families/sizes/profiles (%d with the exact height predicted, %d after a fault in user code, %d skipped: no Clone), %d violation(s)"
            % (len(jobs), n_exact, n_fault, skipped, len(viol)))
    if len(viol) > MAX_SEARCH_REPORTS:
        # one breaking change usually fails many jobs: report the concrete ones first, name the others in the last report
        viol.sort(key=lambda v: bool(v.get("nofail")))
        rest = [v["name"] for v in viol[MAX_SEARCH_REPORTS:]]
        viol = viol[:MAX_SEARCH_REPORTS]
        viol[-1]["payload"]["other_failing_search_jobs"] = rest
    return {"coverage": {"implementation_search": cov}, "violations": viol}


MANIFEST = {
    "text": "Coq theorems (no axioms) on the treap model of C03: c16_heap_preserved / c16_heap_strict_preserved (min-heap order on every "
            "edge - in the exact form of the code: <= towards the left child, < towards the right child, ties go right - after every "
            "history, for every priority stream and ANY item functions); c16_priorities_only_moved (per operation) and "
            "c16_history_priorities (history level: priorities are created once, never changed, and stay attached in order to their "
            "elements; a move = remove_at + insert_at of the returned item object carries the value to a NEW node with the next priority); c16_canonical (distinct priorities), c16_canonical_ties and c16_cartesian (no distinctness needed: the tree IS "
            "the Cartesian tree of its in-order list, independent of the history); c16_model_check_spec_check. Height: PARTIAL "
            "(c16_height_partial, c16_height_tight_partial) - finite computations inside Coq for named adversarial families (sorted appends, front inserts, "
            "insert + split-and-swap; with the tighter bound 3*log2(n+1)+12 also alternating ends, middle inserts, merge-building) with the modelled generator for n = 2^k, k <= 14 resp. 10, plus an implementation-level search on every run, on the debug and the release "
            "executor, up to 1.1*10^6 nodes: sixteen families (one treap, k treaps filled round robin, pieces built on T threads - one after the other and concurrently - and merged on one thread, "
            "building blocks only, Treap::default pieces, doubling by clone where Clone exists), exact heap invariant on every edge, subtree sizes, unchanged priorities, height <= 3*floor(log2(n+1))+12, "
            "and the hash of every priority drawn against the modelled stream (bit for bit; past 2^20 draws; concurrent threads as a multiset). "
            "Tied to the code on every run through the public node fields (full shape, priorities, items), including nodes created on other threads "
            "(one process-wide stream), through TreapNode::new directly, after burnt draws (stream offsets up to 10^6, the first 32-bit collision of the stream inside the real insert_at), "
            "family histories up to 300 (quick) / 3000 (thorough) nodes and split_by with non-monotone predicates; and AFTER A FAULT IN USER CODE inside a library call (an item whose update / push / size or "
            "split_by predicate panics in the middle of insert_at / merge / split / remove_at / collect / first / last - on a worker thread that dies, under catch_unwind, while another thread creates nodes - or "
            "re-enters the library from the callback): the probe drawn right after the event and every priority of the treaps built afterwards are the next draws of the one process-wide stream (the draws made "
            "before the abnormal exit count), fresh treaps of 1500-3000 nodes keep heap order, the height bound and the predicted Cartesian height in both profiles; a call that does not come back is a violation (watchdog).",
    "level_note": "Partial: the bounds height <= 5*log2(n+1)+20 / 3*log2(n+1)+12 are probabilistic statements about the generator and cannot be universal "
                  "theorems; what is proved is the finite family evaluation. Trusted: Coq kernel + vm_compute; Rust executor (its family search checks heap order, sizes, born-with priorities and heights itself); Python "
                  "printer (incl. its prediction of the draws of the process-wide LCG - one draw per node creation of a line, on whichever thread, burnt draws included -, which the executor resets at the start of every line, cross-checked against the Coq model of the generator in "
                  "every native case without burnt draws; hash and Cartesian-tree height of the predicted stream for the search; draw count of a fault event against its probe); the fault-injecting item type of the executor; sampled correspondence.",
    "technique": "Coq proof over Gallina model + vm_compute correspondence batches + implementation-level search",
}
