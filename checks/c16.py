"""C16 — treap heap order, canonical (Cartesian) shape, height (rlib/treap + rlib/rand)."""
import concurrent.futures
import subprocess

import c03

ID = "C16"
CRATE = "c03"
COQ_DIR = "C16"
COQ_DEPS = ["C03"]
PROFILES = ["debug", "release"]
CORR_IMPORT = "From RlibV Require Import C03.Model C03.Corr C16.Model C16.Corr.\nOpen Scope Z_scope."
AUDIT_IMPORT = ("From Coq Require Import ZArith List Bool.\nImport ListNotations.\n"
                "From RlibV Require Import C03.Model C03.Corr C03.Proofs C16.Model C16.Corr C16.Proofs C16.ProofsStrict C16.ProofsHist C16.Properties.\nOpen Scope Z_scope.")
EXPLAIN = "explain"
CASE_TYPE = "case"
AXIOM_ALLOW = []
SHARD = 1500
SEARCH_MAX = 3000      # size of the enlarged search after a model-only mismatch
THEOREMS = [
    ('c16_heap_preserved',
     'forall (T M V A : Type) (update : T -> option T -> option T -> T) (push : T -> option T -> option T -> T * option T * option T) (size : T -> Z) (modify : M -> T -> T) (elem : T -> V) (agg : T -> A) (ps : list Z) (ops : list (@op T M V)), Forall Heap (run_final update push size modify elem agg ps ops)'),
    ('c16_priorities_only_moved',
     'forall (T M : Type) (update : T -> option T -> option T -> T) (push : T -> option T -> option T -> T * option T * option T) (size : T -> Z) (modify : M -> T -> T), (forall a b : @tree T, Heap a -> Heap b -> Heap (merge update push a None b None) /\\ prios (merge update push a None b None) = prios a ++ prios b) /\\ (forall (t : @tree T) k a b, Heap t -> split_at update push size t None k = (a, b) -> Heap a /\\ Heap b /\\ prios a ++ prios b = prios t) /\\ (forall q (t : @tree T) a b, Heap t -> split_by update push q t None = (a, b) -> Heap a /\\ Heap b /\\ prios a ++ prios b = prios t) /\\ (forall t : @tree T, Heap t -> (Heap (fst (first push t None)) /\\ prios (fst (first push t None)) = prios t) /\\ (Heap (fst (last push t None)) /\\ prios (fst (last push t None)) = prios t) /\\ (Heap (fst (collect push t None)) /\\ prios (fst (collect push t None)) = prios t)) /\\ (forall (t : @tree T) k x p, Heap t -> Heap (insert_at update push size t k x p) /\\ exists l r, prios t = l ++ r /\\ prios (insert_at update push size t k x p) = l ++ p :: r) /\\ (forall (t : @tree T) k, Heap t -> Heap (fst (remove_at update push size t k)) /\\ exists l m r, prios t = l ++ m ++ r /\\ prios (fst (remove_at update push size t k)) = l ++ r) /\\ (forall m (t : @tree T), Heap t -> Heap (modify_root modify m t) /\\ prios (modify_root modify m t) = prios t)'),
    ('c16_canonical',
     'forall (T : Type) (t1 t2 : @tree T), Heap t1 -> Heap t2 -> inorder t1 = inorder t2 -> NoDup (map fst (inorder t1)) -> t1 = t2'),
    ('c16_heapb_Heap',
     'forall (T : Type) (t : @tree T), heapb t = true <-> Heap t'),
    ('c16_heap_strict_preserved',
     'forall (T M V A : Type) (update : T -> option T -> option T -> T) (push : T -> option T -> option T -> T * option T * option T) (size : T -> Z) (modify : M -> T -> T) (elem : T -> V) (agg : T -> A) (ps : list Z) (ops : list (@op T M V)), Forall HeapS (run_final update push size modify elem agg ps ops)'),
    ('c16_canonical_ties',
     'forall (T : Type) (t1 t2 : @tree T), HeapS t1 -> HeapS t2 -> inorder t1 = inorder t2 -> t1 = t2'),
    ('c16_cartesian',
     'forall (T : Type) (t : @tree T), HeapS t -> t = cart (inorder t)'),
    ('c16_heap_strict_heap',
     'forall (T : Type) (t : @tree T), HeapS t -> Heap t'),
    ('c16_history_priorities',
     'forall (T M A : Type) (update : T -> option T -> option T -> T) (push : T -> option T -> option T -> T * option T * option T) (size : T -> Z) (modify : M -> T -> T) (elem : T -> Z) (agg : T -> A) (act : M -> Z -> Z) (aggf : list Z -> A) (Pending : T -> list M -> Prop), lawful update push size modify elem agg act aggf Pending -> forall (mk : Z -> T) (md : amod -> M) (actc : amod -> Z -> Z), (forall v : Z, Fresh size elem agg aggf Pending (mk v)) -> (forall v : Z, elem (mk v) = v) -> (forall (m : amod) (e : Z), act (md m) e = actc m e) -> forall (ps : list Z) (ops : list cop) (want : list (list pv)), prun actc [] ps ops = Some want -> Forall2 (fun t pxs => HeapS t /\\ Rep size elem agg act aggf Pending t (map snd pxs) /\\ prios t = map fst pxs) (run_final update push size modify elem agg ps (map (conv modify mk md) ops)) want'),
    ('c16_model_check_spec_check',
     'forall c : case, model_check c = true -> spec_check c = true'),
    ('c16_height_partial',
     'forall k : Z, 0 <= k <= 14 -> let n := 2 ^ k in (height (fam step_append n) <= 5 * Z.log2 (n + 1) + 20 /\\ Heap (fam step_append n) /\\ tsize isize (fam step_append n) = n) /\\ (height (fam step_front n) <= 5 * Z.log2 (n + 1) + 20 /\\ Heap (fam step_front n) /\\ tsize isize (fam step_front n) = n) /\\ (height (fam step_rotate n) <= 5 * Z.log2 (n + 1) + 20 /\\ Heap (fam step_rotate n) /\\ tsize isize (fam step_rotate n) = n)'),
]
RULE = ("the multi-treap histories of C03, including move = remove_at followed by insert_at of the returned item object, whose new node "
        "draws a new priority (two item kinds; priorities random / tiny range with ties / all equal / increasing / "
        "decreasing / native draws of the process-wide generator; items that the caller modified before from_item / insert_at, so that they enter with a pending tag, and the real insert_at steered through every rank of the new node, ties included: c03.hybrid_tagged); observed = full final shape of every live treap through the "
        "public fields left/right/priority/item + final collect(); non-trivial = some final treap has >= 3 nodes and the history "
        "contains a split or merge; implementation-level search (extra): sorted appends, front inserts, split-and-swap rotations, "
        "append+remove up to 10^6 nodes with native priorities, heap order + subtree sizes + height <= 5*log2(n+1)+20 at every "
        "power of two")
TRUSTED = c03.TRUSTED
ASSUMPTIONS = c03.ASSUMPTIONS + [
    "the height bound is a statement about the randomness of the generator: proved only as finite computations for the named "
    "families (c16_height_partial) and searched on the implementation up to 10^6 nodes"]

harness_line = c03.harness_line
shrink = c03.shrink


def generate(rng, tier):
    cases = c03.exhaustive_small(4 if tier == "quick" else 5)
    # move = remove_at + insert_at of the returned item object: every priority assignment, every pair of positions
    cases += c03.exhaustive_move(3, 3, kinds=(0, 1)) if tier == "quick" else c03.exhaustive_move(5, 3, kinds=(0, 1))
    cases += c03.native_move(4 if tier == "quick" else 6, kinds=(0, 1))
    # a tagged item enters through the REAL insert_at / from_item, the new node at every rank among the others (ties included)
    cases += c03.hybrid_tagged(2, 2, kinds=(0, 1)) if tier == "quick" else c03.hybrid_tagged(4, 2, kinds=(0, 1))
    n = 1100 if tier == "quick" else 25000
    modes = ["random", "random", "tiny", "tiny", "equal", "inc", "dec", "native", "native", "native"]
    for t in range(n):
        kind = t % 2
        mode = modes[rng.below(len(modes))]
        nops = rng.choice([4, 10, 20, 30, 45] if tier == "quick" else [4, 10, 20, 45, 80])
        cases.append(c03.gen_history(rng, nops, kind, mode, 35 if tier == "quick" else 60))
    return cases


def parse_tree(toks, pos, kind):
    """returns (coq term, next position, node count)"""
    if toks[pos] == ".":
        return "E", pos + 1, 0
    assert toks[pos] == "(", toks[pos]
    l, pos, nl = parse_tree(toks, pos + 1, kind)
    x, sm, sz, t1, t2, t3, pr = [int(v) for v in toks[pos:pos + 7]]
    pos += 7
    r, pos, nr = parse_tree(toks, pos, kind)
    assert toks[pos] == ")", toks[pos]
    z = c03.z
    if kind == 0:
        it = "(ISz %s %s %s %s)" % (z(x), z(sm), z(sz), z(t1))
    else:
        it = "(IAA %s %s %s %s %s)" % (z(x), z(sm), z(sz), "(Some %s)" % z(t3) if t2 == 1 else "None", z(t1))
    return "(Nd %s %s %s %s)" % (l, it, z(pr), r), pos + 1, nl + nr + 1


def parse_shapes(toks, kind):
    out, sizes, pos = [], [], 0
    while pos < len(toks):
        t, pos, n = parse_tree(toks, pos, kind)
        out.append(t)
        sizes.append(n)
    return out, sizes


def coq_term(c, obs, profile):
    so = c03.split_obs(obs)
    if so is None:
        o = "None"
    else:
        shapes, _ = parse_shapes(so[1], c["kind"])
        colls = ["[%s]" % "; ".join(c03.z(int(v)) for v in t.partition(":")[2].split(",") if v != "") for t in so[2]]
        o = "(Some ([%s], [%s]))" % ("; ".join(shapes), "; ".join(colls))
    return "(%s %s %s %s %s)" % ("CaseA" if c["kind"] == 0 else "CaseB", c03.coq_ops(c), c03.coq_prios(c),
                                 "true" if c.get("native") else "false", o)


def nontrivial(c, obs):
    so = c03.split_obs(obs)
    if so is None:
        return False
    _, sizes = parse_shapes(so[1], c["kind"])
    return max(sizes + [0]) >= 3 and any(op[0] in ("A", "B", "M", "I", "R", "V") for op in c["ops"])


def classify(c, obs):
    so = c03.split_obs(obs)
    big = 0
    if so is not None:
        _, sizes = parse_shapes(so[1], c["kind"])
        big = max(sizes + [0])
    return "kind%d/%s/%s" % (c["kind"], c.get("mode", "?"), "n<3" if big < 3 else ("n<10" if big < 10 else "n>=10"))


def known_finding(c, obs, profile):
    return None


def extra(ctx, known):
    """implementation-level search with the generator's own priorities (never counted as proof)"""
    binp = ctx.bins["debug"]
    big = 1000000
    jobs = [("append", big), ("front", big), ("appendremove", big),
            ("rotate", 300000 if ctx.tier == "quick" else big)]
    if ctx.tier != "quick":
        jobs += [(f, n) for f in ("append", "front", "rotate") for n in (1000, 65536, 250000)]

    def one(job):
        fam, n = job
        try:
            p = subprocess.run([binp], input="x %s %d\n" % (fam, n), stdout=subprocess.PIPE, stderr=subprocess.PIPE,
                               text=True, timeout=1800)
            return job, p.returncode, p.stdout.strip(), p.stderr[-500:]
        except subprocess.TimeoutExpired:
            return job, -1, "timeout", ""

    cov, viol = {}, []
    with concurrent.futures.ThreadPoolExecutor(4) as ex:
        for (fam, n), rc, out, err in ex.map(one, jobs):
            toks = out.split()
            if rc == 0 and toks[:1] == ["ok"]:
                cov["search_%s_%d" % (fam, n)] = {"final_height": int(toks[3]), "bound": 5 * ((n + 1).bit_length() - 1) + 20,
                                                  "worst_height_over_bound_permille": int(toks[4]), "checkpoints": int(toks[5])}
            else:
                viol.append({"name": "search-%s-%d" % (fam, n),
                             "payload": {"what": "implementation-level search: family '%s' with %d insertions and the treap's own "
                                                 "priorities violates heap order or height <= 5*log2(n+1)+20 (or crashed: a "
                                                 "degenerate tree exhausts the stack)" % (fam, n),
                                         "executor_line": "x %s %d" % (fam, n), "executor_output": out, "returncode": rc,
                                         "stderr": err}})
    ctx.say("[C16] search: %d families/sizes, %d violation(s)" % (len(jobs), len(viol)))
    return {"coverage": {"implementation_search": cov}, "violations": viol}


MANIFEST = {
    "text": "Coq theorems (no axioms) on the treap model of C03: c16_heap_preserved / c16_heap_strict_preserved (min-heap order on every "
            "edge - in the exact form of the code: <= towards the left child, < towards the right child, ties go right - after every "
            "history, for every priority stream and ANY item functions); c16_priorities_only_moved (per operation) and "
            "c16_history_priorities (history level: priorities are created once, never changed, and stay attached in order to their "
            "elements; a move = remove_at + insert_at of the returned item object carries the value to a NEW node with the next priority); c16_canonical (distinct priorities), c16_canonical_ties and c16_cartesian (no distinctness needed: the tree IS "
            "the Cartesian tree of its in-order list, independent of the history); c16_model_check_spec_check. Height: PARTIAL "
            "(c16_height_partial) - finite computations inside Coq for the named adversarial families (sorted appends, front inserts, "
            "insert + split-and-swap) with the modelled generator for n = 2^k, k <= 14, plus an implementation-level search up to 10^6 "
            "nodes on every run. Tied to the code on every run through the public node fields (full shape, priorities, items).",
    "level_note": "Partial: the bound height <= 5*log2(n+1)+20 is a probabilistic statement about the generator and cannot be a universal "
                  "theorem; what is proved is the finite family evaluation. Trusted: Coq kernel + vm_compute; Rust executor; Python "
                  "printer (incl. its prediction of the draws of the process-wide LCG, which the executor resets at the start of every line, cross-checked against the Coq model of the generator in "
                  "every native case); sampled correspondence.",
    "technique": "Coq proof over Gallina model + vm_compute correspondence batches + implementation-level search",
}
