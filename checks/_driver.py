"""Driver shared by all property checks (see DESIGN.md section 2.1).

One run =  proof gate (make + pinned-statement audit + Print Assumptions + forbidden-token scan)
        -> build the executor against the repository's current working tree
        -> generate cases (deterministic in VERIF_SEED), run them on the implementation
        -> Coq batch lemmas:  forallb model_check cases = true   (implementation = model)
                              forallb spec_check  cases = true   (implementation satisfies the spec)
        -> on any break: locate / shrink a concrete failing case, write a replay, print VIOLATION
        -> known findings, evidence file.

A plugin (checks/cNN.py) provides the property-specific parts; see checks/c11.py for the shape.
"""
import concurrent.futures
import fcntl
import hashlib
import importlib.util
import json
import os
import re
import shutil
import subprocess
import sys
import time

ROOT = os.path.dirname(os.path.dirname(os.path.abspath(__file__)))
COQ = os.path.join(ROOT, "coq")
THEORIES = os.path.join(COQ, "theories")
HARNESS = os.path.join(ROOT, "harness")
NPROC = min(16, os.cpu_count() or 4)
# Parallel coqc processes contend badly in this VM (each maps ~400 MB; page-fault handling serialises:
# 12 parallel 400-case shards took 17 s, one 4464-case file 4 s), so few large shards, few workers.
COQ_JOBS = int(os.environ.get("VERIF_COQ_JOBS", "4"))

FORBIDDEN = re.compile(
    r"\b(Admitted|admit|Axiom|Axioms|Parameter|Parameters|Conjecture|Conjectures)\b"
    r"|Admit\s+Obligations|Unset\s+Guard\s+Checking|Guard\s+Checking|bypass_check|Unset\s+Universe\s+Checking"
    r"|Unset\s+Positivity\s+Checking|type-in-type|impredicative-set|native_compute"
)


# ----------------------------------------------------------------------------- utilities
class Rng:
    """splitmix64; every random choice of a run derives from VERIF_SEED through this."""

    def __init__(self, seed):
        self.s = seed & 0xFFFFFFFFFFFFFFFF

    def next(self):
        self.s = (self.s + 0x9E3779B97F4A7C15) & 0xFFFFFFFFFFFFFFFF
        z = self.s
        z = ((z ^ (z >> 30)) * 0xBF58476D1CE4E5B9) & 0xFFFFFFFFFFFFFFFF
        z = ((z ^ (z >> 27)) * 0x94D049BB133111EB) & 0xFFFFFFFFFFFFFFFF
        return z ^ (z >> 31)

    def below(self, n):
        return self.next() % n if n > 0 else 0

    def range(self, lo, hi):
        """inclusive"""
        return lo + self.below(hi - lo + 1)

    def choice(self, xs):
        return xs[self.below(len(xs))]

    def chance(self, num, den):
        return self.below(den) < num

    def shuffle(self, xs):
        for i in range(len(xs) - 1, 0, -1):
            j = self.below(i + 1)
            xs[i], xs[j] = xs[j], xs[i]

    def fork(self, tag):
        h = int.from_bytes(hashlib.sha256(("%d/%s" % (self.s, tag)).encode()).digest()[:8], "big")
        return Rng(h)


def strip_comments(src):
    out, depth, i, n = [], 0, 0, len(src)
    while i < n:
        if src.startswith("(*", i):
            depth += 1
            i += 2
        elif src.startswith("*)", i) and depth > 0:
            depth -= 1
            i += 2
        else:
            if depth == 0:
                out.append(src[i])
            i += 1
    return "".join(out)


def _big_stack():
    """coqc elaborates the batch files' long list literals recursively: a 1.7 MB case list overflowed the default
    8 MB stack (thorough tier of C08); children run with the stack limit raised as far as the hard limit allows"""
    import resource
    try:
        soft, hard = resource.getrlimit(resource.RLIMIT_STACK)
        resource.setrlimit(resource.RLIMIT_STACK, (hard, hard))
    except (ValueError, OSError):
        pass


def run(cmd, cwd=None, timeout=3600, input=None, env=None):
    p = subprocess.run(cmd, cwd=cwd, input=input, stdout=subprocess.PIPE, stderr=subprocess.STDOUT,
                       timeout=timeout, env=env, text=True, preexec_fn=_big_stack)
    return p.returncode, p.stdout


def load_plugin(pid):
    path = os.path.join(ROOT, "checks", pid.lower() + ".py")
    spec = importlib.util.spec_from_file_location("plugin_" + pid.lower(), path)
    mod = importlib.util.module_from_spec(spec)
    sys.path.insert(0, os.path.join(ROOT, "checks"))
    spec.loader.exec_module(mod)
    return mod


class Ctx:
    def __init__(self, pid, tier, seed):
        self.pid, self.tier, self.seed = pid, tier, seed
        self.repo = os.environ.get("RLIB_REPO", "/repo")
        self.work = os.path.join(ROOT, ".work", "%s-%d" % (pid, os.getpid()))
        shutil.rmtree(self.work, ignore_errors=True)
        os.makedirs(self.work)
        self.t0 = time.time()
        self.log = []
        self.violations = []      # (replay_path, suffix)
        self.known = []
        self.bins = {}

    def say(self, msg):
        print(msg, flush=True)

    def cleanup(self):
        shutil.rmtree(self.work, ignore_errors=True)


# ----------------------------------------------------------------------------- proof gate
def make_targets(plugin, clean=False):
    """Full .vo build (never -vos) of the property's files, serialised by a lock."""
    os.makedirs(os.path.join(ROOT, ".work"), exist_ok=True)
    with open(os.path.join(ROOT, ".work", "coq.lock"), "w") as lk:
        fcntl.flock(lk, fcntl.LOCK_EX)
        rc, out = run([os.path.join(ROOT, "bin", "mkcoq")])
        if rc != 0:
            return False, out
        targets = []
        for d in [plugin.COQ_DIR] + list(getattr(plugin, "COQ_DEPS", [])) + ["Common"]:
            dd = os.path.join(THEORIES, d)
            if clean and d == plugin.COQ_DIR:
                for root, _, files in os.walk(dd):
                    for f in files:
                        if f.endswith((".vo", ".vos", ".vok", ".glob")) or f.endswith(".aux"):
                            os.remove(os.path.join(root, f))
            for root, _, files in os.walk(dd):
                for f in sorted(files):
                    if f.endswith(".v"):
                        targets.append(os.path.relpath(os.path.join(root, f), COQ) + "o")
        rc, out = run(["make", "-f", "Makefile.coq", "-j%d" % min(8, NPROC)] + targets, cwd=COQ, timeout=3 * 3600)
        return rc == 0, out


def forbidden_scan(plugin):
    hits = []
    for d in [plugin.COQ_DIR] + list(getattr(plugin, "COQ_DEPS", [])) + ["Common"]:
        for root, _, files in os.walk(os.path.join(THEORIES, d)):
            for f in sorted(files):
                if f.endswith(".v"):
                    src = strip_comments(open(os.path.join(root, f)).read())
                    for m in FORBIDDEN.finditer(src):
                        hits.append("%s: %s" % (os.path.relpath(os.path.join(root, f), ROOT), m.group(0)))
    return hits


AX_HEAD = re.compile(r"^(Closed under the global context|Axioms:)", re.M)


def parse_assumptions(out, names):
    """Split coqc output into one block per Print Assumptions, in order."""
    blocks = []
    pos = [m.start() for m in AX_HEAD.finditer(out)]
    for i, p in enumerate(pos):
        blocks.append(out[p:pos[i + 1] if i + 1 < len(pos) else len(out)])
    res = {}
    for name, blk in zip(names, blocks):
        if blk.startswith("Closed"):
            res[name] = []
        else:
            axs = re.findall(r"^([A-Za-z_][\w.']*)\s*:", blk[len("Axioms:"):], re.M)
            res[name] = axs
    return res, len(blocks)


def audit(ctx, plugin):
    """Re-check every pinned statement and collect Print Assumptions.  Returns
    (per-theorem dict name -> {'ok':bool,'axioms':[...],'error':str})."""
    thms = plugin.THEOREMS
    hdr = plugin.AUDIT_IMPORT + "\n"
    # `Definition pin_i : <pinned statement> := <name>.` checks the pin without printing anything that
    # could be mistaken for an axiom entry (the output of `Check` starts with "name : ...")
    body = "".join("Definition pin_%d : %s := %s.\nPrint Assumptions %s.\n" % (i, s, n, n) for i, (n, s) in enumerate(thms))
    path = os.path.join(ctx.work, "Audit_%s.v" % plugin.ID)
    open(path, "w").write(hdr + body)
    rc, out = run(["coqc", "-noglob", "-Q", THEORIES, "RlibV", path], cwd=ctx.work, timeout=1800)
    result = {}
    if rc == 0:
        ax, nblocks = parse_assumptions(out, [n for n, _ in thms])
        if nblocks == len(thms):
            for n, _ in thms:
                result[n] = {"ok": True, "axioms": ax[n], "error": ""}
            return result
    # fall back: one file per theorem, to learn which ones are broken

    def one(i):
        n, s = thms[i]
        p = os.path.join(ctx.work, "Audit_%s_%d.v" % (plugin.ID, i))
        open(p, "w").write(hdr + "Definition pin_%d : %s := %s.\nPrint Assumptions %s.\n" % (i, s, n, n))
        rc1, out1 = run(["coqc", "-noglob", "-Q", THEORIES, "RlibV", p], cwd=ctx.work, timeout=1800)
        if rc1 == 0:
            ax1, _ = parse_assumptions(out1, [n])
            return n, {"ok": True, "axioms": ax1.get(n, []), "error": ""}
        return n, {"ok": False, "axioms": [], "error": out1[-1500:]}

    with concurrent.futures.ThreadPoolExecutor(COQ_JOBS) as ex:
        for n, r in ex.map(one, range(len(thms))):
            result[n] = r
    return result


def proof_gate(ctx, plugin):
    gate = {"make_ok": True, "make_log": "", "forbidden": [], "theorems": {}, "bad_axioms": [], "broken": []}
    ok, out = make_targets(plugin, clean=(ctx.tier == "thorough"))
    gate["make_ok"], gate["make_log"] = ok, out[-3000:]
    gate["forbidden"] = forbidden_scan(plugin)
    if ok:
        gate["theorems"] = audit(ctx, plugin)
    else:
        gate["theorems"] = {n: {"ok": False, "axioms": [], "error": "make failed"} for n, _ in plugin.THEOREMS}
    allow = set(getattr(plugin, "AXIOM_ALLOW", []))
    for n, r in gate["theorems"].items():
        if not r["ok"]:
            gate["broken"].append(n)
        for a in r["axioms"]:
            # kernel primitives (machine integers / binary64 floats and their operations) are printed by
            # Print Assumptions next to the axioms; they are registered primitives of Coq's kernel, not axioms
            # declared by anybody (the evidence lists them under the trusted base all the same)
            if a.startswith("PrimFloat.") or a.startswith("PrimInt63."):
                continue
            if a not in allow and a.split(".")[-1] not in {x.split(".")[-1] for x in allow}:
                gate["bad_axioms"].append("%s depends on %s" % (n, a))
    if ctx.tier == "thorough" and ok and getattr(plugin, "COQCHK", True):
        rc, out = run(["coqchk", "-silent", "-o", "-Q", THEORIES, "RlibV", "RlibV.%s.Properties" % plugin.COQ_DIR],
                      cwd=COQ, timeout=3 * 3600)
        gate["coqchk_ok"] = (rc == 0)
        gate["coqchk_tail"] = out[-1500:]
        if rc != 0:
            gate["broken"].append("coqchk")
    return gate


# ----------------------------------------------------------------------------- implementation side
def build_harness(ctx, plugin, profile):
    """cargo build of the executor against ctx.repo.  When RLIB_REPO points elsewhere (my own
    mutation testing in scratch worktrees) the workspace is copied and its paths rewritten."""
    hdir = HARNESS
    env = dict(os.environ, CARGO_NET_OFFLINE="true")
    if ctx.repo != "/repo":
        hdir = os.path.join(ctx.work, "harness")
        if not os.path.isdir(hdir):
            shutil.copytree(HARNESS, hdir, ignore=shutil.ignore_patterns("target"))
            for root, _, files in os.walk(hdir):
                for f in files:
                    if f == "Cargo.toml":
                        p = os.path.join(root, f)
                        s = open(p).read().replace('"/repo/', '"%s/' % ctx.repo)
                        open(p, "w").write(s)
        env["CARGO_TARGET_DIR"] = os.path.join(ctx.repo, "target", "verif-harness")
    # every executor crate is a stand-alone package (no enclosing cargo workspace: a half-written
    # neighbour crate must not break this build); they share one target directory
    env.setdefault("CARGO_TARGET_DIR", os.path.join(HARNESS, "target"))
    cmd = ["cargo", "build", "--offline", "-q", "--manifest-path",
           os.path.join(hdir, "crates", plugin.CRATE, "Cargo.toml")]
    if profile == "release":
        cmd.append("--release")
    rc, out = run(cmd, cwd=hdir, timeout=3600, env=env)
    tdir = env["CARGO_TARGET_DIR"]
    binp = os.path.join(tdir, "release" if profile == "release" else "debug", plugin.CRATE)
    return rc == 0 and os.path.exists(binp), out, binp


def run_impl(binp, lines, timeout=3600, extra_env=None):
    env = dict(os.environ)
    if extra_env:
        env.update(extra_env)
    p = subprocess.run([binp], input="".join(l + "\n" for l in lines), stdout=subprocess.PIPE,
                       stderr=subprocess.PIPE, text=True, timeout=timeout, env=env)
    outs = p.stdout.split("\n")
    if outs and outs[-1] == "":
        outs.pop()
    if p.returncode != 0 or len(outs) != len(lines):
        raise RuntimeError("executor failed rc=%d, %d outputs for %d inputs\n%s" %
                           (p.returncode, len(outs), len(lines), p.stderr[-2000:]))
    return outs


# ----------------------------------------------------------------------------- Coq side
def write_batch(plugin, path, terms, lemmas=True):
    with open(path, "w") as f:
        f.write("From Coq Require Import List ZArith NArith Bool String.\nImport ListNotations.\n")
        f.write("From RlibV Require Import Common.Batch.\n")
        f.write(plugin.CORR_IMPORT + "\n")
        f.write("Definition cases : list %s := [\n" % getattr(plugin, "CASE_TYPE", "case"))
        f.write(";\n".join(terms))
        f.write("\n].\n")
        if lemmas:
            f.write("Lemma batch_model : forallb model_check cases = true.\nProof. vm_compute. reflexivity. Qed.\n")
            f.write("Lemma batch_spec : forallb spec_check cases = true.\nProof. vm_compute. reflexivity. Qed.\n")
        else:
            f.write("Set Printing Depth 1000000.\nSet Printing Width 200.\n")
            f.write('Eval vm_compute in ("@@MODEL"%string, bad_idx model_check cases).\n')
            f.write('Eval vm_compute in ("@@SPEC"%string, bad_idx spec_check cases).\n')


def coqc(path, cwd, timeout=3600):
    return run(["coqc", "-noglob", "-Q", THEORIES, "RlibV", path], cwd=cwd, timeout=timeout)


def diagnose(ctx, plugin, terms, tag):
    """indices of the cases failing model_check / spec_check"""
    path = os.path.join(ctx.work, "diag_%s.v" % tag)
    write_batch(plugin, path, terms, lemmas=False)
    rc, out = coqc(path, ctx.work)
    if rc != 0:
        raise RuntimeError("diagnosis file does not compile (a case term is ill-typed?)\n" + out[-3000:])
    flat = re.sub(r"\s+", " ", out)
    res = {}
    for key in ("MODEL", "SPEC"):
        m = re.search(r'"@@%s"(?:%%string)?\s*,\s*(\[[^\]]*\]|nil)' % key, flat)
        if not m:
            raise RuntimeError("cannot parse diagnosis output\n" + out[-2000:])
        # numbers print as 3%N, or bare 3 when an imported file left N_scope open
        res[key] = [int(x) for x in re.findall(r"(\d+)(?:%\w+)?", m.group(1))]
    return res["MODEL"], res["SPEC"]


def check_batches(ctx, plugin, terms, shard_size):
    """Returns (n_lemmas, n_ok, bad_model, bad_spec) with global case indices."""
    shards = [list(range(i, min(i + shard_size, len(terms)))) for i in range(0, len(terms), shard_size)]

    def one(k):
        path = os.path.join(ctx.work, "batch_%d.v" % k)
        write_batch(plugin, path, [terms[i] for i in shards[k]])
        rc, out = coqc(path, ctx.work)
        if rc == 0:
            return k, True, [], [], ""
        try:
            bm, bs = diagnose(ctx, plugin, [terms[i] for i in shards[k]], "b%d" % k)
        except RuntimeError as e:
            return k, False, None, None, str(e) + "\n" + out[-1500:]
        if not bm and not bs:
            # the lemma file failed but no case is blamed: never count that as success
            return k, False, None, None, "batch lemma failed but diagnosis names no case\n" + out[-1500:]
        return k, False, [shards[k][i] for i in bm], [shards[k][i] for i in bs], out[-800:]

    n_ok, bad_model, bad_spec, errors = 0, [], [], []
    with concurrent.futures.ThreadPoolExecutor(COQ_JOBS) as ex:
        for k, ok, bm, bs, err in ex.map(one, range(len(shards))):
            if ok:
                n_ok += 2
            elif bm is None:
                errors.append(err)
            else:
                n_ok += (0 if bm else 1) + (0 if bs else 1)
                bad_model += bm
                bad_spec += bs
    return 2 * len(shards), n_ok, sorted(bad_model), sorted(bad_spec), errors


def explain(ctx, plugin, term, tag):
    """What the model computes on a case, as text, for the replay file."""
    fn = getattr(plugin, "EXPLAIN", None)
    if not fn:
        return ""
    path = os.path.join(ctx.work, "explain_%s.v" % tag)
    with open(path, "w") as f:
        f.write("From Coq Require Import List ZArith NArith Bool String.\nImport ListNotations.\n")
        f.write(plugin.CORR_IMPORT + "\nSet Printing Depth 100000.\n")
        f.write("Eval vm_compute in (%s (%s)).\n" % (fn, term))
    rc, out = coqc(path, ctx.work)
    return out.strip()[-4000:]


# ----------------------------------------------------------------------------- cases
def evaluate(ctx, plugin, cases):
    """Run cases on the implementation (all profiles); returns list of (case, profile, obs, term)."""
    items = []
    for profile in plugin.PROFILES:
        binp = ctx.bins[profile]
        # a plugin may adapt a case to a profile (drop operations whose out-of-contract behaviour is profile specific)
        fp = getattr(plugin, "for_profile", None)
        pcases = [fp(c, profile) for c in cases] if fp else cases
        lines = [plugin.harness_line(c) for c in pcases]
        outs = run_impl(binp, lines, extra_env=getattr(plugin, "HARNESS_ENV", None))
        for c, o in zip(pcases, outs):
            items.append((c, profile, o, plugin.coq_term(c, o, profile)))
    return items


def failing_after(ctx, plugin, cands, which, tag):
    """first candidate (as an evaluated item) that still fails `which` ('MODEL'|'SPEC'), or None"""
    if not cands:
        return None
    try:
        items = evaluate(ctx, plugin, cands)
        bm, bs = diagnose(ctx, plugin, [it[3] for it in items], tag)
    except Exception:
        return None
    bad = bm if which == "MODEL" else bs
    return items[bad[0]] if bad else None


def shrink(ctx, plugin, item, which):
    """Greedy shrinking: keep a smaller case while the disagreement persists."""
    fn = getattr(plugin, "shrink", None)
    if not fn:
        return item
    rounds = 0
    while rounds < 25:
        rounds += 1
        cands = list(fn(item[0]))[:40]
        # all profiles of a candidate are evaluated; keep the profile of the original failure if possible
        nxt = failing_after(ctx, plugin, cands, which, "shr%d" % rounds)
        if nxt is None:
            break
        item = nxt
    return item


def write_replay(ctx, plugin, kind, name, payload):
    os.makedirs(os.path.join(ROOT, "replays"), exist_ok=True)
    path = os.path.join(ROOT, "replays", "%s-%s.json" % (plugin.ID, name))
    payload = dict(payload, property=plugin.ID, kind=kind, seed=ctx.seed, tier=ctx.tier,
                   replay_cmd="./bin/check %s --replay %s" % (plugin.ID, os.path.relpath(path, ROOT)))
    json.dump(payload, open(path, "w"), indent=1, default=str)
    return os.path.relpath(path, ROOT)


def load_known():
    known, fixed = [], []
    p = os.path.join(ROOT, "known_findings.txt")
    if os.path.exists(p):
        for line in open(p):
            line = line.strip()
            if line.startswith("known:"):
                m = re.match(r"known:\s+property=(\S+)\s+id=(\S+)\s+(.*)", line)
                if m:
                    known.append((m.group(1), m.group(2), m.group(3)))
            elif line.startswith("fixed:"):
                fixed.append(line)
    return known, fixed


# ----------------------------------------------------------------------------- source fingerprints
def anchored_files(pid):
    """repository files the property is anchored in (properties.jsonl), plus the plugin's own SOURCES"""
    for line in open(os.path.join(ROOT, "properties.jsonl")):
        p = json.loads(line)
        if p["id"] == pid:
            return list(p.get("anchors", {}).get("files", []))
    return []


def file_sha(path):
    try:
        return hashlib.sha256(open(path, "rb").read()).hexdigest()
    except OSError:
        return "missing"


def source_fingerprint(ctx, plugin):
    """Compare the anchored source files of ctx.repo with the fingerprints recorded (checks/source_pins.json)
    when the model was last reviewed against the code.  A difference is NOT an alarm (a harmless rewrite
    changes the text too): it only makes the run spend more on the correspondence (see run_check)."""
    files = sorted(set(anchored_files(plugin.ID) + list(getattr(plugin, "SOURCES", []))))
    try:
        pins = json.load(open(os.path.join(ROOT, "checks", "source_pins.json"))).get(plugin.ID, {})
    except OSError:
        pins = {}
    changed = [f for f in files if f.endswith(".rs") and pins.get(f) != file_sha(os.path.join(ctx.repo, f))]
    return files, changed


def spread(xs, n):
    """n elements of xs spread evenly over the whole list (generators emit category after category)"""
    if len(xs) <= n:
        return xs
    step = len(xs) / float(n)
    return [xs[int(i * step)] for i in range(n)]


# ----------------------------------------------------------------------------- main flow
def report_item(plugin, it):
    c, profile, obs, term = it
    return {"case": c, "profile": profile, "impl_observation": obs, "coq_term": term}


def main(argv):
    import argparse
    ap = argparse.ArgumentParser()
    ap.add_argument("pid")
    ap.add_argument("--tier", default=os.environ.get("VERIF_TIER", "quick"), choices=["quick", "thorough"])
    ap.add_argument("--seed", type=int, default=int(os.environ.get("VERIF_SEED", "1")))
    ap.add_argument("--replay")
    a = ap.parse_args(argv)
    pid = a.pid.upper()
    plugin = load_plugin(pid)
    ctx = Ctx(pid, a.tier, a.seed)
    try:
        rc = run_check(ctx, plugin, a.replay)
    except Exception as e:
        # an internal error (typically: an observation the plugin cannot interpret while shrinking or searching) is
        # never counted as success: the correspondence could not be established
        import traceback
        path = write_replay(ctx, plugin, "broken-correspondence", "driver-error",
                            {"what": "the check could not be completed", "log": traceback.format_exc()[-4000:],
                             "obligation": "correspondence batch lemmas"})
        ctx.say("VIOLATION property=%s replay=%s no-failing-input-found" % (pid, path))
        rc = 1
    finally:
        if not os.environ.get("VERIF_KEEP_WORK"):
            ctx.cleanup()
    return rc


def run_check(ctx, plugin, replay):
    pid = plugin.ID
    known, _fixed = load_known()
    known_here = {k: txt for (p, k, txt) in known if p == pid}
    ctx.say("[%s] tier=%s seed=%d repo=%s" % (pid, ctx.tier, ctx.seed, ctx.repo))

    # 1. proof gate
    gate = proof_gate(ctx, plugin)
    n_thm = len(plugin.THEOREMS)
    thm_ok = sum(1 for r in gate["theorems"].values() if r["ok"])
    axioms = sorted({a for r in gate["theorems"].values() for a in r["axioms"]})
    gate_broken = (not gate["make_ok"]) or gate["forbidden"] or gate["bad_axioms"] or gate["broken"]
    ctx.say("[%s] proof gate: make=%s theorems %d/%d axioms=%s%s" % (
        pid, "ok" if gate["make_ok"] else "FAILED", thm_ok, n_thm, axioms or "none",
        " forbidden=%s" % gate["forbidden"] if gate["forbidden"] else ""))

    # 2. build the implementation side
    for profile in plugin.PROFILES:
        ok, out, binp = build_harness(ctx, plugin, profile)
        if not ok:
            path = write_replay(ctx, plugin, "broken-correspondence", "harness-build",
                                {"what": "the executor no longer builds against the repository (%s profile); the "
                                         "correspondence between model and implementation cannot be established" % profile,
                                 "obligation": "correspondence batch lemmas (cannot be stated)", "log": out[-4000:]})
            ctx.say("VIOLATION property=%s replay=%s no-failing-input-found" % (pid, path))
            write_evidence(ctx, plugin, gate, axioms, [], 0, 0, 1, extra={"harness_build": "failed"})
            return 1
        ctx.bins[profile] = binp

    if hasattr(plugin, "prepare"):
        plugin.prepare(ctx)

    # 2b. has the anchored source text changed since the model was reviewed against it?
    src_files, src_changed = source_fingerprint(ctx, plugin)
    ctx.src_files, ctx.src_changed = src_files, src_changed
    if src_changed:
        ctx.say("[%s] anchored source differs from the reviewed fingerprint (%s): enlarged correspondence" % (pid, ", ".join(src_changed)))

    # 3. cases: corpus first, then generated
    rng = Rng(ctx.seed).fork(pid)
    if replay:
        rp = json.load(open(os.path.join(ROOT, replay) if not os.path.isabs(replay) else replay))
        if "case" not in rp:
            ctx.say("[%s] replay names a broken obligation (%s); re-running the whole check" % (pid, rp.get("obligation")))
            cases = corpus_cases(plugin) + plugin.generate(rng, ctx.tier)
        else:
            cases = [rp["case"]]
    else:
        gen = plugin.generate(rng, ctx.tier)
        cases = corpus_cases(plugin) + gen
        if src_changed and ctx.tier == "quick":
            # the code under the model was edited: add a spread sample of the thorough-tier generator (other seed)
            more = plugin.generate(Rng(ctx.seed + 104729).fork(pid), "thorough")
            cases += spread(more, getattr(plugin, "ESCALATE_MAX", 2 * len(gen)))
    t_gen = time.time()
    try:
        items = evaluate(ctx, plugin, cases)
    except Exception as e:      # executor crash (RuntimeError) or an observation line the plugin cannot parse
        import traceback
        path = write_replay(ctx, plugin, "broken-correspondence", "executor-crash",
                            {"what": "the executor crashed outside a guarded operation, or printed an observation that does "
                                     "not have the agreed format", "log": (traceback.format_exc() + "\n" + str(e))[-4000:],
                             "obligation": "correspondence batch lemmas"})
        ctx.say("VIOLATION property=%s replay=%s no-failing-input-found" % (pid, path))
        write_evidence(ctx, plugin, gate, axioms, [], 0, 0, 1)
        return 1
    terms = [it[3] for it in items]
    shard = getattr(plugin, "SHARD", 1500)
    # identical case terms (typically: the release build returned what the debug build returned) are proved once
    uniq = list(dict.fromkeys(terms))
    upos = {t: k for k, t in enumerate(uniq)}
    n_lem, n_lem_ok, bad_model_u, bad_spec_u, errors = check_batches(ctx, plugin, uniq, shard)
    bm_u, bs_u = set(bad_model_u), set(bad_spec_u)
    bad_model = [i for i, t in enumerate(terms) if upos[t] in bm_u]
    bad_spec = [i for i, t in enumerate(terms) if upos[t] in bs_u]
    ctx.say("[%s] correspondence: %d cases x %d profile(s) = %d distinct case terms, %d/%d batch lemmas hold (%.1fs)" % (
        pid, len(cases), len(plugin.PROFILES), len(uniq), n_lem_ok, n_lem, time.time() - t_gen))
    if errors:
        path = write_replay(ctx, plugin, "broken-correspondence", "batch-error",
                            {"what": "a batch file does not compile", "log": errors[0][-4000:],
                             "obligation": "correspondence batch lemmas"})
        ctx.say("VIOLATION property=%s replay=%s no-failing-input-found" % (pid, path))
        write_evidence(ctx, plugin, gate, axioms, items, n_lem, n_lem_ok, 1)
        return 1

    # 4. interpret failures
    n_viol = 0
    kf = getattr(plugin, "known_finding", None)

    def is_known(it):
        if not kf:
            return None
        k = kf(it[0], it[2], it[1])
        return k if (k and k in known_here) else None

    spec_fail = [items[i] for i in bad_spec]
    fresh_spec = [it for it in spec_fail if not is_known(it)]
    for k in sorted({is_known(it) for it in spec_fail if is_known(it)}):
        ctx.say("KNOWN-FINDING: property=%s %s" % (pid, known_here[k]))
        ctx.known.append(k)
    if fresh_spec:
        it = shrink(ctx, plugin, fresh_spec[0], "SPEC")
        path = write_replay(ctx, plugin, "counterexample", "spec-%s" % short_hash(it[3]),
                            dict(report_item(plugin, it),
                                 what="the implementation's observable result violates the specification on this case",
                                 model_says=explain(ctx, plugin, it[3], "s"),
                                 other_failing_cases=len(fresh_spec) - 1))
        ctx.say("VIOLATION property=%s replay=%s" % (pid, path))
        n_viol += 1
    model_only = [items[i] for i in bad_model if i not in set(bad_spec)]
    if model_only and not fresh_spec:
        # implementation differs from the model but no sampled case violates the spec: enlarged search
        found = None
        if hasattr(plugin, "generate"):
            extra = plugin.generate(Rng(ctx.seed + 7919).fork(pid), "thorough" if ctx.tier == "quick" else "thorough")
            extra = extra[: getattr(plugin, "SEARCH_MAX", 20000)]
            try:
                xit = evaluate(ctx, plugin, extra)
                _, _, _xm, xs, xerr = check_batches(ctx, plugin, [t[3] for t in xit], shard)
                fresh = [xit[i] for i in xs if not is_known(xit[i])]
                if fresh:
                    found = shrink(ctx, plugin, fresh[0], "SPEC")
            except RuntimeError:
                pass
        if found:
            path = write_replay(ctx, plugin, "counterexample", "spec-%s" % short_hash(found[3]),
                                dict(report_item(plugin, found),
                                     what="model/implementation correspondence broke; the enlarged search found this "
                                          "case on which the implementation violates the specification",
                                     model_says=explain(ctx, plugin, found[3], "s")))
            ctx.say("VIOLATION property=%s replay=%s" % (pid, path))
        else:
            it = shrink(ctx, plugin, model_only[0], "MODEL")
            path = write_replay(ctx, plugin, "broken-correspondence", "model-%s" % short_hash(it[3]),
                                dict(report_item(plugin, it),
                                     obligation="correspondence lemma batch_model (forallb model_check cases = true)",
                                     what="the implementation no longer behaves like the verified model on this case, "
                                          "so the theorems no longer speak about the code; no case violating the "
                                          "specification itself was found",
                                     model_says=explain(ctx, plugin, it[3], "m"),
                                     other_differing_cases=len(model_only) - 1))
            ctx.say("VIOLATION property=%s replay=%s no-failing-input-found" % (pid, path))
        n_viol += 1

    # 5. a broken proof obligation with no failing input
    if gate_broken and n_viol == 0:
        what = []
        if not gate["make_ok"]:
            what.append("the Coq development of this property no longer compiles")
        if gate["broken"]:
            what.append("theorems that no longer check against their pinned statements: %s" % ", ".join(gate["broken"]))
        if gate["forbidden"]:
            what.append("forbidden constructs: %s" % "; ".join(gate["forbidden"]))
        if gate["bad_axioms"]:
            what.append("axioms outside the allow-list: %s" % "; ".join(gate["bad_axioms"]))
        path = write_replay(ctx, plugin, "broken-obligation", "proof-gate",
                            {"obligation": "; ".join(what), "make_log": gate["make_log"],
                             "errors": {n: r["error"] for n, r in gate["theorems"].items() if not r["ok"]}})
        ctx.say("VIOLATION property=%s replay=%s no-failing-input-found" % (pid, path))
        n_viol += 1

    # 6. property-specific extra exploration (implementation-level searches; thorough tier mostly)
    extra_cov = {}
    if hasattr(plugin, "extra"):
        ev = plugin.extra(ctx, known_here)
        extra_cov = ev.get("coverage", {})
        for k in ev.get("known", []):
            if k in known_here and k not in ctx.known:
                ctx.say("KNOWN-FINDING: property=%s %s" % (pid, known_here[k]))
                ctx.known.append(k)
        for v in ev.get("violations", []):
            path = write_replay(ctx, plugin, v.get("kind", "counterexample"), v["name"], v["payload"])
            ctx.say("VIOLATION property=%s replay=%s%s" % (pid, path, " no-failing-input-found" if v.get("nofail") else ""))
            n_viol += 1

    if not replay:
        write_evidence(ctx, plugin, gate, axioms, items, n_lem, n_lem_ok, n_viol, extra=extra_cov)
    ctx.say("[%s] %s (%.1fs)" % (pid, "OK" if n_viol == 0 else "%d violation(s)" % n_viol, time.time() - ctx.t0))
    return 1 if n_viol else 0


def short_hash(s):
    return hashlib.sha256(s.encode()).hexdigest()[:10]


def corpus_cases(plugin):
    d = os.path.join(ROOT, "corpus", plugin.ID)
    cases = []
    if os.path.isdir(d):
        for f in sorted(os.listdir(d)):
            if f.endswith(".json"):
                cases.append(json.load(open(os.path.join(d, f))))
    return cases


def write_evidence(ctx, plugin, gate, axioms, items, n_lem, n_lem_ok, n_viol, extra=None):
    thm_ok = sum(1 for r in gate["theorems"].values() if r["ok"])
    distinct, nontriv = set(), 0
    hist = {}
    for it in items:
        key = short_hash(it[3])
        if key in distinct:
            continue
        distinct.add(key)
        if plugin.nontrivial(it[0], it[2]):
            nontriv += 1
        tag = plugin.classify(it[0], it[2]) if hasattr(plugin, "classify") else "case"
        hist[tag] = hist.get(tag, 0) + 1
    samples = []
    step = max(1, len(items) // 5)
    for it in items[::step][:6]:
        samples.append({"input": it[0], "profile": it[1], "implementation_returned": it[2], "coq_case": it[3][:600]})
    samples += [{"theorem": n, "statement": s} for n, s in plugin.THEOREMS[:40]]
    cov = {
        "obligations": len(plugin.THEOREMS) + n_lem,
        "discharged": thm_ok + n_lem_ok,
        "checker_cmd": "make -f Makefile.coq (coqc 8.16.1, full .vo) on coq/theories/%s + audit file re-checking %d pinned "
                       "statements with Print Assumptions + coqc on %d correspondence batch lemmas (vm_compute)%s"
                       % (plugin.COQ_DIR, len(plugin.THEOREMS), n_lem,
                          "; coqchk -o on Properties.vo: %s" % gate.get("coqchk_ok") if "coqchk_ok" in gate else ""),
        "trusted_base": ["Coq 8.16.1 kernel and its vm_compute machine (no native_compute, no extraction)"]
                        + [("kernel primitive (not an axiom): " if (a.startswith("PrimFloat.") or a.startswith("PrimInt63.")) else "axiom: ") + a
                           for a in axioms] + list(getattr(plugin, "TRUSTED", [])),
        "theorems_checked": {n: ("closed under the global context" if (r["ok"] and not r["axioms"]) else
                                 ("axioms: " + ", ".join(r["axioms"]) if r["ok"] else "BROKEN"))
                             for n, r in gate["theorems"].items()},
        "evaluations": len(items),
        "distinct_nontrivial": nontriv,
        "distinct": len(distinct),
        "rule": plugin.RULE,
        "input_histogram": hist,
        "samples": samples,
        "exhaustive": False,
        "known_findings_reported": ctx.known,
        "anchored_sources": getattr(ctx, "src_files", []),
        "anchored_sources_changed_since_review": getattr(ctx, "src_changed", []),
    }
    if extra:
        cov.update(extra)
    ev = {"property_id": plugin.ID, "tier": ctx.tier, "seed": ctx.seed, "level": "proof", "coverage": cov,
          "assumptions": list(getattr(plugin, "ASSUMPTIONS", [])), "wall_s": round(time.time() - ctx.t0, 2),
          "violations": n_viol}
    # evidence/ describes /repo only; a run against a scratch worktree (RLIB_REPO, my own mutation experiments)
    # writes its evidence next to the other scratch output
    edir = os.path.join(ROOT, "evidence") if ctx.repo == "/repo" else os.path.join(ROOT, ".work", "evidence-scratch")
    os.makedirs(edir, exist_ok=True)
    tmp = os.path.join(edir, plugin.ID + ".json.tmp")
    json.dump(ev, open(tmp, "w"), indent=1, default=str)
    os.replace(tmp, os.path.join(edir, plugin.ID + ".json"))
