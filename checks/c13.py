"""C13 — linear sieve tables (rlib/sieve)."""
ID = "C13"
CRATE = "c13"
COQ_DIR = "C13"
PROFILES = ["debug", "release"]
CORR_IMPORT = "From RlibV Require Import C13.Model C13.Corr.\nOpen Scope Z_scope."
AUDIT_IMPORT = "From mathcomp Require Import all_ssreflect.\nFrom RlibV Require Import C13.Model C13.Ghost C13.Corr C13.Properties."
EXPLAIN = "explain"
AXIOM_ALLOW = []
THEOREMS = [
    ("c13_invariant",
     "forall n k : nat, k.+1 < n -> let s := sieve_upto n k in let i := k.+1 in "
     "[/\\ size (mnp s) = n /\\ size (isp s) = n, "
     "forall m, m < n -> m <= i -> nth 0 (mnp s) m = if m < 2 then 0 else pdiv m, "
     "forall m, m < n -> i < m -> nth 0 (mnp s) m = if ~~ prime m && (m %/ pdiv m <= i) then pdiv m else 0, "
     "prs s = [seq p <- iota 0 i.+1 | prime p] & "
     "forall m, m < n -> nth false (isp s) m = (m <= i) && prime m]"),
    ("c13_min_prime", "forall N n : nat, 1 < n <= N -> min_prime (sieve N) n = pdiv n"),
    ("c13_is_prime", "forall N n : nat, n <= N -> is_prime (sieve N) n = prime n"),
    ("c13_primes", "forall N : nat, primes_of (sieve N) = [seq p <- iota 0 N.+1 | prime p]"),
    ("c13_sizes", "forall N : nat, size (mnp (sieve N)) = N.+1 /\\ size (isp (sieve N)) = N.+1"),
    ("c13_break_is_takewhile",
     "forall (n i : nat) (ps m : seq nat), 0 < i -> 1 \\notin ps -> inner n i ps m = inner_tw n i ps m"),
    ("c13_factorize", "forall N n : nat, 0 < n <= N -> factorize (sieve N) n = Some (prime_decomp n)"),
    ("c13_factorize_spec",
     "forall N n : nat, 0 < n <= N -> exists2 f, factorize (sieve N) n = Some f & "
     "[/\\ n = \\prod_(pc <- f) pc.1 ^ pc.2, all (fun pc => prime pc.1 && (0 < pc.2)) f & sorted ltn (unzip1 f)]"),
    ("c13_factorize_one", "forall N : nat, factorize (sieve N) 1 = Some [::]"),
    ("c13_all_limits_upto_K",
     "forall N : nat, N <= 600 -> "
     "[/\\ forall n, 1 < n <= N -> min_prime (sieve N) n = pdiv n, "
     "forall n, n <= N -> is_prime (sieve N) n = prime n, "
     "primes_of (sieve N) = [seq p <- iota 0 N.+1 | prime p] & "
     "forall n, 0 < n <= N -> factorize (sieve N) n = Some (prime_decomp n)]"),
    ("c13_written_once",
     "forall N : nat, (sieve_g N).1 = sieve N /\\ forall m, nth 0 (sieve_g N).2 m = (1 < m <= N)"),
    ("c13_written_once_upto",
     "forall n k : nat, k.+1 < n -> (sieve_upto_g n k).1 = sieve_upto n k /\\ "
     "forall x, nth 0 (sieve_upto_g n k).2 x = (nth 0 (mnp (sieve_upto n k)) x != 0)"),
    ("c13_model_check_spec_check", "forall c : case, model_check c = true -> spec_check c = true"),
]
SHARD = 160
SEARCH_MAX = 1000
K_QUICK = 400
K_THOROUGH = 800
RULE = ("every limit N = 0..%d (quick) / 0..%d plus sampled limits up to 2000 (thorough), plus structured limits above that "
        "bound (2^k-1, 2^k, 2^k+1, p^2-1, p^2, p^2+1, 2p, 2p+1, multiples of 128/256 and their neighbours; up to 1025 quick / "
        "4096 thorough): the full tables (min_prime(m), is_prime(m) for every m <= N, primes()) and factorize(m) for every "
        "m <= N (m = 0 included: both sides panic).  Each limit is observed four times per build profile (debug and release): "
        "`tab`/`fact` = plain ascending reads plus in-executor cross-checks (same Sieve re-read descending/interleaved, "
        "primes() called again, next() twice more after None, every provided Iterator method against the next() walk); "
        "`tabr`/`factr` = the SAME observation collected by a seeded random history on one Sieve (random/repeated/descending "
        "reads, primes() at random moments, up to three factorize iterators alive and advanced alternately, iterators dropped "
        "half way, for/by_ref/take forms, optionally after a larger or smaller Sieve was built in the same process) and fed to "
        "the same Coq case, so model_check/spec_check decide it; an internal disagreement is the case CIncoherent, which fails "
        "both checks.  A zig-zag tail repeats limits in descending order inside the same executor process.  "
        "non-trivial = N >= 4 (at least one composite cell is written).  "
        "Beside the Coq cases, an implementation-only search per build profile (one executor process, largest limit first, "
        "then shuffled) compares Sieve::new(N) cell by cell (min_prime, is_prime, primes(), factorize(m) for EVERY m <= N, so "
        "also for the primes at the top of the table) with an independent segmented sieve: structured and random limits, "
        "every limit of an interval, and limits at representation thresholds - one below / at the k-th prime and at the "
        "next prime for k = 2^15, 2^16 (821640, 821641, 821647: a 16-bit position in the prime list), 10^5, 2^17 (quick) and "
        "up to 2^20 (thorough), the first prime above 2^20 (quick) / 2^15..2^24 (thorough), 1000003, 3*821647 = 2464941, "
        "the first prime gap >= 128; largest limit 2 500 000 (quick) / 16 777 259 (thorough) on both profiles, and further limits "
        "on the release executor only (the two run side by side; integer casts wrap alike in both): 16 777 259 = first prime "
        "above 2^24, past the 2^20-th prime (quick) / 2^25, 2^25 + 1, the first prime above 2^25, the 2^21-th prime and its "
        "successor, 67 108 879 = first prime above 2^26 (thorough).  The number of primes found is "
        "compared with published pi(N) wherever N is a power of two or ten or a k-th prime" % (K_QUICK, K_THOROUGH))
TRUSTED = ["executor harness/crates/c13 (builds Sieve::new(N), reads the tables through the public accessors; its internal "
           "cross-checks compare repeated reads / Iterator adaptors with the first read and print X on a difference)",
           "checks/c13.py (case generator, Coq term printer)"]
ASSUMPTIONS = ["table entries are nat in the model: the i32/usize casts of the code are exact for limits < 2^31 "
               "(the executor goes up to 2.5e6 (debug) / 1.68e7 (release) on every quick run and 1.68e7 (debug) / "
               "6.7e7 (release) on a thorough run; a defect that needs a larger table - a prime value that needs 28 bits, more "
               "than 3.9 million primes, an i32/u32 product near 2^31 - is outside what is run)"]


def harness_line(c):
    if c["k"] in ("tabr", "factr"):
        return "%s %d %d" % (c["k"], c["n"], c.get("seed", 1))
    return "%s %d" % (c["k"], c["n"])


def zl(toks):
    return "[" + ";".join(toks) + "]"


def coq_term(c, obs, profile):
    n = c["n"]
    if obs == "P" or not obs:
        return "(CPanic %d)" % n
    if obs[0] == "X":
        return "(CIncoherent %d)" % n
    if obs[0] == "T":
        a, b, p = obs[1:].split("|")
        return '(CTab %d %s "%s" %s)' % (n, zl(a.split()), b.strip(), zl(p.split()))
    if obs[0] != "F":
        raise ValueError("observation line has not the agreed format: %r" % obs[:200])
    return "(CFact %d %s)" % (n, zl(obs[1:].split()))


def nontrivial(c, obs):
    return c["n"] >= 4


def classify(c, obs):
    n = c["n"]
    size = "N<4" if n < 4 else ("N<100" if n < 100 else ("N<=400" if n <= 400 else "N>400"))
    return "%s/%s%s" % (c["k"], size, "/panic" if obs == "P" else ("/incoherent" if obs[:1] == "X" else ""))


def is_prime_py(x):
    if x < 2:
        return False
    d = 2
    while d * d <= x:
        if x % d == 0:
            return False
        d += 1
    return True


def next_prime(x):
    while not is_prime_py(x):
        x += 1
    return x


def shapes(ks=(), ps=(), twops=(), blocks=()):
    """structured limits: around powers of two, around squares of primes, twice a prime, block multiples"""
    out = []
    for k in ks:
        out += [2 ** k - 1, 2 ** k, 2 ** k + 1]
    for p in ps:
        p = next_prime(p)
        out += [p * p - 1, p * p, p * p + 1]
    for p in twops:
        p = next_prime(p)
        out += [2 * p, 2 * p + 1]
    for b in blocks:
        out += [b - 1, b, b + 1]
    seen, res = set(), []
    for n in out:
        if n not in seen:
            seen.add(n)
            res.append(n)
    return res


# limits above the every-N bound that go through the Coq correspondence (the model runs them in a few seconds each)
COQ_SHAPES_QUICK = shapes(ks=(10,), ps=(23,), twops=(211,), blocks=()) + [512]
COQ_SHAPES_THOROUGH = (shapes(ks=(9, 10, 11), ps=(23, 29, 31, 37, 41, 47), twops=(401, 503, 521, 1009, 1019),
                              blocks=(896, 1280, 1536))
                       + [832, 1152, 1792, 2304, 2560, 4096])


def four(rng, n, seeds=1):
    cs = [{"k": "tab", "n": n}, {"k": "fact", "n": n}]
    for _ in range(seeds):
        cs.append({"k": "tabr", "n": n, "seed": rng.below(2 ** 32)})
        cs.append({"k": "factr", "n": n, "seed": rng.below(2 ** 32)})
    return cs


def generate(rng, tier):
    cases = []
    K = K_QUICK if tier == "quick" else K_THOROUGH
    # the structured limits above K first (their Coq terms are the expensive ones: they share a batch file with the
    # cheapest small limits)
    for n in (COQ_SHAPES_QUICK if tier == "quick" else COQ_SHAPES_THOROUGH):
        if n > K:
            cases += four(rng, n)
    for n in range(K + 1):
        cases += four(rng, n, seeds=(3 if n <= 64 or tier == "thorough" else 1))
    if tier == "thorough":
        for _ in range(60):
            cases += four(rng, rng.range(K + 1, 2000))
    # the same executor process now sees smaller limits after larger ones (identical Coq terms are proved once)
    tail = [("tab", K), ("tab", 7), ("fact", 7), ("tabr", 7), ("tab", K - 1), ("tab", 0), ("fact", 0), ("tab", 64), ("tab", 63),
            ("fact", K), ("fact", 30), ("factr", 30), ("tab", 128), ("fact", 127), ("tabr", 1), ("tab", 2), ("factr", 0)]
    for n in range(K, -1, -37):
        tail += [("tab", n), ("fact", n), ("tabr", n), ("factr", n)]
    for k, n in tail:
        c = {"k": k, "n": n}
        if k in ("tabr", "factr"):
            c["seed"] = rng.below(2 ** 32)
        cases.append(c)
    return cases


def shrink(c):
    n = c["n"]
    out = []
    for w in (0, n // 2, n - 8, n - 1):
        if 0 <= w < n:
            out.append(dict(c, n=w))
    # the plain form of a random-history case
    if c["k"] == "tabr":
        out.append({"k": "tab", "n": n})
    if c["k"] == "factr":
        out.append({"k": "fact", "n": n})
    return out


# Representation thresholds (the class of seed C13j: a compact encoding of a table that is exact until some DERIVED
# quantity outgrows its field).  (k, the k-th prime, the prime after it): at the limit p_k the prime list reaches k
# entries, so a position stored in 15/16/17... bits, a fixed capacity of 10^5 / 2^17 entries, ... first goes wrong there.
KTH_PRIME = [(2 ** 15, 386093, 386117), (2 ** 16, 821641, 821647), (10 ** 5, 1299709, 1299721),
             (2 ** 17, 1742537, 1742539), (2 * 10 ** 5, 2750159, 2750161), (2 ** 18, 3681131, 3681149),
             (2 ** 19, 7754077, 7754081), (10 ** 6, 15485863, 15485867), (2 ** 20, 16290047, 16290073),
             (2 ** 21, 34136029, 34136059)]
# first prime >= 2^b: a prime VALUE stored in b bits first wraps there (2^b + 1 is not prime for b = 17, 18, 20, ...)
PRIME_ABOVE_POW2 = {15: 32771, 16: 65537, 17: 131101, 18: 262147, 20: 1048583, 22: 4194319, 23: 8388617, 24: 16777259,
                    25: 33554467, 26: 67108879}
# record gaps between consecutive primes (p, next prime): the first gap >= 128 is 1357201 -> 1357333 (prime list kept
# as byte differences), the first >= 64 is 31397 -> 31469
GAP_128 = (1357201, 1357333)
# published values of pi(N) (OEIS A007053 for powers of two, A006880 for powers of ten): the executor's answer
# `ok <#primes>` is pi(N) of its reference sieve, so these pin the trusted reference itself
PI_KNOWN = {2 ** 9: 97, 2 ** 10: 172, 2 ** 11: 309, 2 ** 12: 564, 2 ** 13: 1028, 2 ** 14: 1900, 2 ** 15: 3512,
            2 ** 16: 6542, 2 ** 17: 12251, 2 ** 18: 23000, 2 ** 19: 43390, 2 ** 20: 82025, 2 ** 21: 155611,
            2 ** 22: 295947, 2 ** 23: 564163, 2 ** 24: 1077871, 2 ** 25: 2063689, 2 ** 26: 3957809,
            10 ** 5: 9592, 10 ** 6: 78498, 10 ** 7: 664579, 2500000: 183072}
for _k, _p, _q in KTH_PRIME:
    PI_KNOWN.update({_p - 1: _k - 1, _p: _k, _q - 1: _k, _q: _k + 1})
for _b, _p in PRIME_ABOVE_POW2.items():      # no prime in [2^b, p)
    PI_KNOWN.update({_p - 1: PI_KNOWN[2 ** _b], _p: PI_KNOWN[2 ** _b] + 1})


def threshold_limits(top):
    """limits at the representation thresholds that lie below `top`: one below / at the k-th prime and at the prime
    after it, the first prime above a power of two (and its neighbours), both ends of the first prime gap >= 128;
    above 4e6 (where one limit costs seconds) only the threshold itself and the prime after it"""
    out = []
    for k, p, q in KTH_PRIME:
        out += [p - 1, p, q] if p < 4000000 else [p, q]
    for b, p in PRIME_ABOVE_POW2.items():
        out += [p - 1, p, p + 1] if p < 4000000 else [p]
    out += [GAP_128[0], GAP_128[1] - 1, GAP_128[1]]
    return [n for n in out if n <= top]


def big_limits(tier, rng):
    """limits of the implementation-only search: the largest first, then the others in a shuffled order, so that
    inside the one executor process smaller limits follow larger ones and vice versa"""
    if tier == "quick":
        ls = shapes(ks=range(9, 19), ps=(23, 37, 101, 317), twops=(23, 37, 101, 317, 1009, 10007, 65537, 99991),
                    blocks=(64 * 157, 128 * 79, 256 * 41, 1024 * 11, 32768 * 3, 65536 * 3))
        ls += [200000, 199999]
        ls += [rng.range(2001, 200000) for _ in range(40)]
        # seed C13j (least prime stored as a 16-bit position in the prime list): min_prime/factorize go wrong at the
        # primes >= 821641 = p_65536 (limits >= 821641), primes()/is_prime from 3 * 821647 = 2464941 on
        ls += [821640, 821641, 821647, 1000003, 2464941, 2500000]
        # its neighbours: 2^15 / 10^5 / 2^17 entries in the prime list, 2^20 cells and the first prime above 2^20.
        # (Every limit is compared cell by cell, so the top limit 2 500 000 also covers every threshold below it:
        # 180 000 primes, prime values up to 21 bits, the first prime gap >= 128 at 1357201 -> 1357333, 2^21 cells.)
        ls += [386093, 386117, 1299709, 1742539, 2 ** 20, PRIME_ABOVE_POW2[20]]
    else:
        ls = shapes(ks=range(9, 25), ps=(23, 37, 101, 317, 1009, 3163),
                    twops=(23, 37, 101, 317, 1009, 10007, 65537, 99991, 1000003, 4999999),
                    blocks=(64 * 157, 128 * 79, 256 * 41, 1024 * 11, 32768 * 3, 65536 * 3, 32768 * 31, 65536 * 17,
                            128 * 78125, 256 * 39063))
        ls += [1000000, 999983, 1000003, 2464940, 2464941, 3 * 821647 + 1, 2500000, 10000000]
        ls += threshold_limits(2 ** 24 + 44)          # up to 16777259; the thresholds above: RELEASE_ONLY
        ls += [rng.range(2001, 200000) for _ in range(200)]
        ls += [rng.range(200001, 5000000) for _ in range(10)]
    ls = list(dict.fromkeys(ls))
    top = max(ls)
    rest = [n for n in ls if n != top]
    rng.shuffle(rest)
    return [top] + rest


# Limits only the release executor gets (first in its process).  Integer casts wrap in the same way in both build
# profiles, and the two executors run side by side, so the optimised build can go much further at no cost in wall time:
# 16777259 = first prime >= 2^24 (also beyond the 2^20-th prime 16290047), 67108879 = first prime >= 2^26 (beyond the
# 2^21-th prime 34136029); on the thorough tier also the thresholds between 2^24 and 2^26.
RELEASE_ONLY = {"quick": [16777259], "thorough": [67108879, 34136029, 2 ** 25 + 1, 34136059, 33554467, 2 ** 25]}
SWEEP = {"quick": (401, 6000), "thorough": (401, 20000)}


def extra(ctx, known):
    """implementation-only search at large limits against the independent sieve inside the executor: every build
    profile (the profiles run side by side), structured + threshold + random limits in ONE process per profile, and
    every limit of a whole interval (sweep); pi(N) of the reference against published values"""
    import subprocess, time, threading
    from _driver import Rng
    rng = Rng(ctx.seed).fork("C13-big")
    limits = big_limits(ctx.tier, rng)
    lo, hi = SWEEP[ctx.tier]
    common = ["big %d" % n for n in limits] + ["sweep %d %d" % (lo, hi)]
    lines_of = {prof: (["big %d" % n for n in RELEASE_ONLY[ctx.tier]] if prof == "release" else []) + common
                for prof in PROFILES}
    kinds = {}
    for c in generate(Rng(ctx.seed).fork(ID), ctx.tier):
        kinds[c["k"]] = kinds.get(c["k"], 0) + 1
    cov = {"generated_cases_by_executor_op_per_profile": kinds,
           "large_limit_search": {"limits": limits, "largest_limit": max(limits),
                                  "release_only_limits": RELEASE_ONLY[ctx.tier], "sweep_every_limit": [lo, hi],
                                  "limits_with_published_pi": sum(1 for n in limits if n in PI_KNOWN), "profiles": {}}}
    viol = []
    res = {}

    def run_profile(prof):
        t = time.time()
        lines = lines_of[prof]
        try:
            p = subprocess.run([ctx.bins[prof]], input="".join(l + "\n" for l in lines), stdout=subprocess.PIPE,
                               stderr=subprocess.PIPE, text=True, timeout=3000)
            r = (p.stdout.split("\n"), p.stderr, p.returncode)
        except subprocess.TimeoutExpired as e:
            r = ([], "timeout: %s" % e, -1)
        except Exception as e:     # never lose a profile silently
            r = ([], "could not run the executor: %r" % (e,), -2)
        res[prof] = r + (round(time.time() - t, 2),)

    threads = [threading.Thread(target=run_profile, args=(prof,)) for prof in PROFILES]
    for th in threads:
        th.start()
    for th in threads:
        th.join()
    for prof in PROFILES:
        outs, err, rc, secs = res[prof]
        lines = lines_of[prof]
        if outs and outs[-1] == "":
            outs.pop()
        bad = [(l, o) for l, o in zip(lines, outs) if not o.startswith("ok")]
        cells = sum(int(o.split()[2]) for o in outs if o.startswith("ok"))
        # `ok <pi(N)> <cells>`: the number of primes <= N on which implementation and reference agree
        pibad = [(l, o, PI_KNOWN[int(l.split()[1])]) for l, o in zip(lines, outs)
                 if l.startswith("big ") and o.startswith("ok") and int(l.split()[1]) in PI_KNOWN
                 and int(o.split()[1]) != PI_KNOWN[int(l.split()[1])]]
        cov["large_limit_search"]["profiles"][prof] = {
            "lines_ok": len(outs) - len(bad), "lines": len(lines), "cells_checked": cells, "seconds": secs,
            "first_failure": ("%s -> %s" % bad[0]) if bad else None,
            "pi_disagreements": len(pibad)}
        where = "harness/target/%s/c13" % prof
        if bad:
            # headline = the smallest failing limit (the lines were sent largest first)
            l, o = min(bad, key=lambda b: (not b[0].startswith("big "), int(b[0].split()[1])))
            viol.append({"name": "big-%s-%s" % (prof, l.replace(" ", "-")), "kind": "counterexample",
                         "payload": {"what": "Sieve::new(N) (%s build) differs from the independent segmented sieve of the "
                                             "executor, or an accessor panicked" % prof,
                                     "query": l, "executor_says": o, "other_failing_queries": len(bad) - 1,
                                     "all_failing_queries": sorted((b[0] for b in bad), key=lambda q: int(q.split()[1]))[:40],
                                     "stderr": err[-500:], "reproduce": "echo '%s' | %s" % (l, where)}})
        elif rc != 0 or len(outs) != len(lines):
            viol.append({"name": "big-%s-crash" % prof, "kind": "broken-correspondence", "nofail": True,
                         "payload": {"what": "the executor (%s build) did not finish the large-limit search: %d answers for "
                                             "%d queries, exit code %s" % (prof, len(outs), len(lines), rc),
                                     "first_unanswered": lines[len(outs)] if len(outs) < len(lines) else None,
                                     "stderr": err[-1500:], "obligation": "large-limit search"}})
        if pibad:
            l, o, want = pibad[0]
            viol.append({"name": "big-%s-pi-%s" % (prof, l.split()[1]), "kind": "counterexample",
                         "payload": {"what": "Sieve::new(N) (%s build) and the executor's reference sieve agree on a prime "
                                             "list whose length is not the published pi(N)" % prof,
                                     "query": l, "executor_says": o, "published_pi": want,
                                     "other_disagreements": len(pibad) - 1, "reproduce": "echo '%s' | %s" % (l, where)}})
    return {"coverage": cov, "violations": viol, "known": []}


MANIFEST = {
    "text": "Coq (mathcomp ssreflect, no axioms, 13 pinned) theorems about an executable model of Sieve::new with the "
            "literal early break and of the factorisation iterator, for EVERY limit N: c13_invariant (state after each "
            "outer step: cells <= i hold pdiv, a cell above i holds pdiv iff it is composite with cofactor <= i and is 0 "
            "otherwise, the prime list is the primes <= i in order), c13_min_prime (= pdiv n for 2 <= n <= N), "
            "c13_is_prime (= prime n for 0 <= n <= N), c13_primes (all primes <= N, increasing), c13_sizes, "
            "c13_break_is_takewhile (the break evaluated against mnp[i] is sound because no write of the loop touches "
            "cell i), c13_factorize / c13_factorize_spec (= prime_decomp n: strictly increasing primes with exact "
            "exponents whose product is n; no fuel exhaustion) and c13_factorize_one, c13_written_once / "
            "c13_written_once_upto (ghost counter: every cell 2..N assigned exactly once), c13_all_limits_upto_K "
            "(independent finite check by computation for every N <= 600), c13_model_check_spec_check (for every "
            "correspondence case, no side condition: tables / factorisation lists equal to the model's satisfy the "
            "model-independent trial-division specification, so model = implementation carries the specification to "
            "the implementation by proof). The model is tied to the code on every run: "
            "for every limit N up to the bound (and structured limits above it: around powers of two, prime squares, "
            "twice a prime, multiples of 128/256) the executor dumps the full tables and all factorisations, in the debug "
            "and the release build, once by plain ascending reads and once more through seeded random histories on one "
            "Sieve (repeated / descending / interleaved reads, several live iterators, Iterator adaptors, calls after "
            "exhaustion, other Sieves built before), and Coq proves model = implementation and implementation |= "
            "trial-division spec.",
    "level_note": "Trusted: Coq kernel + vm_compute; the Rust executor and the Python case printer; integers are nat "
                  "(limits < 2^31); theorems are about the model, the correspondence covers every limit up to the bound; "
                  "the comparison against an independent sieve (every limit 401..6000 quick / 401..20000 thorough, "
                  "structured and random limits, limits at representation thresholds - the k-th prime for k = 2^15, "
                  "2^16, 10^5, 2^17, ..., the first prime above 2^b, 3*821647 - up to 2 500 000 quick / 16 777 259 thorough on both "
                  "build profiles and 16 777 259 quick / 67 108 879 thorough on the release build, prime counts against published pi(N)) is an implementation-only search.",
    "technique": "Coq proof over Gallina model + vm_compute correspondence batches against the Rust crate",
}
