"""C13 — linear sieve tables (rlib/sieve)."""
ID = "C13"
CRATE = "c13"
COQ_DIR = "C13"
PROFILES = ["debug", "release"]
CORR_IMPORT = "From RlibV Require Import C13.Model C13.Corr.\nOpen Scope Z_scope."
AUDIT_IMPORT = "From mathcomp Require Import all_ssreflect.\nFrom RlibV Require Import C13.Model C13.Ghost C13.Corr C13.Properties."
EXPLAIN = "explain"
AXIOM_ALLOW = []
THEOREMS = [
    ("c13_invariant",
     "forall n k : nat, k.+1 < n -> let s := sieve_upto n k in let i := k.+1 in "
     "[/\\ size (mnp s) = n /\\ size (isp s) = n, "
     "forall m, m < n -> m <= i -> nth 0 (mnp s) m = if m < 2 then 0 else pdiv m, "
     "forall m, m < n -> i < m -> nth 0 (mnp s) m = if ~~ prime m && (m %/ pdiv m <= i) then pdiv m else 0, "
     "prs s = [seq p <- iota 0 i.+1 | prime p] & "
     "forall m, m < n -> nth false (isp s) m = (m <= i) && prime m]"),
    ("c13_min_prime", "forall N n : nat, 1 < n <= N -> min_prime (sieve N) n = pdiv n"),
    ("c13_is_prime", "forall N n : nat, n <= N -> is_prime (sieve N) n = prime n"),
    ("c13_primes", "forall N : nat, primes_of (sieve N) = [seq p <- iota 0 N.+1 | prime p]"),
    ("c13_sizes", "forall N : nat, size (mnp (sieve N)) = N.+1 /\\ size (isp (sieve N)) = N.+1"),
    ("c13_break_is_takewhile",
     "forall (n i : nat) (ps m : seq nat), 0 < i -> 1 \\notin ps -> inner n i ps m = inner_tw n i ps m"),
    ("c13_factorize", "forall N n : nat, 0 < n <= N -> factorize (sieve N) n = Some (prime_decomp n)"),
    ("c13_factorize_spec",
     "forall N n : nat, 0 < n <= N -> exists2 f, factorize (sieve N) n = Some f & "
     "[/\\ n = \\prod_(pc <- f) pc.1 ^ pc.2, all (fun pc => prime pc.1 && (0 < pc.2)) f & sorted ltn (unzip1 f)]"),
    ("c13_factorize_one", "forall N : nat, factorize (sieve N) 1 = Some [::]"),
    ("c13_all_limits_upto_K",
     "forall N : nat, N <= 600 -> "
     "[/\\ forall n, 1 < n <= N -> min_prime (sieve N) n = pdiv n, "
     "forall n, n <= N -> is_prime (sieve N) n = prime n, "
     "primes_of (sieve N) = [seq p <- iota 0 N.+1 | prime p] & "
     "forall n, 0 < n <= N -> factorize (sieve N) n = Some (prime_decomp n)]"),
    ("c13_written_once",
     "forall N : nat, (sieve_g N).1 = sieve N /\\ forall m, nth 0 (sieve_g N).2 m = (1 < m <= N)"),
    ("c13_written_once_upto",
     "forall n k : nat, k.+1 < n -> (sieve_upto_g n k).1 = sieve_upto n k /\\ "
     "forall x, nth 0 (sieve_upto_g n k).2 x = (nth 0 (mnp (sieve_upto n k)) x != 0)"),
    ("c13_model_check_spec_check", "forall c : case, model_check c = true -> spec_check c = true"),
]
SHARD = 160
SEARCH_MAX = 1000
K_QUICK = 400
K_THOROUGH = 800
RULE = ("every limit N = 0..%d (quick) / 0..%d plus sampled limits up to 2000 (thorough): the full tables "
        "(min_prime(m), is_prime(m) for every m <= N, primes()) and factorize(m) for every m <= N (m = 0 included: "
        "both sides panic); non-trivial = N >= 4 (at least one composite cell is written)" % (K_QUICK, K_THOROUGH))
TRUSTED = ["executor harness/crates/c13 (builds Sieve::new(N), reads the tables through the public accessors)",
           "checks/c13.py (case generator, Coq term printer)"]
ASSUMPTIONS = ["table entries are nat in the model: the i32/usize casts of the code are exact for limits < 2^31 "
               "(the executor goes up to 10^7)"]


def harness_line(c):
    return "%s %d" % (c["k"], c["n"])


def zl(toks):
    return "[" + ";".join(toks) + "]"


def coq_term(c, obs, profile):
    n = c["n"]
    if obs == "P" or not obs:
        return "(CPanic %d)" % n
    if obs[0] == "T":
        a, b, p = obs[1:].split("|")
        return '(CTab %d %s "%s" %s)' % (n, zl(a.split()), b.strip(), zl(p.split()))
    return "(CFact %d %s)" % (n, zl(obs[1:].split()))


def nontrivial(c, obs):
    return c["n"] >= 4


def classify(c, obs):
    n = c["n"]
    size = "N<4" if n < 4 else ("N<100" if n < 100 else ("N<=400" if n <= 400 else "N>400"))
    return "%s/%s%s" % (c["k"], size, "/panic" if obs == "P" else "")


def generate(rng, tier):
    cases = []
    K = K_QUICK if tier == "quick" else K_THOROUGH
    for n in range(K + 1):
        cases.append({"k": "tab", "n": n})
        cases.append({"k": "fact", "n": n})
    if tier == "thorough":
        for _ in range(60):
            n = rng.range(K + 1, 2000)
            cases.append({"k": "tab", "n": n})
            cases.append({"k": "fact", "n": n})
    return cases


def shrink(c):
    n = c["n"]
    out = []
    for w in (0, n // 2, n - 8, n - 1):
        if 0 <= w < n:
            out.append(dict(c, n=w))
    return out


def extra(ctx, known):
    """implementation-only search at large limits against the independent sieve inside the executor"""
    import subprocess, time
    limits = [200000, 199999] if ctx.tier == "quick" else [1000000, 999983, 10000000]
    cov, viol = {"large_limit_search": []}, []
    binp = ctx.bins[PROFILES[0]]
    for n in limits:
        t = time.time()
        p = subprocess.run([binp], input="big %d\n" % n, stdout=subprocess.PIPE, stderr=subprocess.PIPE, text=True, timeout=3000)
        out = p.stdout.strip()
        cov["large_limit_search"].append({"limit": n, "result": out, "seconds": round(time.time() - t, 2)})
        if not out.startswith("ok"):
            viol.append({"name": "big-%d" % n, "kind": "counterexample",
                         "payload": {"what": "Sieve::new(%d) differs from the independent segmented sieve of the executor" % n,
                                     "limit": n, "executor_says": out, "stderr": p.stderr[-500:],
                                     "reproduce": "echo 'big %d' | harness/target/debug/c13" % n}})
    return {"coverage": cov, "violations": viol, "known": []}


MANIFEST = {
    "text": "Coq (mathcomp ssreflect, no axioms, 13 pinned) theorems about an executable model of Sieve::new with the "
            "literal early break and of the factorisation iterator, for EVERY limit N: c13_invariant (state after each "
            "outer step: cells <= i hold pdiv, a cell above i holds pdiv iff it is composite with cofactor <= i and is 0 "
            "otherwise, the prime list is the primes <= i in order), c13_min_prime (= pdiv n for 2 <= n <= N), "
            "c13_is_prime (= prime n for 0 <= n <= N), c13_primes (all primes <= N, increasing), c13_sizes, "
            "c13_break_is_takewhile (the break evaluated against mnp[i] is sound because no write of the loop touches "
            "cell i), c13_factorize / c13_factorize_spec (= prime_decomp n: strictly increasing primes with exact "
            "exponents whose product is n; no fuel exhaustion) and c13_factorize_one, c13_written_once / "
            "c13_written_once_upto (ghost counter: every cell 2..N assigned exactly once), c13_all_limits_upto_K "
            "(independent finite check by computation for every N <= 600), c13_model_check_spec_check (for every "
            "correspondence case, no side condition: tables / factorisation lists equal to the model's satisfy the "
            "model-independent trial-division specification, so model = implementation carries the specification to "
            "the implementation by proof). The model is tied to the code on every run: "
            "for every limit N up to the bound the executor dumps the full tables and all factorisations and Coq proves "
            "model = implementation and implementation |= trial-division spec.",
    "level_note": "Trusted: Coq kernel + vm_compute; the Rust executor and the Python case printer; integers are nat "
                  "(limits < 2^31); theorems are about the model, the correspondence covers every limit up to the bound; "
                  "the 10^6/10^7 comparison against an independent sieve is an implementation-only search.",
    "technique": "Coq proof over Gallina model + vm_compute correspondence batches against the Rust crate",
}
