"""C08 — Reader results depend only on the input bytes, not on how they are delivered (rlib/io/src/reader.rs)."""
import subprocess

ID = "C08"
CRATE = "c08"
# sibling sources whose edits enlarge the quick correspondence (fingerprints in source_pins.json)
SOURCES = ["rlib/io/src/output_macro.rs", "rlib/num_traits/src/lib.rs"]
COQ_DIR = "C08"
COQ_DEPS = []
PROFILES = ["debug", "release"]
CORR_IMPORT = "From RlibV Require Import C08.Model C08.Spec C08.Corr.\nOpen Scope Z_scope."
AUDIT_IMPORT = ("From Coq Require Import ZArith NArith List Bool.\nImport ListNotations.\n"
                "From RlibV Require Import C08.Model C08.Spec C08.Corr C08.ProofsCore C08.ProofsLoops C08.ProofsInt "
                "C08.ProofsOps C08.ProofsSpec C08.ProofsCorr C08.Flat C08.OldVariant C08.Properties.\nOpen Scope Z_scope.")
CASE_TYPE = "case"
EXPLAIN = "explain"
AXIOM_ALLOW = []
SHARD = 2000
SEARCH_MAX = 12000
THEOREMS = [
    ("c08_initial", "forall (BUF : N) (src : list event), (1 <= BUF)%N -> wf_src src -> represents (new_reader BUF) src (data_of src)"),
    ("c08_simulation_step",
     "forall (o : op) (r : reader) (src : list event) (l : list Z), op_ok o -> represents r src l -> Z.of_nat (length l) < 2 ^ 130 -> "
     "match spec_op o l with "
     "| SRet v l' => exists r' src', run_op o r src = Ret v r' src' /\\ (inv r' src' /\\ live r' ++ data_of src' = l') "
     "| SPanic => run_op o r src = Panic end"),
    ("c08_refines_parser",
     "forall (BUF : N) (src : list event) (ops : list op), (1 <= BUF)%N -> wf_src src -> Forall op_ok ops -> "
     "Z.of_nat (length (data_of src)) < 2 ^ 130 -> run BUF src ops = spec_run ops (data_of src)"),
    ("c08_schedule_independent",
     "forall (BUF1 BUF2 : N) (src1 src2 : list event) (ops : list op), (1 <= BUF1)%N -> (1 <= BUF2)%N -> "
     "Forall (fun e => e <> Data []) src1 -> Forall (fun e => e <> Data []) src2 -> Forall op_ok ops -> "
     "data_of src1 = data_of src2 -> Z.of_nat (length (data_of src1)) < 2 ^ 130 -> "
     "run BUF1 src1 ops = run BUF2 src2 ops /\\ run BUF1 src1 ops = spec_run ops (data_of src1)"),
    ("c08_parse_no_overflow",
     "forall (t : ity) (neg : bool) (tok : list Z), 1 <= bits t -> tok <> [] -> forallb digit tok = true -> "
     "fits t (if neg then - dec_value tok else dec_value tok) = true -> "
     "fold_opt (int_acc t neg) (0, false) tok = Some (if neg then - dec_value tok else dec_value tok, true)"),
    ("c08_read_int_spec",
     "forall (t : ity) (r : reader) (src : list event) (l : list Z), 1 <= bits t -> represents r src l -> "
     "Z.of_nat (length l) < 2 ^ 130 -> match spec_int t l with "
     "| SRet v l' => exists r' src', read_int t r src = Ret v r' src' /\\ represents r' src' l' "
     "| SPanic => read_int t r src = Panic end"),
    ("c08_read_line_spec",
     "(forall (r : reader) (src : list event) (l : list Z), represents r src l -> Z.of_nat (length l) < 2 ^ 130 -> "
     "exists r' src', read_line r src = Ret (fst (spec_line l)) r' src' /\\ represents r' src' (snd (spec_line l))) "
     "/\\ (forall l, fst (spec_line l) = None <-> l = []) "
     "/\\ (forall x rest, Forall (fun c => c <> 10) x -> last x 0 <> 13 -> spec_line (x ++ 10 :: rest) = (Some x, rest)) "
     "/\\ (forall x rest, Forall (fun c => c <> 10) x -> spec_line (x ++ 13 :: 10 :: rest) = (Some x, rest)) "
     "/\\ (forall x, Forall (fun c => c <> 10) x -> x <> [] -> spec_line x = (Some x, []))"),
    ("c08_read_lines_spec",
     "forall (r : reader) (src : list event) (l : list Z), represents r src l -> Z.of_nat (length l) < 2 ^ 130 -> "
     "exists r' src', read_lines r src = Ret (spec_lines l) r' src' /\\ represents r' src' []"),
    ("c08_is_eof_spec",
     "forall (r : reader) (src : list event) (l : list Z), represents r src l -> Z.of_nat (length l) < 2 ^ 130 -> "
     "(exists r' src', is_eof r src = Ret (fst (spec_is_eof l)) r' src' /\\ represents r' src' (snd (spec_is_eof l))) "
     "/\\ (fst (spec_is_eof l) = true <-> Forall (fun c => ws c = true) l) /\\ snd (spec_is_eof l) = drop_ws l"),
    ("c08_model_implies_spec", "forall c : case, in_scope c -> model_check c = true -> spec_check c = true"),
    ("c08_state_is_flat_array",
     "(forall (r : reader) (src : list event), flat_refill (abs r) src = (abs (fst (refill r src)), snd (refill r src))) "
     "/\\ (forall r : reader, at_begin r = nth_error (fbuf (abs r)) (fbegin (abs r))) "
     "/\\ (forall r r' : reader, advance r = Some r' -> "
     "abs r' = mkFlat (fbuf (abs r)) (S (fbegin (abs r))) (fend (abs r)) (feof (abs r))) "
     "/\\ (forall BUF : N, abs (new_reader BUF) = mkFlat (zeros BUF) 0 0 false)"),
    ("c08_old_stale_refuted",
     "exists src1 src2 : list event, Forall (fun e => e <> Data []) src1 /\\ Forall (fun e => e <> Data []) src2 /\\ "
     "data_of src1 = data_of src2 /\\ "
     "value (read_lines_old (new_reader 65536) src1) = Some [[]; [97; 98; 99]] /\\ "
     "value (read_lines_old (new_reader 65536) src2) = Some [[]; [97; 98; 99; 13]] /\\ "
     "value (read_lines (new_reader 65536) src1) = Some [[]; [97; 98; 99; 13]] /\\ "
     "value (read_lines (new_reader 65536) src2) = Some [[]; [97; 98; 99; 13]]"),
    ("c08_old_interrupted_refuted",
     "forall (BUF : N) (src : list event), src_read_old (post (new_reader BUF)) (Intr :: src) = None "
     "/\\ src_read (post (new_reader BUF)) (Intr :: src) = src_read (post (new_reader BUF)) src"),
]
RULE = ("inputs from a token/whitespace grammar (extreme and near-extreme values of the 12 integer types, leading zeros, -0, "
        "String and char tokens incl. VT/DEL/high bytes, separators SP TAB LF FF CR CRLF, lines with lone CR, empty lines, "
        "unterminated last line) x scripts (typed reads, 10 tuple types, read_vec, read_line, read_lines, is_eof) x delivery "
        "schedules: every chunking of inputs <= 7 bytes (quick) / <= 12 bytes (thorough), one byte per read, splits at every "
        "token-interior position, between '-' and the digits, between CR and LF, chunks of BUF-1/BUF/BUF+1 bytes with tokens and "
        "CRLF pairs straddling the real buffer boundary (BUF read from the hook Reader::VERIF_BUF_SIZE; the model runs with the "
        "same capacity), random chunkings; ErrorKind::Interrupted before every read index (single and repeated); every case in "
        "the debug and the release profile.  Added families: runs of 3..1000 (and 200000) consecutive Interrupted before the first "
        "read, inside a token, between CR and LF, before the read that sees the end, before every read, and where an oversize chunk "
        "is cut at the capacity; line/String content with NUL, VT, FS/US, DEL, C1, NBSP, 0xff and multi-byte UTF-8 sequences cut at "
        "every position; lines and String tokens longer than one and two buffers, > 2 buffers of whitespace (both tiers); per integer "
        "type MAX, 00MAX (every 2-split, both tiers), MIN, 10^k neighbours with leading zeros; one input with pairwise distinct "
        "components for each of the 10 tuple signatures, 5 read_vec::<tuple> and 4 nested-tuple signatures (checked as the flat "
        "tuple of the model) and read_vec(2) of every scalar type; the Reader moved to another address (old place overwritten) "
        "between operations (op m, no model counterpart); a second live Reader used between the operations (mode T, self-checked "
        "by the executor, token X:twin on disagreement); the reader built by make_io! in a child process fed through a pipe chunk "
        "by chunk (mode M0) and with every scripted Interrupted delivered as a real signal-interrupted read(2) (mode M1); B in "
        "the case is the largest room the Reader offered to Read::read in that case, boundary cases aim at that observed "
        "capacity.  Byte patterns a reader might treat specially (for the Reader and the model they are ordinary bytes): inputs that BEGIN "
        "with EF BB BF, FE FF, FF FE, 00, '#!', a lone EF, EF BB (both tiers; 18 more: UTF-32/UTF-7/GB18030 marks, doubled and "
        "near-miss marks, ESC, Ctrl-Z, Ctrl-D, comment openers, NBSP, backslash) followed by tokens / lines / only white space / "
        "nothing, read as String, char by char, integer, read_line, read_lines, is_eof, under every split of the first 5 bytes "
        "(first read of 1, 2, 3 .. bytes), byte by byte, Interrupted before the first read and inside the first bytes, also after "
        "leading white space, with the Reader moved before its first read, beside a second Reader and through make_io! on a pipe whose "
        "first write is short; 24 such patterns (marks, NBSP/NEL/LS/PS/ideographic space/ZWSP, backslash-newline, quotes, comment "
        "openers, ESC, Ctrl-Z, NUL, LF CR, CR CR LF) in the MIDDLE (between tokens, at the start of a later line, inside a token) with "
        "every split of the bytes around them; 17 patterns at the END (Ctrl-Z, Ctrl-D, NUL, marks, lone CR, truncated UTF-8) with "
        "every split of the last bytes and Interrupted before the read that reports the end, is_eof before every token; every byte "
        "value 0..255 as first byte, last byte and first byte of the second line; a mark at the start, at the first byte of the "
        "second buffer-load and at the end of a > BUF input; 24 decorated number tokens ('+5', 0x1f, 1_000, 1e3, non-ASCII digits..: "
        "malformed for the Reader); one read per line (terminal-like delivery).  "
        "A separate small stream of out-of-contract cases (reads past the end, malformed or "
        "out-of-range tokens) only requires model = implementation (debug: same panic point; release: same values up to the "
        "model's panic).  non-trivial = the script ends without panic and the schedule has >= 2 data chunks or an Interrupted")
TRUSTED = ["executor harness/crates/c08 (a std::io::Read serving the scripted schedule, never more than the requested length; "
           "typed reads through Reader::read/read_vec/read_line/read_lines/is_eof; prints returned values, strings as code points; "
           "relocation of the Reader between two heap blocks with unsafe ptr read/write; the comparison of the second Reader with "
           "its solo run; the child-process driver for make_io!: pipe writes after FIONREAD reports the pipe drained, SIGUSR1 with "
           "SA_RESTART off sent when /proc/<pid>/stat shows the child sleeping - all waits time out, results never depend on them)",
           "checks/c08.py (case generator, Coq term printer)"]
ASSUMPTIONS = ["std::io::Read contract as modelled: a read delivers between 1 and buf.len() bytes of the stream in order, Ok(0) only at "
               "the end of input (an empty Data chunk in the middle of a schedule is excluded by hypothesis), ErrorKind::Interrupted "
               "delivers nothing and may be retried",
               "debug profile semantics: arithmetic overflow and debug_assert! failures are panics; the release profile is compared "
               "with the same model on in-contract scripts (where no check can fire) and up to the model's panic otherwise",
               "the buffer array and its two cursors are modelled as the split (consumed prefix, live part, free room incl. stale bytes)",
               "u8 as char is the Latin-1 code point; isize/usize are 64 bits wide"]

INTS = {"i8": (8, True), "i16": (16, True), "i32": (32, True), "i64": (64, True), "i128": (128, True), "isize": (64, True),
        "u8": (8, False), "u16": (16, False), "u32": (32, False), "u64": (64, False), "u128": (128, False), "usize": (64, False)}
INT_NAMES = list(INTS)
SCALARS = INT_NAMES + ["s", "c"]
# keep in sync with `fn tuple` in harness/crates/c08/src/main.rs
TUPLES = ["i32,i32", "s,i64", "c,u8", "i8,u16,s", "i128,c,isize", "u64,i16,c,s", "usize,i64,u128,i8,u32",
          "i32,s,c,u8,i64,i16", "u8,u8,i8,i8,c,c,s", "i64,u64,i128,u128,isize,usize,s,c"]
# keep in sync with `fn vec_tuple` / `fn nested` in harness/crates/c08/src/main.rs
VEC_TUPLES = ["usize,usize", "i32,s", "i64,c,u8", "i128,i128", "u8,i8"]
NESTED = ["((i32,i32),s)", "(i8,(c,(u64,s)),i16)", "((usize,usize),(isize,isize))", "(s,(u128,c,i128))"]
WS = [32, 9, 10, 12, 13]
BUF = 65536   # replaced in prepare(): the room the Reader really offers to Read::read (observed by the executor)
HOOK = 65536  # replaced in prepare(): Reader::VERIF_BUF_SIZE


def prepare(ctx):
    global BUF, HOOK
    out = subprocess.run([ctx.bins[PROFILES[0]]], input="Q\n", stdout=subprocess.PIPE, text=True, timeout=60).stdout.split()
    if out and out[0].startswith("B"):
        HOOK = BUF = int(out[0][1:])
    if len(out) > 1 and out[1].startswith("R") and int(out[1][1:]) > 0:
        BUF = int(out[1][1:])     # boundary cases aim at the real capacity, whatever the constant says


# ----------------------------------------------------------------------------- case <-> lines / terms
def is_intr(e):
    """"I" = one Interrupted, "Ix<k>" = k in a row"""
    return isinstance(e, str)


def intr_count(e):
    return 0 if not is_intr(e) else 1 if e == "I" else int(e[2:])


def norm_sched(sched, n):
    """clip the data chunks to the n input bytes, drop empty ones, append what is left as a last chunk"""
    out, left = [], n
    for e in sched:
        if is_intr(e):
            out.append(e)
        else:
            k = min(int(e), left)
            if k > 0:
                out.append(k)
                left -= k
    if left > 0:
        out.append(left)
    return out


def sched_token(sched):
    if not sched:
        return "-"
    toks, i = [], 0
    while i < len(sched):
        e = sched[i]
        j = i
        while j < len(sched) and sched[j] == e:
            j += 1
        if not is_intr(e) and j - i >= 4:
            toks.append("%dx%d" % (e, j - i))
            i = j
        else:
            toks.append(str(e))
            i += 1
    return ",".join(toks)


def harness_line(c):
    """mode C: one Reader in the executor process; T<k>: a second Reader alive and in use between the operations;
    M<k>: the Reader of make_io! in a child process fed through a pipe (k = 1: every I is a real EINTR)"""
    data = bytes.fromhex(c["input"])
    sched = norm_sched(c["sched"], len(data))
    return " ".join([c.get("mode", "C"), c["input"] or "-", sched_token(sched)] + c["ops"])


def coq_bytes(bs):
    """list-of-Z term, long runs compressed with rep"""
    parts, cur, i, n = [], [], 0, len(bs)
    while i < n:
        j = i
        while j < n and bs[j] == bs[i]:
            j += 1
        if j - i >= 24:
            if cur:
                parts.append("[" + ";".join(map(str, cur)) + "]")
                cur = []
            parts.append("(rep %d %d)" % (j - i, bs[i]))
        else:
            cur.extend(bs[i:j])
        i = j
    if cur or not parts:
        parts.append("[" + ";".join(map(str, cur)) + "]")
    return parts[0] if len(parts) == 1 else "(" + " ++ ".join(parts) + ")"


def coq_sty(t):
    if t == "s":
        return "TStr"
    if t == "c":
        return "TChar"
    b, s = INTS[t]
    return "(TInt (mkIty %d %s))" % (b, "true" if s else "false")


def flat_sig(o):
    """component types of vt:<n>:<sig> / nt:<nested sig>, left to right"""
    if o.startswith("vt:"):
        _, n, sig = o.split(":")
        return sig.split(",") * int(n)
    return o[3:].replace("(", "").replace(")", "").split(",")


def coq_op(o):
    if o.startswith("vt:") or o.startswith("nt:"):
        # read_vec::<(A, B)>(n) and nested tuples read the same tokens as the flat tuple: same model operation
        return "(OTuple [%s])" % "; ".join(coq_sty(t) for t in flat_sig(o))
    if o == "l":
        return "OLine"
    if o == "L":
        return "OLines"
    if o == "e":
        return "OIsEof"
    if o.startswith("t:"):
        return "(OTuple [%s])" % "; ".join(coq_sty(t) for t in o[2:].split(","))
    if o.startswith("v:"):
        _, n, t = o.split(":")
        return "(OVec %s %s)" % (n, coq_sty(t))
    return "(OScalar %s)" % coq_sty(o)


def unhex_list(h):
    """code points: two hex digits each, `[hex]` for one above 0xff (not a `u8 as char`: never equal to the model's)"""
    if "[" not in h:
        return list(bytes.fromhex(h))
    out, i = [], 0
    while i < len(h):
        if h[i] == "[":
            j = h.index("]", i)
            out.append(int(h[i + 1:j], 16))
            i = j + 1
        else:
            out.append(int(h[i:i + 2], 16))
            i += 2
    return out


def coq_sval(tok):
    k, v = tok.split(":", 1)
    if k == "i":
        return "(SInt (%d))" % int(v)
    if k == "s":
        return "(SStr %s)" % coq_bytes(unhex_list(v))
    return "(SChar %d)" % int(v, 16)


def parse_obs(obs):
    """-> (buf, [coq val terms], panicked)"""
    t = obs.split()
    buf = int(t[0][1:])
    vals, i, pan = [], 1, False
    while i < len(t):
        x = t[i]
        if x.startswith("X:"):
            # an internal consistency check of the executor failed (second Reader disturbed / child died):
            # a value no model run produces
            vals.insert(0, "(VTuple [])")
            i += 1
        elif x == "P":
            pan = True
            i += 1
        elif x[0] in "tv" and x[1:].isdigit():
            k = int(x[1:])
            items = [coq_sval(y) for y in t[i + 1:i + 1 + k]]
            vals.append("(%s [%s])" % ("VTuple" if x[0] == "t" else "VVec", "; ".join(items)))
            i += 1 + k
        elif x[0] == "L":
            k = int(x[1:])
            items = [coq_bytes(unhex_list(y[1:])) for y in t[i + 1:i + 1 + k]]
            vals.append("(VLines [%s])" % "; ".join(items))
            i += 1 + k
        elif x.startswith("l:"):
            vals.append("(VLine None)" if x == "l:-" else "(VLine (Some %s))" % coq_bytes(unhex_list(x[3:])))
            i += 1
        elif x.startswith("e:"):
            vals.append("(VEof %s)" % ("true" if x[2:] == "1" else "false"))
            i += 1
        else:
            vals.append("(VScalar %s)" % coq_sval(x))
            i += 1
    return buf, vals, pan


def coq_events(c):
    data = unhex_list(c["input"])
    sched = norm_sched(c["sched"], len(data))
    segs, evs, pos = [], [], 0
    for e in sched:
        if is_intr(e):
            if intr_count(e) <= 8:
                evs += ["Intr"] * intr_count(e)
            else:
                if evs:
                    segs.append("[" + "; ".join(evs) + "]")
                    evs = []
                segs.append("(intrs %d)" % intr_count(e))
        else:
            evs.append("Data %s" % coq_bytes(data[pos:pos + e]))
            pos += e
    if evs or not segs:
        segs.append("[" + "; ".join(evs) + "]")
    return segs[0] if len(segs) == 1 else "(" + " ++ ".join(segs) + ")"


def coq_term(c, obs, profile):
    buf, vals, pan = parse_obs(obs)
    return "(mkCase %d %s [%s] [%s] %s %s)" % (
        buf, coq_events(c), "; ".join(coq_op(o) for o in c["ops"] if o != "m"), "; ".join(vals),
        "true" if pan else "false", "true" if profile == "debug" else "false")


def nontrivial(c, obs):
    sched = norm_sched(c["sched"], len(c["input"]) // 2)
    return (not obs.endswith("P")) and (len(sched) >= 2)


def sched_kind(c):
    n = len(c["input"]) // 2
    sched = norm_sched(c["sched"], n)
    data = [e for e in sched if not is_intr(e)]
    k = ""
    if any(is_intr(e) for e in sched):
        k = "intr-run>=3+" if any(is_intr(e) and intr_count(e) >= 3 for e in sched) or "I,I,I" in ",".join(map(str, sched)) else "intr+"
    if c.get("mode", "C")[0] == "T":
        k = "two-readers/" + k
    if c.get("mode", "C")[0] == "M":
        k = "make_io-pipe/" + ("real-EINTR+" if c["mode"] == "M1" and k else "")
    if n >= BUF - 64:
        return k + "buffer-boundary"
    if len(data) <= 1:
        return k + "one-read"
    if all(e == 1 for e in data):
        return k + "bytewise"
    return k + "chunked"


def classify(c, obs):
    fam = (c["fam"] + ":") if c.get("fam") else ""
    if c.get("ooc"):
        return fam + "out-of-contract/" + ("panic" if obs.endswith("P") else "value")
    kinds = set()
    for o in c["ops"]:
        kinds.add("line" if o in ("l", "L") else "eof" if o == "e" else "moved" if o == "m" else
                  "tuple" if o[0] == "t" and ":" in o else "vec-of-tuple" if o.startswith("vt:") else
                  "nested-tuple" if o.startswith("nt:") else "vec" if o[0] == "v" else "token")
    return fam + sched_kind(c) + "/" + "+".join(sorted(kinds)) + ("/panic" if obs.endswith("P") else "")


def known_finding(c, obs, profile):
    return None


def shrink(c):
    data = bytes.fromhex(c["input"])
    n = len(data)
    sched = norm_sched(c["sched"], n)
    out = []

    def mk(**kw):
        d = {k: v for k, v in c.items() if k != "note"}
        d.update(kw)
        return d
    ops = c["ops"]
    if c.get("mode", "C") != "C":
        out.append(mk(mode="C"))
        if c["mode"] == "M1":
            out.append(mk(mode="M0"))
    if "m" in ops:
        out.append(mk(ops=[o for o in ops if o != "m"]))
    for i in range(len(ops)):
        out.append(mk(ops=ops[:i] + ops[i + 1:]))
    for i, o in enumerate(ops):
        if o.startswith("v:") or o.startswith("vt:"):
            h, k, t = o.split(":")
            for k2 in sorted({int(k) // 2, int(k) - 1}):
                if 0 <= k2 < int(k):
                    out.append(mk(ops=ops[:i] + ["%s:%d:%s" % (h, k2, t)] + ops[i + 1:]))
    if any(is_intr(e) for e in sched):
        out.append(mk(sched=[e for e in sched if not is_intr(e)]))
        if any(intr_count(e) > 1 for e in sched):
            out.append(mk(sched=["I" if is_intr(e) else e for e in sched]))
            out.append(mk(sched=[("Ix%d" % (intr_count(e) // 2) if intr_count(e) > 3 else "I") if is_intr(e) else e for e in sched]))
    ds = [e for e in sched if not is_intr(e)]
    if len(ds) > 1:
        out.append(mk(sched=[n]))
        for i in range(min(len(ds) - 1, 4)):
            out.append(mk(sched=ds[:i] + [ds[i] + ds[i + 1]] + ds[i + 2:]))
    # remove input bytes: large blocks first, then single bytes (schedules are re-clipped by norm_sched)
    blocks = []
    k = n // 2
    while k >= 2:
        blocks += [(0, k), (n - k, n), ((n - k) // 2, (n - k) // 2 + k)]
        k //= 2
    for a, b in blocks[:12]:
        out.append(mk(input=(data[:a] + data[b:]).hex()))
    for i in range(min(n, 16)):
        out.append(mk(input=(data[:i] + data[i + 1:]).hex()))
    for i in range(max(16, n - 8), n):
        out.append(mk(input=(data[:i] + data[i + 1:]).hex()))
    return out


# ----------------------------------------------------------------------------- generator
def int_token(rng, ty):
    bits, signed = INTS[ty]
    lo = -(1 << (bits - 1)) if signed else 0
    hi = (1 << (bits - 1)) - 1 if signed else (1 << bits) - 1
    k = rng.below(10)
    if k < 4:
        v = rng.choice([lo, hi, lo + 1, hi - 1, lo // 10, hi // 10, hi // 10 + 1, lo // 10 - 1 if signed else 0])
        v = max(lo, min(hi, v))
    elif k < 6:
        v = rng.choice([0, 1, 9, 10, 42, 99, 100, -1 if signed else 7, -9 if signed else 8, -10 if signed else 11])
    else:
        v = rng.range(0, hi) >> rng.below(bits)
        if signed and rng.chance(1, 2):
            v = -v
        v = max(lo, min(hi, v))
    s = str(v)
    if rng.chance(1, 8):
        z = "0" * rng.range(1, 3)
        s = ("-" + z + s[1:]) if s.startswith("-") else (z + s)
    if signed and v == 0 and rng.chance(1, 3):
        s = "-0"
    return s.encode()


NONWS = [b for b in range(33, 127)] + [0x0b, 0x7f, 0x00, 0x1c, 0x1f, 0x80, 0xa0, 0xff, 0x85]
# valid multi-byte UTF-8 sequences (the Reader is byte = Latin-1 code point; a reader that decodes UTF-8 per buffer
# segment would give schedule-dependent results on these)
UTF8 = [b"\xc3\xa9", b"\xe2\x82\xac", b"\xf0\x9f\x98\x80"]


def str_token(rng):
    n = rng.choice([1, 1, 2, 3, 5, 8])
    bs = bytearray()
    for _ in range(n):
        k = rng.below(12)
        if k < 2:
            bs.append(rng.choice(NONWS))
        elif k == 2:
            bs += rng.choice(UTF8)
        else:
            bs.append(rng.choice(list(b"abcxyzABC019-+._")))
    return bytes(bs)


def char_token(rng):
    return bytes([rng.choice(NONWS) if rng.chance(1, 4) else rng.choice(list(b"aZ-0+x"))])


SEPS = [b" ", b"\n", b"\r\n", b"\t", b"\x0c", b"\r", b"  ", b" \n", b"\n\n", b"\r\n\r\n", b" \t\x0c\r\n"]


def scalar_token(rng, t):
    return int_token(rng, t) if t in INTS else (str_token(rng) if t == "s" else char_token(rng))


LINE_ODD = [0x00, 0x0b, 0x1c, 0x1f, 0x7f, 0x80, 0x85, 0xa0, 0xff]


def line_content(rng):
    n = rng.choice([0, 0, 1, 2, 3, 6])
    alpha = list(b"ab 1-\t") + [13, 13, 0x0c]
    bs = bytearray()
    for _ in range(n):
        k = rng.below(10)
        if k == 0:
            bs.append(rng.choice(LINE_ODD))
        elif k == 1:
            bs += rng.choice(UTF8)
        else:
            bs.append(rng.choice(alpha))
    return bytes(bs)


def unglued(rng, need_sep, add):
    """line content that follows a token directly must not continue the token"""
    if need_sep and add and add[0] not in WS:
        return rng.choice([b" ", b"\t"]) + add
    return add


def gen_script(rng, nops, only_small=False):
    """an in-contract script and its input"""
    inp, ops = bytearray(), []
    need_sep, done_tokens = False, False
    for k in range(nops):
        last = (k == nops - 1)
        r = rng.below(16)
        if done_tokens and r < 10:
            r = 10 + rng.below(6)
        if r < 10:
            if r < 5:
                comps = [rng.choice(INT_NAMES)]
                ops.append(comps[0])
            elif r < 7:
                comps = [rng.choice(["s", "c"])]
                ops.append(comps[0])
            elif r < 8:
                k = rng.below(7)
                if k < 5:
                    sig = rng.choice(TUPLES[:4] if only_small else TUPLES)
                    comps = sig.split(",")
                    ops.append("t:" + sig)
                else:
                    o = ("vt:%d:%s" % (rng.choice([0, 1, 2]), rng.choice(VEC_TUPLES))) if k == 5 else "nt:" + rng.choice(NESTED)
                    comps = flat_sig(o)
                    ops.append(o)
            else:
                t = rng.choice(SCALARS)
                n = rng.choice([0, 1, 2, 3]) if only_small else rng.choice([0, 1, 2, 3, 5, 9])
                comps = [t] * n
                ops.append("v:%d:%s" % (n, t))
            for t in comps:
                if need_sep or rng.chance(2, 3):
                    inp += rng.choice(SEPS)
                inp += scalar_token(rng, t)
                need_sep = (t != "c") or rng.chance(1, 2)
        elif r < 13:
            ops.append("l")
            add = line_content(rng)
            if last and rng.chance(1, 2):
                pass
            else:
                add += rng.choice([b"\n", b"\n", b"\r\n"])
            inp += unglued(rng, need_sep, add)
            need_sep = False
        elif r < 14:
            ops.append("L")
            add = b""
            for _ in range(rng.below(4)):
                add += line_content(rng) + rng.choice([b"\n", b"\r\n"])
            if rng.chance(1, 2):
                add += line_content(rng)
            inp += unglued(rng, need_sep, add)
            done_tokens, need_sep = True, False
        else:
            ops.append("e")
            if rng.chance(1, 2):
                inp += rng.choice(SEPS)
                need_sep = False
    if not done_tokens and rng.chance(1, 3):
        inp += rng.choice(SEPS)
    return bytes(inp), ops


def interesting_splits(data):
    """positions p (0 < p < n) where a split is delicate: inside a token, after '-', between CR and LF"""
    n, ps = len(data), set()
    for p in range(1, n):
        a, b = data[p - 1], data[p]
        if a not in WS and b not in WS:
            ps.add(p)
        if a == 0x2d or (a == 13 and b == 10) or (a == 13) or (b == 13):
            ps.add(p)
    return sorted(ps)


def compositions(n):
    """all ways to cut n bytes into chunks"""
    if n == 0:
        yield []
        return
    for mask in range(1 << (n - 1)):
        out, cur = [], 1
        for i in range(n - 1):
            if mask >> i & 1:
                out.append(cur)
                cur = 1
            else:
                cur += 1
        out.append(cur)
        yield out


def with_intr_everywhere(sched):
    """one variant per read index: Interrupted (once or twice) before that read, incl. the read that sees the end"""
    out = []
    for i in range(len(sched) + 1):
        out.append(sched[:i] + ["I"] + sched[i:])
    out.append([x for e in sched for x in ("I", e)] + ["I", "I"])
    return out


def with_intr_runs(sched, ks):
    """runs of k consecutive Interrupted (k cycling through ks) before each read index, incl. the read that sees the end"""
    out = []
    for i in range(len(sched) + 1):
        out.append(sched[:i] + ["Ix%d" % ks[i % len(ks)]] + sched[i:])
    out.append([x for e in sched for x in ("Ix%d" % ks[0], e)] + ["Ix%d" % ks[-1]])
    return out


def some_intr(rng):
    return "I" if rng.chance(3, 4) else "Ix%d" % rng.choice([2, 3, 3, 4, 5, 9, 33])


def random_sched(rng, n, maxchunk=None):
    out, left = [], n
    mc = maxchunk or max(1, n)
    while left > 0:
        k = min(left, rng.choice([1, 1, 2, 3, rng.range(1, mc)]))
        if rng.chance(1, 6):
            out.append(some_intr(rng))
        out.append(k)
        left -= k
    if rng.chance(1, 4):
        out.append(some_intr(rng))
    return out


def cuts_sched(data):
    """cut at every delicate place"""
    cuts = interesting_splits(data)
    return [b - a for a, b in zip([0] + cuts, cuts + [len(data)])]


def with_moves(rng, ops):
    """the same script with the Reader moved (and its old place overwritten) between operations"""
    if len(ops) < 2:
        return ["m"] + list(ops)
    out, must = [], rng.range(1, len(ops) - 1)
    for i, o in enumerate(ops):
        if i == must or (i > 0 and rng.chance(1, 2)):
            out.append("m")
        out.append(o)
    return out


HAND = [
    ("-128 127", ["i8", "i8"]), ("\nabc\r", ["L"]), ("a\r\nb", ["L"]), ("a\r\n\r\nb", ["l", "l", "l", "l"]),
    ("\r\n", ["L"]), ("ab  cd", ["s", "s", "e"]), (" -0", ["i64", "e"]), ("x1 2", ["c", "t:i32,i32"]),
    ("1 2 3", ["v:3:u8"]), ("1\n\n2\n", ["i32", "L"]), (" \r\n ", ["e", "l"]), ("ab\rcd\n", ["L"]),
    ("255 0", ["u8", "u8", "e"]), ("\r\r\n\r", ["L"]), ("-1\r\n", ["i16", "l", "l"]), ("7 \r\nq", ["u8", "l", "l", "e"]),
    ("\r", ["l", "l"]), ("a\r", ["L", "e"]), ("\n\n", ["l", "l", "l"]), ("", ["e", "l", "L"]), ("-32768", ["i16"]),
    ("65535\x0c", ["u16", "e"]), ("a\x0bb c", ["s", "s", "e"]), ("\x0b1", ["c", "u8"]), ("ab\r\n", ["s", "l", "l"]), ("-\r", ["s", "L"]), ("1\r2", ["l"]),
    # bytes that only a byte-transparent (Latin-1) reader returns unchanged under every chunking: NUL, VT, FS/US, DEL,
    # C1/NBSP/0xff and multi-byte UTF-8 sequences (e-acute, euro sign, an emoji) cut at every position
    ("\xc3\xa9\r\n\xe2\x82\xac", ["L"]), ("a\x00b\x0b\n", ["L"]), ("\xf0\x9f\x98\x80 \xc3\xa9", ["s", "s", "e"]),
    ("\x1c\x1f\x7f\x85\xa0\xff", ["l", "l"]), ("\xe2\x82\xac\r", ["c", "c", "c", "l", "e"]),
]
# the two defects repaired in /repo (known_findings.txt): kept so that a regression is caught
LONG_HAND = [
    ("-9223372036854775808 18446744073709551615", ["i64", "u64"]),
    ("-170141183460469231731687303715884105728\r\n340282366920938463463374607431768211455", ["i128", "u128", "e"]),
    ("-2147483648\t2147483647 4294967295", ["t:i32,i32", "u32"]),
    ("-9223372036854775808\n18446744073709551615\r\n", ["isize", "usize", "L"]),
]


def case(data, sched, ops, **kw):
    if isinstance(data, str):
        data = data.encode("latin-1")
    return dict({"input": data.hex(), "sched": list(sched), "ops": list(ops)}, **kw)


def boundary_cases(rng, tier, B):
    """inputs around the real buffer capacity B (big = True: they are spread over the batch files)"""
    quick = (tier == "quick")
    out = []
    tails = [(b"-128 77\r\nxy\r\n", ["i8", "i8", "L"]), (b"-32768\r\n\r\nz", ["i16", "l", "l", "l"]),
             (b"ab\r\ncd\r", ["s", "L"])]
    pads = [1, 2, 3, 4, 7] if quick else list(range(0, 10))
    for j in pads:
        tail, ops = tails[j % len(tails)]
        data = b" " * (B - j) + tail
        n = len(data)
        # j = 1 with [n] or [B, n]: the '-' is the last byte of a full buffer
        scheds = [[n], [B - 1, n], [B + 1, n]] if quick else [[n], [B - 1, n], [B, n], [B + 1, n], [B - j, 1, n], [1, B - 1, 1, n]]
        for s in (scheds if not quick else [scheds[(j + 2) % 3]]):
            out.append(case(data, s, ops))
        if quick and j == 1:
            out.append(case(data, [B - j, 1, n], with_moves(rng, ops)))
        if quick and j == 2:
            out.append(case(data, [1, B - 1, 1, n], ops, mode="T1"))
        if not quick or j == 2:
            out.append(case(data, ["I", B - j, "I", 1, "I", n], ops))
        if not quick or j == 3:
            # Interrupted (single, and a long run) exactly where an oversize chunk is split at the capacity
            out.append(case(data, [B, "I", 1, "I", n], ops))
            out.append(case(data, [B, "Ix1000", n], ops))
        if not quick and j in (1, 4):
            out.append(case(data, [B - j, "Ix17", 1, "Ix3", n], with_moves(rng, ops), mode="T2"))
    # a CR LF pair / a digit run / a string token across the boundary
    for j in ([1] if quick else [0, 1, 2]):
        out.append(case(b"a" * (B - j) + b"\r\n" + b"b\n", [B, 1, 3] if j else [B + 4], ["L"]))
    out.append(case(b"0" * (B - 1) + b"255 x", [B - 1, 6], ["u8", "c", "e"]))
    # a String token and lines longer than the buffer (one and two refills inside the token / line), a multi-byte UTF-8
    # sequence straddling the boundary; > 2 buffers of whitespace
    out.append(case(b"q" * (B + 3) + b" 1", [B + 5], ["s", "u8"]))
    line1 = b"a" * (B - 1) + b"\xc3\xa9" + b"z" * 4                             # B + 5 bytes
    line2 = b"a" * (B - 2) + b"\xe2\x82\xac" + b"b" * (B - 3) + b"\xf0\x9f\x98\x80" + b"c" * 3   # 2B + 5 bytes
    d1, d2 = line1 + b"\r\nx\r", line2 + b"\n\ny"
    out.append(case(d1, [len(d1)], ["L"]))
    out.append(case(d2, [B - 1, len(d2)], ["l", "m", "l", "l", "l", "e"]))
    out.append(case(b" " * (2 * B + 1) + b"5", [2 * B + 2], ["e", "i32", "e"]))
    # a UTF-8 byte-order mark at the very start of the input, again as the first bytes of the second buffer-load, and at the end
    mark = b"\xef\xbb\xbf"
    d3 = mark + b"a" * (B - 3) + mark + b"hi\r\n" + mark
    out.append(case(d3, [B, len(d3)], ["L", "e"], fam="magic-boundary"))
    if not quick:
        out.append(case(d3, [2, B - 2, len(d3)], ["l", "l", "l", "e"], fam="magic-boundary"))
        out.append(case(d3, [B + 1, 1, len(d3)], ["L", "e"], fam="magic-boundary"))
        out.append(case(d3, ["I", 1, "I", B - 1, "I", 3, len(d3)], ["s", "m", "s", "e"], fam="magic-boundary"))
        out.append(case(d3, [B, 2, len(d3)], ["L", "e"], mode="M0", fam="magic-boundary"))
    # the same long line through make_io! and a pipe
    out.append(case(d1, [B - 1, 3, len(d1)], ["L"], mode="M0"))
    if not quick:
        out.append(case(d1, [B - 1] + [1] * 9 + [len(d1)], ["l", "l", "l"]))
        out.append(case(d1, ["Ix3", B, "Ix64", len(d1)], ["L"], mode="T0"))
        out.append(case(d2, [len(d2)], ["L"]))
        out.append(case(d2, [B, "I", B, "I", "I", "I", len(d2)], ["L"]))
        out.append(case(d2, ["I", B + 1, "I", B + 1, "Ix3", len(d2)], ["L"], mode="M1"))
        out.append(case(b"q" * (2 * B + 3) + b"\x0c1", [2 * B + 5], ["s", "m", "u8"]))
        # many empty lines across the boundary (65538 of them made the model's read_lines quadratic: > 15 min of coqc)
        out.append(case(b"y" * (B - 40) + b"\n" * 90, [B + 50], ["L"]))
    for c in out:
        c["big"] = True
    return out


INTR_INPUTS = [(b"-128 77\r\nxy\r\n", ["i8", "i8", "L"]), (b"12345678 ab\r\n\r\nq", ["u32", "s", "l", "l", "l", "e"]),
               (b"\nabc\r", ["L"]), (b"x 7 \r\n", ["t:c,u8", "e", "l"])]


def intr_run_cases(rng, tier):
    """runs of >= 3 consecutive ErrorKind::Interrupted: before the first read, inside a token, between CR and LF,
    before the read that sees the end of input, before every read"""
    quick = (tier == "quick")
    out = []
    ks = [3, 4, 8, 17, 64, 1000]
    for idx, (data, ops) in enumerate(INTR_INPUTS):
        n = len(data)
        sp = interesting_splits(data)
        crlf = [p for p in range(1, n) if data[p - 1] == 13 and data[p] == 10]
        for ki, k in enumerate(ks):
            run = "Ix%d" % k
            out.append(case(data, [run, n], ops))
            out.append(case(data, [n, run], ops))
            for p in (sp if not quick else sorted(set([sp[(ki + idx) % len(sp)]] + crlf[:1]))):
                out.append(case(data, [p, run, n - p], ops))
        for s in with_intr_runs([1] * n, [3, 5, 4]) if not quick else with_intr_runs([1] * n, [3, 5, 4])[-1:]:
            out.append(case(data, s, ops))
    # a retry loop turned into recursion needs a really long run
    data, ops = INTR_INPUTS[0]
    big = "Ix200000"
    out.append(case(data, [big, 3, len(data)], ops))
    if not quick:
        out.append(case(data, [2, big, 5, big, len(data), big], ops))
        out.append(case(data, [2, "Ix50000", len(data)], ops, mode="T1"))
    return out


def type_boundary_cases(rng, tier):
    """per integer type: MAX, MIN, both with leading zeros, 10^k boundaries next to the digit count of MAX; every 2-split"""
    quick = (tier == "quick")
    out = []
    seps = [b" ", b"\n", b"\r\n", b"\t"]
    for ti, (ty, (bits, signed)) in enumerate(INTS.items()):
        lo = -(1 << (bits - 1)) if signed else 0
        hi = (1 << (bits - 1)) - 1 if signed else (1 << bits) - 1
        d = len(str(hi))
        # MAX alone and with leading zeros: every 2-split in both tiers (MIN: every 2-split is in HAND / LONG_HAND)
        for tok in [str(hi), "00" + str(hi)] + ([] if quick else [str(lo), "0" + str(hi // 10 + 1)]):
            data = tok.encode() + seps[ti % 4]
            n = len(data)
            ops = [ty, "e"]
            if not quick or tok[0] != "0":
                out.append(case(data, [n], ops))
                out.append(case(data, [1] * n, ops))
            for p in range(1, n):
                if not quick or tok[0] != "0" or p % 2 == ti % 2:
                    out.append(case(data, [p, n - p], ops))
        toks = ["9" * (d - 1), "1" + "0" * (d - 1), ("-000" + str(-lo)) if signed else ("000" + str(hi - 1)),
                ("-" + "9" * (d - 1)) if signed else "0", ("-1" + "0" * (d - 1)) if signed else str(hi // 10 + 1), "0" + str(hi - 1)]
        data = b"".join(t.encode() + seps[(i + ti) % 4] for i, t in enumerate(toks)).rstrip()   # the last token ends at the end of input
        n = len(data)
        ops = [ty] * len(toks) + ["e"]
        out.append(case(data, [n], ops))
        out.append(case(data, [1] * n, ops))
        out.append(case(data, cuts_sched(data), ops))
        for p in (range(1 + ti % 2, n, 2) if not quick else [rng.range(1, n - 1) for _ in range(2)]):
            out.append(case(data, [p, n - p], ops))
        if not quick:
            for s in with_intr_everywhere(cuts_sched(data))[ti % 4::4]:
                out.append(case(data, s, ops))
    return out


def distinct_tokens(comps):
    """pairwise distinct component values: a transposed or duplicated component is visible"""
    toks = []
    for i, t in enumerate(comps):
        if t in INTS:
            bits, signed = INTS[t]
            hi = (1 << (bits - 1)) - 1 if signed else (1 << bits) - 1
            v = min(hi - 3 * i, 1000 * (i + 1) + i)     # short tokens; the extremes of every type are in type_boundary_cases
            if signed and i % 2 == 1:
                v = -v - 1
            toks.append(str(v).encode())
        elif t == "s":
            toks.append(b"s%dx-%d" % (i, i))
        else:
            toks.append(bytes([ord("A") + i]))
    return toks


def signature_cases(rng, tier):
    """every tuple signature, every vector-of-tuple and nested-tuple signature, read_vec(2) of every scalar type"""
    quick = (tier == "quick")
    out = []
    sigs = ["t:" + x for x in TUPLES] + ["vt:2:" + x for x in VEC_TUPLES] + ["vt:0:usize,usize", "vt:1:i32,s"] + \
           ["nt:" + x for x in NESTED] + ["v:2:" + x for x in SCALARS]
    for si, o in enumerate(sigs):
        comps = o[2:].split(",") if o.startswith("t:") else [o.split(":")[2]] * 2 if o.startswith("v:") else flat_sig(o)
        toks = distinct_tokens(comps)
        data = b"".join(t + SEPS[(i + si) % 6] for i, t in enumerate(toks))
        n = len(data)
        ops = [o, "e"]
        out.append(case(data, [n], ops))
        out.append(case(data, [1] * n, ops))
        step = 1 if not quick else 2
        for p in range(1 + (si % step), n, step):
            out.append(case(data, [p, n - p], ops))
        out.append(case(data, cuts_sched(data), ops, mode="T%d" % (si % 3)))
    return out


def make_io_cases(rng, tier):
    """the Reader that make_io! builds (real stdin = a pipe, in a child process): chunk by chunk, with real EINTR"""
    quick = (tier == "quick")
    out = []
    pool = [(d.encode("latin-1"), ops) for d, ops in HAND + LONG_HAND]
    for i, (data, ops) in enumerate(pool):
        n = len(data)
        scheds = [[n], [1] * n if n <= 40 else random_sched(rng, n), cuts_sched(data)]
        for s in (scheds if not quick else [scheds[i % 3]]):
            out.append(case(data, [e for e in s if not is_intr(e)], ops, mode="M0"))
        if not quick or i % 3 == 0:
            cs = cuts_sched(data)
            out.append(case(data, [x for e in cs for x in ("I", e)] + ["I", "I"], ops, mode="M1"))
        if not quick and n <= 12:
            for s in with_intr_runs([1] * n, [3, 4])[::3]:
                out.append(case(data, s, ops, mode="M1"))
    for i in range(14 if quick else 220):
        data, ops = gen_script(rng, rng.range(1, 6), only_small=rng.chance(1, 2))
        n = len(data)
        ops = with_moves(rng, ops) if rng.chance(1, 3) else ops
        out.append(case(data, cuts_sched(data) if i % 2 else [e for e in random_sched(rng, n) if not is_intr(e)], ops, mode="M0"))
        out.append(case(data, random_sched(rng, n, 6), ops, mode="M1"))
    for d, ops in [("", ["i32"]), ("-", ["i32"]), ("128 1", ["i8", "i8"]), ("7", ["t:i32,i32"]), ("", ["c"])]:
        data = d.encode()
        out.append(case(data, [len(data)] if data else [], ops, mode="M0", ooc=True))
        out.append(case(data, ["I"] + [1] * len(data) + ["I"], ops, mode="M1", ooc=True))
    return out


# ----------------------------------------------------------------------------- byte patterns a reader might treat specially
# For the Reader every one of these is ordinary data (non-whitespace bytes unless they contain SP TAB LF FF CR).  A reader
# that recognises such a pattern only when it sits contiguously in what one read() delivered gives schedule-dependent results.
# at the START of the input: UTF-8 / UTF-16 byte-order marks, NUL, "#!", a truncated UTF-8 mark ...
MAGIC_START = [b"\xef\xbb\xbf", b"\xfe\xff", b"\xff\xfe", b"\x00", b"#!", b"\xef", b"\xef\xbb"]
# ... UTF-32 / UTF-7 / GB18030 marks, a doubled mark, near misses of the mark, ESC sequence, Ctrl-Z, Ctrl-D, comment openers
MAGIC_START_MORE = [b"\xff\xfe\x00\x00", b"\x00\x00\xfe\xff", b"+/v8", b"\x84\x31\x95\x33", b"\xef\xbb\xbf\xef\xbb\xbf",
                    b"\xef\xbb\xbe", b"\xef\xbf\xbe", b"\xbb\xbf", b"\x1b[0m", b"\x1a", b"\x04", b"//", b"#", b"%", b"<?", b"\x00\x00",
                    b"\xc2\xa0", b"\\"]
# in the MIDDLE (after a token / at the start of a later line / inside a token): marks again, multi-byte sequences that are
# white space or line ends for Unicode-aware code (NBSP, NEL, LS, PS, ideographic space, ZWSP), backslash-newline, comment
# openers, quotes, ESC, Ctrl-Z, NUL, reversed / doubled line ends
MAGIC_MID = [b"\xef\xbb\xbf", b"\xfe\xff", b"\xc2\xa0", b"\xc2\x85", b"\xe2\x80\xa8", b"\xe2\x80\xa9", b"\xe3\x80\x80", b"\xe2\x80\x8b",
             b"\\\n", b"\\\r\n", b"\\n", b"#", b"#!", b"//", b"\"", b"'", b"\x1b[K", b"\x1a", b"\x00", b"\x04", b"\n\r", b"\r\r\n", b"\x08", b"\x7f"]
# at the END: DOS end-of-file Ctrl-Z, Ctrl-D, NUL terminators, a mark, lone CR, backslash, a Ctrl-Z after the last line end
MAGIC_END = [b"\x1a", b"\x04", b"\x00", b"\x00\x00", b"\xef\xbb\xbf", b"\xff\xfe", b"\r", b"\\", b"\n\x1a", b"\r\n\x1a", b"\x1a\n",
             b"\x1a\x1a", b"\xc2\xa0", b"\xe2\x80\xa8", b"\x0c", b"\xef", b"\xc2"]


def py_tokens(data):
    """number of whitespace-separated tokens (is_ascii_whitespace: SP TAB LF FF CR)"""
    n, inside = 0, False
    for b in data:
        if b in WS:
            inside = False
        elif not inside:
            n, inside = n + 1, True
    return n


def token_ops(data, eofs=False):
    """the in-contract script that reads every token as a String, then asks for the end (eofs: is_eof before every token too)"""
    return (["e", "s"] if eofs else ["s"]) * py_tokens(data) + ["e"]


def window_scheds(n, a, w=5):
    """every way to cut the w bytes from position a (clipped to the input), the bytes before and after as one chunk each"""
    a = max(0, min(a, n))
    w = min(w, n - a)
    out = []
    for comp in compositions(w):
        out.append(([a] if a else []) + comp + ([n - a - w] if n - a - w else []))
    return out


def first_read_scheds(n, level=2):
    """level 2: every split of the first 5 bytes (the rest in one read), byte by byte, Interrupted before the first read and
    inside the first bytes, runs of Interrupted; level 1 (quick tier): the same splits, fewer Interrupted placements;
    level 0 (quick tier, secondary scripts): first read of 1, 2, 3 bytes / everything, byte by byte, two Interrupted placements"""
    out = window_scheds(n, 0)
    if level == 0:
        keep = [[n]] + [[k, n - k] for k in (1, 2, 3) if k < n]
        out = [s for s in out if s in keep]
    out.append([1] * n)
    if level == 0:
        out += [["I", 1, n], [2, "I", n]]
    else:
        out += [["I", n], ["I", 1, n], [1, "I", n], [2, "I", n], ["I", 3, n], [x for _ in range(n) for x in ("I", 1)] + ["I"]]
    if level == 2:
        out += [["I", 2, n], [3, "I", n], ["Ix3", 1, "Ix4", 1, n], [1, 1, "I", 1, "I", n], ["Ix17", 2, "Ix3", n]]
    seen, res = set(), []
    for s in out:
        s = norm_sched(s, n)
        if tuple(s) not in seen:
            seen.add(tuple(s))
            res.append(s)
    return res


def start_scripts(p):
    """(input, ops, out of contract?, in the quick core?) for a start pattern p: String, char, integer, read_line(s), is_eof,
    followed by tokens / lines / only white space / nothing"""
    nonws = all(b not in WS for b in p)
    k = len(p)
    out = [
        (p + b"hi", token_ops(p + b"hi"), False, True),                                  # String: the mark is part of the token
        (p + b"hi", ["c"] * (k + 2) + ["e"], not nonws, True),                           # char by char
        (p + b"12 5", ["i32", "i32"], True, True),                                       # integer: not a digit -> the model's panic
        (p + b" 12", (["s"] if nonws else []) + ["i32", "e"], not nonws, False),         # integer after the mark was read as a token
        (p + b"hi\r\nx", ["l", "l", "l"], False, True),                                  # read_line
        (p + b"\nhi\n", ["L", "e"], False, True),                                        # read_lines, the mark is a line of its own
        (p + b" \n", ["e"] + token_ops(p + b" \n"), False, True),                        # is_eof, only white space after the mark
        (p, ["e", "l", "l"], False, True),                                               # nothing but the mark
        (p, ["L"], False, False),
        (p, token_ops(p), False, False),
        (p + b"\r\n", ["l", "l", "e"], False, False),
        (p + b"hi 7\n", ["s", "u8", "e"], not nonws, False),
        (b" \n" + p + b"hi", token_ops(b" \n" + p + b"hi"), False, False),               # the mark after leading white space
        (b"\n" + p + b"hi", ["l", "l", "l"], False, False),
        (p + p + b"a", token_ops(p + p + b"a"), False, False),
        (p + b" hi", token_ops(p + b" hi"), False, False),
    ]
    return out


def magic_start_cases(rng, tier):
    """inputs that BEGIN with a byte sequence a reader might treat specially x every split of the first 5 bytes"""
    quick = (tier == "quick")
    out = []
    for pi, p in enumerate(MAGIC_START + MAGIC_START_MORE):
        main = pi < len(MAGIC_START)
        for si, (data, ops, ooc, core) in enumerate(start_scripts(p)):
            n = len(data)
            if quick and not main and si not in (0, 4 + pi % 2 * 2):
                continue
            scheds = first_read_scheds(n, 2 if not quick else 1 if (main and core) else 0)
            for s in scheds:
                out.append(case(data, s, ops, fam="magic-start", **({"ooc": True} if ooc else {})))
        # the Reader moved before its first read; a second Reader alive; the reader of make_io! on a pipe whose first write is short
        if main or not quick:
            data, ops = p + b"hi\r\nx y", ["s", "l", "l", "e"] if all(b not in WS for b in p) else ["L", "e"]
            n = len(data)
            out.append(case(data, [1, n], ["m"] + ops, fam="magic-start"))
            out.append(case(data, [2, n], ops, mode="T%d" % (pi % 3), fam="magic-start"))
            for k in ((1, 2, 3) if not quick else (1 + pi % 3,)):
                out.append(case(data, [k, n], ops, mode="M0", fam="magic-start"))
            out.append(case(data, ["I", 1, "I", 1, 1, n], ops, mode="M1", fam="magic-start"))
            if not quick:
                out.append(case(data, [n], ops, mode="M0", fam="magic-start"))
                out.append(case(data, [1] * n, ops, mode="M1", fam="magic-start"))
    return out


def magic_mid_cases(rng, tier):
    """the same kind of sequence after a token, at the start of a later line and inside a token x every split of the 5 bytes
    around its first byte (a read that begins exactly with it, ends inside it, ...), Interrupted before the read that begins with it"""
    quick = (tier == "quick")
    out = []
    for mi, m in enumerate(MAGIC_MID):
        shapes = [(b"a\n", b"b\n"), (b"1 ", b" 2"), (b"ab", b"cd\n"), (b"x\r\n", b"\r\ny")]
        for hi, (pre, post) in enumerate(shapes):
            rot = mi % 4 if mi % 4 != 1 else 0
            if quick and hi not in (1, rot):
                continue
            data = pre + m + post
            n, a = len(data), len(pre)
            nl = data.find(b"\n")
            scripts = [token_ops(data, eofs=(mi + hi) % 2 == 1), ["L", "e"], ["l", "s", "e"] if nl >= 0 and py_tokens(data[nl + 1:]) else ["l", "l"]]
            for oi, ops in enumerate(scripts):
                if quick and oi != (0 if hi == 1 else 1):
                    continue
                scheds = [[n], [1] * n] + window_scheds(n, a - 1) + [[a, "I", n - a], ["I", a, "Ix3", 1, n]]
                if quick:
                    scheds = scheds[:2] + window_scheds(n, a - 1, 4) + scheds[-2:]
                elif n <= 7:
                    scheds = list(compositions(n)) + scheds[-2:]
                for s in scheds:
                    out.append(case(data, s, ops, fam="magic-mid"))
        if not quick or mi % 4 == 0:
            data = b"7 " + m + b"q\r\n" + m + b"\n"
            out.append(case(data, [2, len(m), len(data)], ["u8", "m", "L"], fam="magic-mid"))
            out.append(case(data, [2, 1, len(data)], ["u8", "L", "e"], mode="M%d" % (mi // 4 % 2), fam="magic-mid"))
    return out


def magic_end_cases(rng, tier):
    """... and at the END of the input x every split of the last 5 bytes, Interrupted before the last data and before the read
    that reports the end"""
    quick = (tier == "quick")
    out = []
    for mi, m in enumerate(MAGIC_END):
        shapes = [b"hi\n", b"7 ", b"ab", b"x\r\n\r\n", b""]
        for hi, pre in enumerate(shapes):
            if quick and hi not in (mi % 5, (mi + 2) % 5):
                continue
            data = pre + m
            n = len(data)
            for oi, ops in enumerate([token_ops(data, eofs=True), ["L", "e"], ["l", "l", "l", "e"]]):
                if quick and oi == 2 - (mi + hi) % 3:
                    continue
                w = 4 if quick else 5
                scheds = window_scheds(n, n - w) if n > w else list(compositions(n))
                scheds += [[1] * n, [n, "I"], [max(1, n - 1), "I", 1, "Ix3"], ["I", max(1, n - len(m)), "I", n]]
                for s in scheds:
                    out.append(case(data, s, ops, fam="magic-end"))
        if not quick or mi % 4 == 0:
            data = b"a b\n" + m
            out.append(case(data, [4, len(data)], ["s", "m", "s", "L", "e"] if py_tokens(m) == 0 else ["s", "m", "s", "l", "L", "e"], fam="magic-end"))
            out.append(case(data, [len(data) - 1, "I", 1, "I"], ["L"], mode="M1", fam="magic-end"))
    return out


# number-like tokens with decorations that a more liberal integer parser accepts ('+', radix prefixes, digit separators,
# exponents, suffixes, non-ASCII digits): for the Reader every one of them is malformed (the model panics at the first
# non-digit in the debug profile, whatever the schedule)
MAGIC_NUM = [b"+5", b"+0", b"-+1", b"+-1", b"0x1f", b"0b11", b"0o7", b"1_000", b"1'000", b"1,5", b"1.5", b"1e3", b"5L", b"5u", b"5u8",
             b"\xd9\xa3", b"\xef\xbc\x91", b"\xe2\x88\x92" + b"5", b"--5", b"-", b"+", b"0-", b"1\x00", b"\x00" + b"1"]


def magic_number_cases(rng, tier):
    quick = (tier == "quick")
    out = []
    for ti, tok in enumerate(MAGIC_NUM):
        ty = INT_NAMES[ti % len(INT_NAMES)]
        data = tok + b" 7"
        n = len(data)
        scheds = list(compositions(n)) if (not quick and n <= 7) else [[n], [1] * n, [1, n], [2, n], [len(tok), n], ["I", 1, n]]
        for s in scheds:
            out.append(case(data, s, [ty, ty, "e"], ooc=True, fam="magic-number"))
        # the same bytes are fine as a String token
        out.append(case(data, [1, n] if ti % 2 else [n], ["s", ty, "e"], fam="magic-number"))
    return out


def linewise_sched(data):
    """one read per line (what a terminal or a line-buffered writer on a pipe delivers)"""
    out, cur = [], 0
    for b in data:
        cur += 1
        if b == 10:
            out.append(cur)
            cur = 0
    return out + ([cur] if cur else [])


def byte_scan_cases(rng, tier):
    """every byte value 0..255 as the FIRST byte of the input, as the LAST one and as the first byte of the second line;
    whole, the byte alone in its read, byte by byte"""
    quick = (tier == "quick")
    out = []
    for b in range(256):
        bb = bytes([b])
        places = [(bb + b"k\nz", 0), (b"k\nz" + bb, 3), (b"k\n" + bb + b"z\n", 2)]
        for pi, (data, a) in enumerate(places):
            n = len(data)
            scripts = [token_ops(data), ["l", "L", "e"]]
            scheds = [[n], norm_sched(([a] if a else []) + [1, n], n), [1] * n, norm_sched(["I"] + ([a] if a else []) + [1, "I", n], n)]
            for oi, ops in enumerate(scripts):
                for si, s in enumerate(scheds):
                    if quick and (pi == 2 or si >= 2 or (oi + si + b) % 2 == 0 or (pi == 1 and (si != (b >> 1) % 2 or (b % 2 and 0x20 < b < 0x7f)))):
                        continue
                    out.append(case(data, s, ops, fam="byte-scan"))
    return out


def ooc_cases(rng, n):
    """outside the contract: reads past the end, malformed and out-of-range tokens"""
    out = []
    fixed = [("", ["i32"]), ("", ["c"]), ("", ["s"]), ("  ", ["u8"]), ("-", ["i32"]), ("- 5", ["i32"]), ("--1", ["i32"]),
             ("1a3", ["i32"]), ("a", ["i32"]), ("-1", ["u32"]), ("128", ["i8"]), ("-129", ["i8"]), ("256", ["u8"]),
             ("2147483648", ["i32"]), ("-2147483649", ["i32"]), ("+5", ["i32"]), ("1 2", ["v:3:i32"]), ("7", ["t:i32,i32"]),
             ("12 x", ["i32", "i32", "e"]), ("9223372036854775808", ["i64"]), ("340282366920938463463374607431768211456", ["u128"]),
             ("1-2", ["i32"]), ("1\x0b2", ["i32"]), ("5", ["i32", "c"]), ("-", ["i8", "i8"]), ("3 -", ["u8", "i64", "l"])]
    for d, ops in fixed:
        data = d.encode("latin-1")
        out.append(case(data, [max(1, len(data))], ops, ooc=True))
        out.append(case(data, [1] * len(data), ops, ooc=True))
        out.append(case(data, ["I"] + [1] * len(data) + ["I"], ops, ooc=True))
    for _ in range(n):
        data, ops = gen_script(rng, rng.range(1, 4), only_small=True)
        data = bytearray(data)
        k = rng.below(4)
        if k == 0 and data:
            del data[rng.below(len(data)):]
        elif k == 1 and data:
            data[rng.below(len(data))] = rng.choice(list(b"-a+9 \r"))
        elif k == 2:
            ops = ops + [rng.choice(SCALARS)]
        else:
            ops = [rng.choice(["i8", "u8", "i16", "u16"]) if o in INTS else o for o in ops]
        out.append(case(bytes(data), random_sched(rng, len(data)), ops, ooc=True))
    return out


def generate(rng, tier):
    quick = (tier == "quick")
    cases = []
    # 1. hand-picked short inputs: every chunking, Interrupted at every read index of the bytewise schedule
    lim = 7 if quick else 11
    for hi, (d, ops) in enumerate(HAND):
        data = d.encode("latin-1")
        n = len(data)
        if n <= lim:
            for comp in compositions(n):
                cases.append(case(data, comp, ops))
        else:
            for _ in range(48):
                cases.append(case(data, random_sched(rng, n), ops))
            cases.append(case(data, [n], ops))
            cases.append(case(data, [1] * n, ops))
        for s in with_intr_everywhere([1] * n):
            cases.append(case(data, s, ops))
        for s in with_intr_everywhere([n] if n else []):
            cases.append(case(data, s, ops))
        # the Reader moved between the operations; a second Reader in use between the operations
        mops = with_moves(rng, ops)
        for s in ([n], [1] * n, cuts_sched(data)):
            cases.append(case(data, s, mops))
        for k, s in enumerate(([n], [1] * n, cuts_sched(data))):
            cases.append(case(data, s, mops if k == 1 else ops, mode="T%d" % ((hi + k) % 3)))
        if not quick:
            for s in with_intr_runs([1] * n, [3, 7, 4]):
                cases.append(case(data, s, ops))
    for d, ops in LONG_HAND:
        data = d.encode("latin-1")
        n = len(data)
        cases.append(case(data, [n], ops))
        cases.append(case(data, [1] * n, ops))
        for p in interesting_splits(data):
            cases.append(case(data, [p, n - p], ops))
        for s in with_intr_everywhere([1] * n)[:: (3 if quick else 1)]:
            cases.append(case(data, s, ops))
    # 2. random in-contract scripts x targeted and random schedules
    nrand = 170 if quick else 1500
    for i in range(nrand):
        data, ops = gen_script(rng, rng.range(1, 6), only_small=rng.chance(1, 2))
        n = len(data)
        cases.append(case(data, [n], ops))
        cases.append(case(data, [1] * n, ops))
        sp = interesting_splits(data)
        if sp:
            for p in (sp if (not quick or len(sp) <= 3) else [rng.choice(sp) for _ in range(3)]):
                cases.append(case(data, [p, n - p], ops))
            cases.append(case(data, cuts_sched(data), ops))   # cut at every delicate place
        for _ in range(2 if quick else 4):
            cases.append(case(data, random_sched(rng, n), ops))
        if n <= 9 and not quick and i % 5 == 0:
            for comp in compositions(n):
                cases.append(case(data, comp, ops))
        if rng.chance(1, 4 if quick else 2):
            for s in with_intr_everywhere([1] * n)[:: (4 if quick else 1)]:
                cases.append(case(data, s, ops))
        # Interrupted before every read of the multi-byte "delicate cuts" schedule (e.g. on the read after a chunk ending in CR)
        if sp and rng.chance(1, 6):
            ws = with_intr_everywhere(cuts_sched(data))
            for s in ws[rng.below(2):: max(2, len(ws) // (4 if quick else 8))]:
                cases.append(case(data, s, ops))
            if not quick:
                for s in with_intr_runs(cuts_sched(data), [3, 6])[:: max(3, len(ws) // 3)]:
                    cases.append(case(data, s, ops))
        # the Reader is moved between operations (all data buffered / bytewise / delicate cuts); two Readers interleaved
        mops = with_moves(rng, ops)
        cases.append(case(data, rng.choice([[n], [n], [1] * n, cuts_sched(data), random_sched(rng, n)]), mops))
        cases.append(case(data, rng.choice([[n], [1] * n, cuts_sched(data), random_sched(rng, n)]),
                          mops if rng.chance(1, 2) else ops, mode="T%d" % rng.below(3)))
        if not quick:
            cases.append(case(data, [n], mops))
            cases.append(case(data, cuts_sched(data), mops, mode="T%d" % rng.below(3)))
    # 3. a larger vector / many tokens
    for t in (["i64", "s"] if quick else SCALARS):
        n = 120
        toks = [scalar_token(rng, t) for _ in range(n)]
        data = b"".join(tok + rng.choice(SEPS) for tok in toks)
        cases.append(case(data, random_sched(rng, len(data), 40), ["v:%d:%s" % (n, t), "e"]))
    for sig in (VEC_TUPLES[:1] if quick else VEC_TUPLES):
        n = 37
        comps = sig.split(",") * n
        data = b"".join(scalar_token(rng, t) + rng.choice(SEPS) for t in comps)
        cases.append(case(data, random_sched(rng, len(data), 40), ["vt:%d:%s" % (n, sig), "e"]))
    # 4. runs of Interrupted; per-type boundaries; every tuple / vector / nested signature; make_io! through a pipe
    cases += intr_run_cases(rng, tier)
    cases += type_boundary_cases(rng, tier)
    cases += signature_cases(rng, tier)
    cases += make_io_cases(rng, tier)
    # 4b. byte patterns a reader might treat specially (start / middle / end of the input), every byte value at the edges
    cases += magic_start_cases(rng, tier)
    cases += magic_mid_cases(rng, tier)
    cases += magic_end_cases(rng, tier)
    cases += byte_scan_cases(rng, tier)
    cases += magic_number_cases(rng, tier)
    # one read per line for the hand-picked inputs and a fresh stream of scripts (its own rng fork: the streams above are unchanged)
    r2 = rng.fork("linewise")
    pool = [(d.encode("latin-1"), ops) for d, ops in HAND + LONG_HAND]
    pool += [gen_script(r2, r2.range(1, 6), only_small=r2.chance(1, 2)) for _ in range(60 if quick else 600)]
    for i, (data, ops) in enumerate(pool):
        lw = linewise_sched(data)
        if len(lw) >= 2:
            cases.append(case(data, lw, ops, fam="linewise"))
            if not quick or i % 4 == 0:
                cases.append(case(data, [x for e in lw for x in ("I", e)] + ["I"], ops, fam="linewise"))
            if not quick:
                cases.append(case(data, lw, with_moves(r2, ops), mode="M0", fam="linewise"))
    # 5. out of contract: model = implementation only
    cases += ooc_cases(rng, 120 if quick else 1200)
    # 6. the real buffer boundary (expensive for Coq: spread evenly over the batch files)
    big = []
    for B in sorted({BUF, HOOK}):
        big += boundary_cases(rng, tier, B)
    step = max(1, len(cases) // (len(big) + 1))
    for k, c in enumerate(big):
        cases.insert(min(len(cases), (k + 1) * step + k), c)
    return cases


# ----------------------------------------------------------------------------- implementation-level search
def py_lines(data):
    """reference for read_lines, written independently of the Coq specification"""
    out = []
    parts = data.split(b"\n")
    for i, ln in enumerate(parts):
        if i == len(parts) - 1:
            if ln:
                out.append(ln)
        else:
            out.append(ln[:-1] if ln.endswith(b"\r") else ln)
    return out


def extra(ctx, known):
    """Large inputs (thorough tier only), too big for the Coq model: the implementation's results under very different
    delivery schedules must be identical and equal to a Python reference.  Never counted as proof."""
    if ctx.tier != "thorough":
        return {}
    import _driver
    rng = _driver.Rng(ctx.seed).fork("C08-extra")
    B = BUF
    viol, runs = [], 0
    jobs = []
    # (a) many integer tokens, (b) many lines with CR LF / lone CR / empty lines, around 2.5 MB each
    n_tok = 150000
    toks = [int_token(rng, "i64") for _ in range(n_tok)]
    data_a = b"".join(t + rng.choice(SEPS) for t in toks)
    exp_a = "B%d v%d %s e:1" % (B, n_tok, " ".join("i:%d" % int(t) for t in toks))
    jobs.append(("tokens", data_a, ["v:%d:i64" % n_tok, "e"], exp_a))
    lines = []
    for _ in range(200000):
        k = rng.below(8)
        lines.append(bytes(rng.choice(list(b"ab \r\t1-ab \r\t1-\x00\x0b\x1c\x7f\x80\x85\xa0\xc3\xa9\xe2\x82\xac\xff")) for _ in range(rng.choice([0, 1, 3, 8, 20]))) + (b"\r\n" if k < 3 else b"\n"))
    data_b = b"".join(lines) + b"tail\r"
    ref = py_lines(data_b)
    exp_b = "B%d L%d %s e:1" % (B, len(ref), " ".join("=" + x.hex() for x in ref))
    jobs.append(("lines", data_b, ["L", "e"], exp_b))
    for name, data, ops, expected in jobs:
        n = len(data)
        scheds = {"one-read": [n], "bytewise": [1] * n, "buf-1": [B - 1] * (n // (B - 1) + 1), "buf+1": [B + 1] * (n // (B + 1) + 1),
                  "random": random_sched(rng, n, 3 * B), "small-random": random_sched(rng, min(n, 400000), 7) + [n],
                  "intr-bytewise": [x for _ in range(min(n, 300000)) for x in ("I", 1)] + [n],
                  "intr-runs": [x for _ in range(n // B + 1) for x in ("Ix1000", B - 3, "Ix3", 3)],
                  "two-readers": random_sched(rng, n, 2 * B),
                  "make_io-pipe": [x for _ in range(n // (B - 1) + 1) for x in ("I", B - 1)]}
        modes = {"two-readers": "T1", "make_io-pipe": "M1"}
        for sname, sch in scheds.items():
            c = case(data, sch, ops, mode=modes.get(sname, "C"))
            if sname == "make_io-pipe":
                expected = expected.replace("B%d " % B, "B%d " % HOOK, 1)    # the child cannot observe the room: it prints the hook (last schedule)
            for profile in PROFILES:
                out = _driver.run_impl(ctx.bins[profile], [harness_line(c)])[0]
                runs += 1
                if out != expected:
                    pos = next((i for i, (x, y) in enumerate(zip(out.split(), expected.split())) if x != y), -1)
                    viol.append({"name": "large-%s-%s-%s" % (name, sname, profile), "kind": "counterexample", "nofail": False,
                                 "payload": {"what": "large input (%d bytes): the implementation's result under schedule '%s' differs from "
                                                     "the reference at value token %d" % (n, sname, pos),
                                             "profile": profile, "ops": ops, "schedule_kind": sname,
                                             "got": " ".join(out.split()[max(0, pos - 2):pos + 3]),
                                             "expected": " ".join(expected.split()[max(0, pos - 2):pos + 3])}})
    return {"coverage": {"large_input_runs": runs, "large_input_bytes": [len(j[1]) for j in jobs]}, "violations": viol[:3]}


MANIFEST = {
    "text": "Coq model of rlib_io::reader::Reader (buffer with stale contents, refill with compaction and the Interrupted retry "
            "loop, peek, skip_whitespace, the 12 integer readers with checked arithmetic, String, char, tuples, read_vec, "
            "read_line(s), is_eof) driven by a source of Data/Interrupted events, for every buffer capacity >= 1; the "
            "specification is a pure parser on the byte string. Proved (no axioms): c08_simulation_step (invariant: live part of "
            "the buffer ++ undelivered bytes = remaining parser input), c08_refines_parser and c08_schedule_independent (any two "
            "schedules with the same bytes, any placement of Interrupted, any two capacities: equal results, equal to the parser's, "
            "panics included), c08_parse_no_overflow / c08_read_int_spec (every in-range decimal token, incl. the minimum of a signed "
            "type, passes the checked digit loop; anything else panics), c08_read_line_spec, c08_read_lines_spec, c08_is_eof_spec, "
            "c08_state_is_flat_array (the model's state is the Rust (buf, begin, end, eof) with a flat array), "
            "c08_model_implies_spec, and the two repaired defects as statements about named old variants. The model is tied to "
            "the code on every run: the executor serves scripted delivery schedules to the real Reader (debug and release) and Coq "
            "checks model = implementation and implementation |= pure parser on every case; the same case type also carries the "
            "observations of a Reader that is moved in memory between operations, of a Reader sharing the process with a second "
            "active Reader, of read_vec over tuples / nested tuples, and of the Reader that make_io! builds on the real stdin "
            "(child process, pipe, real EINTR), so that these are decided by the same model_check / spec_check.  The case generator "
            "also places byte sequences that other readers treat specially (byte-order marks, NUL, '#!', Ctrl-Z, Unicode spaces, "
            "backslash-newline, every single byte value) at the start, in the middle and at the end of the input and cuts the "
            "delivery at every position around them: for the Reader they are data, whatever the first read returned.",
    "level_note": "Trusted: Coq kernel + vm_compute; the Rust executor and the Python case printer; std::io::Read modelled as "
                  "an oracle with the documented contract (no empty chunk before the end; Interrupted delivers nothing); the "
                  "theorems carry the hypothesis input length < 2^130 (loop fuel); theorems are about the model, the "
                  "correspondence is sampled; release-profile behaviour outside the contract (wrapping, no assertions) is "
                  "compared only up to the model's panic.",
    "technique": "Coq proof over Gallina state-machine model + vm_compute correspondence batches against the Rust crate",
}
