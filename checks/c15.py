"""C15 — combinatorial iterators (rlib/iter): sub/supermasks, next_permutation / iter_permutations, grid neighbours."""
import itertools
import math

ID = "C15"
CRATE = "c15"
COQ_DIR = "C15"
COQ_DEPS = []
PROFILES = ["debug", "release"]
CORR_IMPORT = "From RlibV Require Import C15.Model C15.Corr.\nOpen Scope Z_scope."
AUDIT_IMPORT = ("From Coq Require Import ZArith NArith List Bool Sorting.Permutation Sorting.Sorted.\nImport ListNotations.\n"
                "From RlibV Require Import C15.Model C15.Spec C15.Corr C15.ProofsSmall C15.Properties.\n")
EXPLAIN = "explain"
AXIOM_ALLOW = []
SHARD = 1200
THEOREMS = [
    ('c15_submask_succ',
     'forall w x s : N, (s <> 0 -> s < 2 ^ w -> N.land s x = s -> exists n, next_submask w x s = Some (s, n) /\\ N.land n x = n /\\ n < s /\\ forall u, N.land u x = u -> u < s -> u <= n)%N'),
    ('c15_supermask_succ',
     'forall w x s : N, (x < 2 ^ w -> s < 2 ^ w -> s <> 2 ^ w - 1 -> N.land s x = x -> exists n, next_supermask w x s = Some (s, n) /\\ N.land n x = x /\\ s < n /\\ n < 2 ^ w /\\ forall u, N.land u x = x -> s < u -> n <= u)%N'),
    ('c15_mask_stop',
     'forall w x : N, next_submask w x 0 = None /\\ next_supermask w x (2 ^ w - 1) = None'),
    ('c15_submasks_enumeration',
     'forall w x : N, (w <= 128 -> x < 2 ^ w -> exists l, iter_submasks w x = Some l /\\ (forall u, In u l <-> N.land u x = u) /\\ StronglySorted (fun a b => b < a) l /\\ NoDup l /\\ hd 1 l = x /\\ last l 1 = 0)%N'),
    ('c15_supermasks_enumeration',
     'forall w x : N, (w <= 128 -> x < 2 ^ w -> exists l, iter_supermasks w x = Some l /\\ (forall u, In u l <-> (N.land u x = x /\\ u < 2 ^ w)) /\\ StronglySorted N.lt l /\\ NoDup l /\\ hd 0 l = x /\\ last l 0 = 2 ^ w - 1)%N'),
    ('c15_masks_terminate',
     'forall w x : N, (w <= 128 -> x < 2 ^ w -> iter_submasks w x <> None /\\ iter_supermasks w x <> None)%N'),
    ('c15_submasks_filter',
     'forall w x : N, (w <= 128 -> x < 2 ^ w -> iter_submasks w x = Some (filter (fun u => N.land u x =? u) (rev (all_below w))))%N'),
    ('c15_supermasks_filter',
     'forall w x : N, (w <= 128 -> x < 2 ^ w -> iter_supermasks w x = Some (filter (fun u => (N.land u x =? x) && (u <? 2 ^ w)) (all_below w)))%N'),
    ('c15_next_perm_is_permutation',
     '(forall d : list Z, Permutation d (snd (next_permutation d)))%Z'),
    ('c15_next_perm_greater',
     '(forall d : list Z, fst (next_permutation d) = true -> lex_lt d (snd (next_permutation d)))%Z'),
    ('c15_next_perm_minimal',
     '(forall d : list Z, fst (next_permutation d) = true -> forall p : list Z, Permutation d p -> ~ (lex_lt d p /\\ lex_lt p (snd (next_permutation d))))%Z'),
    ('c15_next_perm_wrap',
     '(forall d : list Z, (fst (next_permutation d) = false <-> StronglySorted Z.ge d) /\\ (StronglySorted Z.ge d -> snd (next_permutation d) = rev d /\\ StronglySorted Z.le (snd (next_permutation d)) /\\ snd (next_permutation d) = sort d))%Z'),
    ('c15_iter_permutations',
     '(forall d : list Z, exists l, iter_permutations d = Some l /\\ StronglySorted lex_lt l /\\ (forall p, In p l <-> Permutation d p) /\\ NoDup l /\\ hd [] l = sort d)%Z'),
    ('c15_sorted_listing_unique',
     '(forall l1 l2 : list (list Z), StronglySorted lex_lt l1 -> StronglySorted lex_lt l2 -> (forall u, In u l1 <-> In u l2) -> l1 = l2)%Z'),
    ('c15_iter_permutations_small',
     '(forallb iter_matches (seqs_upto [0; 1; 2] 7) = true)%Z'),
    ('c15_next_permutation_small',
     '(forallb next_matches (seqs_upto [0; 1; 2] 7) = true)%Z'),
    ('c15_neighbours_4',
     '(forall n m i j : Z, iter_neighbours_4 n m i j = filter (in_grid n m) [(i, j + 1); (i - 1, j); (i, j - 1); (i + 1, j)] /\\ (forall a b, In (a, b) (iter_neighbours_4 n m i j) <-> 0 <= a < n /\\ 0 <= b < m /\\ Z.abs (a - i) + Z.abs (b - j) = 1) /\\ NoDup (iter_neighbours_4 n m i j))%Z'),
    ('c15_neighbours_4d',
     '(forall n m i j : Z, iter_neighbours_4d n m i j = filter (in_grid n m) [(i - 1, j + 1); (i - 1, j - 1); (i + 1, j - 1); (i + 1, j + 1)] /\\ (forall a b, In (a, b) (iter_neighbours_4d n m i j) <-> 0 <= a < n /\\ 0 <= b < m /\\ Z.abs (a - i) = 1 /\\ Z.abs (b - j) = 1) /\\ NoDup (iter_neighbours_4d n m i j))%Z'),
    ('c15_neighbours_8',
     '(forall n m i j : Z, iter_neighbours_8 n m i j = filter (in_grid n m) [(i, j + 1); (i - 1, j + 1); (i - 1, j); (i - 1, j - 1); (i, j - 1); (i + 1, j - 1); (i + 1, j); (i + 1, j + 1)] /\\ (forall a b, In (a, b) (iter_neighbours_8 n m i j) <-> 0 <= a < n /\\ 0 <= b < m /\\ Z.max (Z.abs (a - i)) (Z.abs (b - j)) = 1) /\\ NoDup (iter_neighbours_8 n m i j))%Z'),
    ('c15_submasks_count',
     '(forall w x : N, (w <= 128 -> x < 2 ^ w -> exists l, iter_submasks w x = Some l /\\ N.of_nat (length l) = 2 ^ popcount x)%N)%Z'),
    ('c15_supermasks_count',
     '(forall w x : N, (w <= 128 -> x < 2 ^ w -> exists l, iter_supermasks w x = Some l /\\ N.of_nat (length l) = 2 ^ (w - popcount x))%N)%Z'),
    ('c15_iter_permutations_enumerated',
     '(forall d : list Z, iter_permutations d = Some (all_arrangements d))%Z'),
    ('c15_model_implies_spec',
     '(forall c : case, in_scope c -> model_check c = true -> spec_check c = true)%Z'),
]
RULE = ("masks: every u8 and i8 mask for both iterators (thorough: also every u16/i16 mask with at most 6 free bits and samples up "
        "to 10), structured and random masks of the 32/64/128-bit and pointer-sized types with at most 10 (thorough 12) free bits "
        "(bits 0, 1, 31, 32, 63, 64, 126, 127, the sign bit; zero and all-ones), signed types through their bit pattern; "
        "permutations: every sequence over a 3-letter alphabet up to length 5 (thorough 7) for next_permutation and "
        "iter_permutations, every permutation of up to 5 (thorough 6) distinct elements, random sequences with many duplicates, "
        "negative and extreme i64 values; neighbours: every grid up to 6x6 and every cell for the three iterators, 0-sized and "
        "1xk grids, cells just outside, huge grids; non-trivial = mask with >= 2 free bits / sequence of length >= 3 with a "
        "repeated element or a non-trivial pivot / border or corner cell")
TRUSTED = ["executor harness/crates/c15 (calls rlib_iter::{iter_submasks, iter_supermasks, next_permutation, iter_permutations, "
           "iter_neighbours_4, iter_neighbours_4d, iter_neighbours_8}, prints the collected output; signed masks are cast "
           "from/to the unsigned type of the same width)",
           "checks/c15.py (case generator, Coq term printer)"]
ASSUMPTIONS = ["a w-bit integer is modelled by its bit pattern (an N below 2^w); isize/usize are 64 bits wide",
               "Vec<T: Ord> is modelled as list Z (sampled element type: i64)",
               "usize -> isize casts in the neighbour iterators are the identity (grid sizes and coordinates below 2^63)",
               "data-dependent loops use binary fuel (2^130 for masks, (n+1)^(n+1) for permutations); the theorems prove the fuel is never exhausted"]

WIDTH = {"u8": 8, "i8": 8, "u16": 16, "i16": 16, "u32": 32, "i32": 32, "u64": 64, "i64": 64,
         "u128": 128, "i128": 128, "usize": 64, "isize": 64}
WIDE = ["u32", "i32", "u64", "i64", "u128", "i128", "usize", "isize"]


# ----------------------------------------------------------------------------- executor / Coq printing
def harness_line(c):
    op = c["op"]
    if op in ("sub", "sup"):
        return "%s %s %d %d" % (op, c["ty"], c["x"], (1 << free_bits(c)) + 1)
    if op == "np":
        return " ".join([op] + [str(v) for v in c["d"]])
    if op == "ip":
        return " ".join([op, str(n_arrangements(c["d"]) + 1)] + [str(v) for v in c["d"]])
    return "%s %d %d %d %d" % (op, c["n"], c["m"], c["i"], c["j"])


def n_arrangements(d):
    """number of distinct arrangements of the multiset d (only used to cut a runaway iterator one item too late)"""
    r = math.factorial(len(d))
    for v in set(d):
        r //= math.factorial(d.count(v))
    return r


def z(v):
    v = int(v)
    return "(%d)" % v if v < 0 else "%d" % v


def zl(vs):
    return "[" + ";".join(z(v) for v in vs) + "]"


def parse_ip(toks):
    items, cur = [], []
    for t in toks:
        if t == ";":
            items.append(cur)
            cur = []
        else:
            cur.append(int(t))
    if cur:
        raise ValueError("unterminated item in executor output")
    return items


def coq_term(c, obs, profile):
    t = obs.split()
    if not t or t[0] != "R":
        # a panic is never a legal outcome for these iterators: print an observation that no model output / spec admits
        bad = {"sub": "R 1 1", "sup": "R 0 0", "np": "R 1", "ip": "R", "n4": "R 0 0 0 0", "n4d": "R 0 0 0 0", "n8": "R 0 0 0 0"}
        t = bad[c["op"]].split()
    op = c["op"]
    if op in ("sub", "sup"):
        w = WIDTH[c["ty"]]
        items = [int(v) for v in t[1:]]
        out = zl(items)
        if w > 16:
            # wide numerals are slow to parse: print each item by its bits at the free positions (Corr.v, unpack)
            free = c["x"] if op == "sub" else ((1 << w) - 1) ^ c["x"]
            base = 0 if op == "sub" else c["x"]
            if all((u & ~free) == base for u in items):
                pos = [p for p in range(w) if free >> p & 1]
                idx = [sum(((u >> p) & 1) << k for k, p in enumerate(pos)) for u in items]
                out = "(unpack_sub %d %s)" % (c["x"], zl(idx)) if op == "sub" else "(unpack_sup %d %d %s)" % (w, c["x"], zl(idx))
        return "(%s %d %d %s)" % ("CSub" if op == "sub" else "CSup", w, c["x"], out)
    if op == "np":
        return "(CNext %s %s %s)" % (zl(c["d"]), "true" if t[1] == "1" else "false", zl(t[2:]))
    if op == "ip":
        return "(CIter %s [%s])" % (zl(c["d"]), ";".join(zl(it) for it in parse_ip(t[1:])))
    vals = t[1:]
    pairs = ["(%s,%s)" % (z(vals[k]), z(vals[k + 1])) for k in range(0, len(vals) - 1, 2)]
    return "(CNb %s %d %d %d %d [%s])" % ({"n4": "K4", "n4d": "K4d", "n8": "K8"}[op], c["n"], c["m"], c["i"], c["j"], ";".join(pairs))


def popcount(x):
    return bin(x).count("1")


def free_bits(c):
    w = WIDTH[c["ty"]]
    return popcount(c["x"]) if c["op"] == "sub" else w - popcount(c["x"])


def nontrivial(c, obs):
    op = c["op"]
    if op in ("sub", "sup"):
        return free_bits(c) >= 2
    if op in ("np", "ip"):
        d = c["d"]
        return len(d) >= 3 and (len(set(d)) < len(d) or d != sorted(d))
    return c["i"] in (0, c["n"] - 1) or c["j"] in (0, c["m"] - 1)


def classify(c, obs):
    op = c["op"]
    if obs == "P":
        return "%s/panic" % op
    if op in ("sub", "sup"):
        return "%s/%s/free%s" % (op, c["ty"], free_bits(c) if free_bits(c) < 4 else ("4-7" if free_bits(c) < 8 else "8+"))
    if op in ("np", "ip"):
        d = c["d"]
        return "%s/len%d/%s" % (op, len(d), "dup" if len(set(d)) < len(d) else "distinct")
    return "%s/%s" % (op, "interior" if 0 < c["i"] < c["n"] - 1 and 0 < c["j"] < c["m"] - 1 else "border")


# ----------------------------------------------------------------------------- generator
def mask_case(op, ty, free):
    """`free` = the bit pattern of the positions the iterator ranges over"""
    w = WIDTH[ty]
    full = (1 << w) - 1
    return {"op": op, "ty": ty, "x": free if op == "sub" else full ^ free}


def special_positions(w):
    return sorted({p for p in (0, 1, 7, 8, 15, 16, 31, 32, 62, 63, 64, 65, 126, 127, w // 2 - 1, w // 2, w - 2, w - 1) if p < w})


def gen_masks(rng, tier):
    cases = []
    for ty in ("u8", "i8"):
        for x in range(256):
            cases.append({"op": "sub", "ty": ty, "x": x})
            cases.append({"op": "sup", "ty": ty, "x": x})
    maxfree = 10 if tier == "quick" else 12
    # 16-bit
    if tier == "thorough":
        for free in range(1 << 16):
            if popcount(free) <= 6:
                ty = "u16" if (free * 2654435761 >> 7) & 1 else "i16"
                cases.append(mask_case("sub", ty, free))
                cases.append(mask_case("sup", ty, free))
    n16 = 60 if tier == "quick" else 600
    for _ in range(n16):
        k = rng.range(0, 10)
        pos = list(range(16))
        rng.shuffle(pos)
        free = sum(1 << p for p in pos[:k])
        if rng.chance(1, 2):
            free |= 1 << 15
            if popcount(free) > 10:
                free &= ~1
        for op in ("sub", "sup"):
            cases.append(mask_case(op, rng.choice(["u16", "i16"]), free))
    # wide types: corner masks for every type, then structured/random
    for ty in WIDE:
        w = WIDTH[ty]
        for free in (0, 1, 1 << (w - 1), (1 << (w - 1)) | 1, 3 << (w - 2), (1 << (w - 1)) | (1 << (w // 2)) | (1 << (w // 2 - 1)) | 1):
            for op in ("sub", "sup"):
                cases.append(mask_case(op, ty, free))
    nw = 400 if tier == "quick" else 5000
    for _ in range(nw):
        ty = rng.choice(WIDE)
        w = WIDTH[ty]
        kmax = rng.choice([2, 3, 4, 5, 6, 6, 8, maxfree])
        k = rng.range(0, kmax)
        sp = special_positions(w)
        pos = set()
        for _ in range(k):
            if rng.chance(1, 2):
                pos.add(rng.choice(sp))
            elif rng.chance(1, 3) and pos:
                q = rng.choice(sorted(pos)) + rng.choice([-1, 1])      # adjacent bits: carries / borrows run through them
                if 0 <= q < w:
                    pos.add(q)
            else:
                pos.add(rng.below(w))
        if rng.chance(1, 3):
            pos.add(w - 1)                                              # sign bit
        free = sum(1 << p for p in pos)
        op = rng.choice(["sub", "sup"])
        cases.append(mask_case(op, ty, free))
    return cases


def gen_perms(rng, tier):
    cases = []
    L = 5 if tier == "quick" else 7
    for n in range(0, L + 1):
        for d in itertools.product((0, 1, 2), repeat=n):
            cases.append({"op": "np", "d": list(d)})
            if n <= 3 or list(d) == sorted(d) or rng.chance(1, 8):   # the iterator sorts first: same output per multiset
                cases.append({"op": "ip", "d": list(d)})
    D = 5 if tier == "quick" else 6
    for n in range(2, D + 1):
        for d in itertools.permutations(range(1, n + 1)):
            cases.append({"op": "np", "d": list(d)})
    for n in range(2, (6 if tier == "quick" else 7) + 1):
        d = list(range(n, 0, -1))
        rng.shuffle(d)
        cases.append({"op": "ip", "d": d})
    if tier == "quick":
        for _ in range(40):
            d = list(range(1, 7))
            rng.shuffle(d)
            cases.append({"op": "np", "d": d})
    else:
        for d in itertools.permutations(range(1, 8)):
            if rng.chance(1, 4):
                cases.append({"op": "np", "d": list(d)})
        for _ in range(150):
            d = list(range(1, 9))
            rng.shuffle(d)
            cases.append({"op": "np", "d": d})
    # many duplicates, longer
    nd = 60 if tier == "quick" else 1500
    for _ in range(nd):
        n = rng.range(4, 9)
        a = rng.range(1, 4)
        alpha = rng.choice([[0, 1, 2, 3], [-1, 0, 1, 5], [-(1 << 63), -1, 0, (1 << 63) - 1], [7, 7, 8, 9]])[:max(1, a)]
        d = [rng.choice(alpha) for _ in range(n)]
        k = rng.below(4)
        if k == 0:
            d.sort(reverse=True)                      # last arrangement: wraps
        elif k == 1:
            t = rng.range(1, n - 1)                   # long non-increasing tail
            d = d[:t] + sorted(d[t:], reverse=True)
        cases.append({"op": "np", "d": d})
        if n <= 8 and rng.chance(1, 4):
            cases.append({"op": "ip", "d": d})
    return cases


def gen_nb(rng, tier):
    cases = []
    ops = ("n4", "n4d", "n8")
    for n in range(1, 7):
        for m in range(1, 7):
            for i in range(n):
                for j in range(m):
                    for op in ops:
                        cases.append({"op": op, "n": n, "m": m, "i": i, "j": j})
    for op in ops:
        for (n, m, i, j) in [(0, 0, 0, 0), (0, 5, 0, 2), (5, 0, 2, 0), (1, 1, 0, 0), (3, 3, 3, 1), (3, 3, 1, 3), (3, 3, 3, 3),
                             (3, 3, 4, 1), (2, 2, 5, 5), (1, 2, 1, 2)]:
            cases.append({"op": op, "n": n, "m": m, "i": i, "j": j})
        for k in range(1, 11):
            for j in range(k):
                cases.append({"op": op, "n": 1, "m": k, "i": 0, "j": j})
                cases.append({"op": op, "n": k, "m": 1, "i": j, "j": 0})
        big = (1 << 62)
        for (n, m) in [(big, big), (big, 3), (2, big), (10 ** 9, 10 ** 9)]:
            for (i, j) in [(0, 0), (n - 1, m - 1), (0, m - 1), (n - 1, 0), (n // 2, m // 2), (n - 1, m // 2)]:
                cases.append({"op": op, "n": n, "m": m, "i": i, "j": j})
    ns = 50 if tier == "quick" else 2000
    for _ in range(ns):
        n, m = rng.range(1, 12), rng.range(1, 12)
        cases.append({"op": rng.choice(ops), "n": n, "m": m, "i": rng.range(0, n), "j": rng.range(0, m)})
    return cases


def generate(rng, tier):
    return gen_masks(rng.fork("masks"), tier) + gen_perms(rng.fork("perms"), tier) + gen_nb(rng.fork("nb"), tier)


# ----------------------------------------------------------------------------- shrinking
def shrink(c):
    out = []
    op = c["op"]
    if op in ("sub", "sup"):
        w = WIDTH[c["ty"]]
        full = (1 << w) - 1
        free = c["x"] if op == "sub" else full ^ c["x"]
        for p in range(w):
            if free >> p & 1:
                out.append(mask_case(op, c["ty"], free & ~(1 << p)))
        if c["ty"] not in ("u8", "i8") and free < 256:
            out.append(mask_case(op, "i8" if c["ty"][0] == "i" else "u8", free))
        if c["ty"][0] == "i":
            out.append(dict(c, ty="u" + c["ty"][1:]))
        return out
    if op in ("np", "ip"):
        d = c["d"]
        for k in range(len(d)):
            out.append(dict(c, d=d[:k] + d[k + 1:]))
        vals = sorted(set(d))
        ranked = [vals.index(v) for v in d]
        if ranked != d:
            out.append(dict(c, d=ranked))
        return out
    for key in ("n", "m", "i", "j"):
        v = c[key]
        for w in {v // 2, v - 1}:
            if 0 <= w < v:
                out.append(dict(c, **{key: w}))
    return out


# ----------------------------------------------------------------------------- implementation-level search
def extra(ctx, known):
    """Exhaustive 16-bit masks and large wide masks, checked inside the executor (items are not printed): count =
    2^free, every item a sub/supermask, strictly monotone, first = x, last = 0 / all-ones.  These are consequences of
    c15_submasks_enumeration / c15_supermasks_enumeration / c15_*_count observed directly on the implementation; a
    failure is replayed as an ordinary case (full output, model and specification in Coq)."""
    import _driver
    rng = _driver.Rng(ctx.seed).fork("C15-extra")
    cases = []
    for ty in ("u16", "i16"):
        for x in range(1 << 16):
            cases.append({"op": "sub", "ty": ty, "x": x})
            cases.append({"op": "sup", "ty": ty, "x": x})
    nbig = 40 if ctx.tier == "quick" else 400
    for _ in range(nbig):
        ty = rng.choice(WIDE)
        w = WIDTH[ty]
        k = rng.range(11, 18 if ctx.tier == "quick" else 21)
        pos = list(range(w))
        rng.shuffle(pos)
        free = sum(1 << p for p in pos[:k]) | (1 << (w - 1) if rng.chance(1, 2) else 0)
        cases.append(mask_case(rng.choice(["sub", "sup"]), ty, free))
    lines = ["%sck %s %d %d" % (c["op"], c["ty"], c["x"], (1 << free_bits(c)) + 1) for c in cases]
    outs = _driver.run_impl(ctx.bins[PROFILES[0]], lines)
    bad, items = [], 0
    for c, o in zip(cases, outs):
        t = o.split()
        w = WIDTH[c["ty"]]
        want_last = 0 if c["op"] == "sub" else (1 << w) - 1
        good = (len(t) == 5 and t[0] == "K" and int(t[1]) == 1 << free_bits(c) and t[2] == "1"
                and t[3] == str(c["x"]) and t[4] == str(want_last))
        items += int(t[1]) if len(t) == 5 and t[1].isdigit() else 0
        if not good:
            bad.append((c, o))
    # permutations of 7 and 8 distinct elements (itertools.permutations of a sorted input is the lexicographic listing)
    pbad, pcount = [], 0
    for n in (7, 8):
        listing = [list(q) for q in itertools.permutations(range(1, n + 1))]
        plines = ["np " + " ".join(map(str, q)) for q in listing]
        pouts = _driver.run_impl(ctx.bins[PROFILES[0]], plines)
        pcount += len(plines)
        for k, (q, o) in enumerate(zip(listing, pouts)):
            want = "R 1 " + " ".join(map(str, listing[k + 1])) if k + 1 < len(listing) else "R 0 " + " ".join(map(str, listing[0]))
            if o.strip() != want:
                pbad.append(({"op": "np", "d": q}, o))
        d0 = list(range(n, 0, -1))
        o = _driver.run_impl(ctx.bins[PROFILES[0]], ["ip %d %s" % (len(listing) + 1, " ".join(map(str, d0)))])[0]
        pcount += 1
        if o.strip() != "R " + " ".join(" ".join(map(str, q)) + " ;" for q in listing):
            pbad.append(({"op": "ip", "d": d0}, o[:200]))
    cov_perm = {"what": "next_permutation on every permutation of 7 and of 8 distinct elements and iter_permutations on both sets, "
                        "compared with itertools.permutations of the sorted input (the lexicographic listing)",
                "cases": pcount, "failures": len(pbad)}
    cov = {"impl_search_permutations": cov_perm,
           "impl_search": {"what": "every u16 and i16 mask (both iterators) and %d masks of the wider types with 11-%d free "
                                   "bits, checked in the executor: count = 2^free, all items sub/supermasks, strictly "
                                   "monotone, first = x, last = 0 / all-ones" % (nbig, 17 if ctx.tier == "quick" else 20),
                           "cases": len(cases), "items_iterated": items, "failures": len(bad)}}
    viol = []
    if bad:
        bad.sort(key=lambda co: (free_bits(co[0]), WIDTH[co[0]["ty"]]))
        c, o = bad[0]
        payload = {"case": c, "impl_summary": o,
                   "what": "implementation-level search: the iterator's output on this mask has the wrong length, is not "
                           "strictly monotone, contains a non-sub/supermask or has the wrong end points "
                           "(summary line: K count ok first last)", "other_failing_cases": len(bad) - 1}
        viol.append({"name": "impl-%s-%s-%d" % (c["op"], c["ty"], c["x"]), "payload": payload, "nofail": False})
    if pbad:
        c, o = pbad[0]
        viol.append({"name": "impl-%s-%s" % (c["op"], "-".join(map(str, c["d"]))),
                     "payload": {"case": c, "impl_observation": o, "other_failing_cases": len(pbad) - 1,
                                 "what": "implementation-level search: not the lexicographic successor / listing of this sequence"},
                     "nofail": False})
    return {"coverage": cov, "violations": viol, "known": []}


MANIFEST = {
    "text": "Theorems (Coq, no axioms, 23 pinned) about an executable Gallina model of rlib_iter: sub/supermask iterators "
            "as from_fn(step).chain([last]) over bit patterns of width w, next_permutation transcribed index by index on "
            "list Z, iter_permutations, the three neighbour iterators. Masks, every width w <= 128 (signed types through "
            "their bit pattern): c15_submask_succ / c15_supermask_succ ((s-1)&x is the greatest submask below s; (s+1)|x "
            "the least supermask above), c15_mask_stop, c15_submasks_enumeration / c15_supermasks_enumeration "
            "(terminates; exactly the sub/supermasks, strictly decreasing to 0 / increasing to all-ones, each once), "
            "c15_submasks_filter / c15_supermasks_filter, c15_masks_terminate, c15_submasks_count / c15_supermasks_count. "
            "Permutations with repeated elements: c15_next_perm_is_permutation, c15_next_perm_greater, "
            "c15_next_perm_minimal (it IS the lexicographic successor: nothing strictly between), c15_next_perm_wrap "
            "(false exactly on non-increasing input, which is left sorted), c15_iter_permutations (starts sorted, "
            "strictly increasing, consecutive successors, complete) with c15_sorted_listing_unique and "
            "c15_iter_permutations_enumerated (= the directly enumerated list of distinct arrangements), finite "
            "cross-checks c15_*_small. Neighbours: c15_neighbours_4 / _4d / _8 (the fixed offset order filtered by the "
            "bounds; membership iff in-grid and adjacent; no repetition). c15_model_implies_spec. The model is tied to "
            "the code on every run: the executor collects the real iterators' output (12 integer types, Vec<i64>, grids) "
            "and Coq proves model = implementation and implementation |= brute-force specification on every case.",
    "level_note": "Trusted: Coq kernel + vm_compute; the Rust executor and the Python case printer; w-bit integers are bit patterns "
                  "in N, usize->isize casts are the identity (sizes below 2^63); theorems are about the model, the correspondence "
                  "is exhaustive for 8-bit masks / short sequences / small grids and sampled beyond.",
    "technique": "Coq proof over Gallina model + vm_compute correspondence batches against the Rust crate",
}
