"""C15 — combinatorial iterators (rlib/iter): sub/supermasks, next_permutation / iter_permutations, grid neighbours."""
import itertools
import math

ID = "C15"
CRATE = "c15"
COQ_DIR = "C15"
COQ_DEPS = []
PROFILES = ["debug", "release"]
CORR_IMPORT = "From RlibV Require Import C15.Model C15.Corr.\nOpen Scope Z_scope."
AUDIT_IMPORT = ("From Coq Require Import ZArith NArith List Bool Sorting.Permutation Sorting.Sorted.\nImport ListNotations.\n"
                "From RlibV Require Import C15.Model C15.Spec C15.Corr C15.ProofsSmall C15.Properties.\n")
EXPLAIN = "explain"
AXIOM_ALLOW = []
SHARD = 1200
THEOREMS = [
    ('c15_submask_succ',
     'forall w x s : N, (s <> 0 -> s < 2 ^ w -> N.land s x = s -> exists n, next_submask w x s = Some (s, n) /\\ N.land n x = n /\\ n < s /\\ forall u, N.land u x = u -> u < s -> u <= n)%N'),
    ('c15_supermask_succ',
     'forall w x s : N, (x < 2 ^ w -> s < 2 ^ w -> s <> 2 ^ w - 1 -> N.land s x = x -> exists n, next_supermask w x s = Some (s, n) /\\ N.land n x = x /\\ s < n /\\ n < 2 ^ w /\\ forall u, N.land u x = x -> s < u -> n <= u)%N'),
    ('c15_mask_stop',
     'forall w x : N, next_submask w x 0 = None /\\ next_supermask w x (2 ^ w - 1) = None'),
    ('c15_submasks_enumeration',
     'forall w x : N, (w <= 128 -> x < 2 ^ w -> exists l, iter_submasks w x = Some l /\\ (forall u, In u l <-> N.land u x = u) /\\ StronglySorted (fun a b => b < a) l /\\ NoDup l /\\ hd 1 l = x /\\ last l 1 = 0)%N'),
    ('c15_supermasks_enumeration',
     'forall w x : N, (w <= 128 -> x < 2 ^ w -> exists l, iter_supermasks w x = Some l /\\ (forall u, In u l <-> (N.land u x = x /\\ u < 2 ^ w)) /\\ StronglySorted N.lt l /\\ NoDup l /\\ hd 0 l = x /\\ last l 0 = 2 ^ w - 1)%N'),
    ('c15_masks_terminate',
     'forall w x : N, (w <= 128 -> x < 2 ^ w -> iter_submasks w x <> None /\\ iter_supermasks w x <> None)%N'),
    ('c15_submasks_filter',
     'forall w x : N, (w <= 128 -> x < 2 ^ w -> iter_submasks w x = Some (filter (fun u => N.land u x =? u) (rev (all_below w))))%N'),
    ('c15_supermasks_filter',
     'forall w x : N, (w <= 128 -> x < 2 ^ w -> iter_supermasks w x = Some (filter (fun u => (N.land u x =? x) && (u <? 2 ^ w)) (all_below w)))%N'),
    ('c15_next_perm_is_permutation',
     '(forall d : list Z, Permutation d (snd (next_permutation d)))%Z'),
    ('c15_next_perm_greater',
     '(forall d : list Z, fst (next_permutation d) = true -> lex_lt d (snd (next_permutation d)))%Z'),
    ('c15_next_perm_minimal',
     '(forall d : list Z, fst (next_permutation d) = true -> forall p : list Z, Permutation d p -> ~ (lex_lt d p /\\ lex_lt p (snd (next_permutation d))))%Z'),
    ('c15_next_perm_wrap',
     '(forall d : list Z, (fst (next_permutation d) = false <-> StronglySorted Z.ge d) /\\ (StronglySorted Z.ge d -> snd (next_permutation d) = rev d /\\ StronglySorted Z.le (snd (next_permutation d)) /\\ snd (next_permutation d) = sort d))%Z'),
    ('c15_iter_permutations',
     '(forall d : list Z, exists l, iter_permutations d = Some l /\\ StronglySorted lex_lt l /\\ (forall p, In p l <-> Permutation d p) /\\ NoDup l /\\ hd [] l = sort d)%Z'),
    ('c15_sorted_listing_unique',
     '(forall l1 l2 : list (list Z), StronglySorted lex_lt l1 -> StronglySorted lex_lt l2 -> (forall u, In u l1 <-> In u l2) -> l1 = l2)%Z'),
    ('c15_iter_permutations_small',
     '(forallb iter_matches (seqs_upto [0; 1; 2] 7) = true)%Z'),
    ('c15_next_permutation_small',
     '(forallb next_matches (seqs_upto [0; 1; 2] 7) = true)%Z'),
    ('c15_neighbours_4',
     '(forall n m i j : Z, iter_neighbours_4 n m i j = filter (in_grid n m) [(i, j + 1); (i - 1, j); (i, j - 1); (i + 1, j)] /\\ (forall a b, In (a, b) (iter_neighbours_4 n m i j) <-> 0 <= a < n /\\ 0 <= b < m /\\ Z.abs (a - i) + Z.abs (b - j) = 1) /\\ NoDup (iter_neighbours_4 n m i j))%Z'),
    ('c15_neighbours_4d',
     '(forall n m i j : Z, iter_neighbours_4d n m i j = filter (in_grid n m) [(i - 1, j + 1); (i - 1, j - 1); (i + 1, j - 1); (i + 1, j + 1)] /\\ (forall a b, In (a, b) (iter_neighbours_4d n m i j) <-> 0 <= a < n /\\ 0 <= b < m /\\ Z.abs (a - i) = 1 /\\ Z.abs (b - j) = 1) /\\ NoDup (iter_neighbours_4d n m i j))%Z'),
    ('c15_neighbours_8',
     '(forall n m i j : Z, iter_neighbours_8 n m i j = filter (in_grid n m) [(i, j + 1); (i - 1, j + 1); (i - 1, j); (i - 1, j - 1); (i, j - 1); (i + 1, j - 1); (i + 1, j); (i + 1, j + 1)] /\\ (forall a b, In (a, b) (iter_neighbours_8 n m i j) <-> 0 <= a < n /\\ 0 <= b < m /\\ Z.max (Z.abs (a - i)) (Z.abs (b - j)) = 1) /\\ NoDup (iter_neighbours_8 n m i j))%Z'),
    ('c15_submasks_count',
     '(forall w x : N, (w <= 128 -> x < 2 ^ w -> exists l, iter_submasks w x = Some l /\\ N.of_nat (length l) = 2 ^ popcount x)%N)%Z'),
    ('c15_supermasks_count',
     '(forall w x : N, (w <= 128 -> x < 2 ^ w -> exists l, iter_supermasks w x = Some l /\\ N.of_nat (length l) = 2 ^ (w - popcount x))%N)%Z'),
    ('c15_iter_permutations_enumerated',
     '(forall d : list Z, iter_permutations d = Some (all_arrangements d))%Z'),
    ('c15_model_implies_spec',
     '(forall c : case, in_scope c -> model_check c = true -> spec_check c = true)%Z'),
    ('c15_next_perm_direct',
     '(forall (d : list Z) (r : bool) (out : list Z), spec_next_direct d r out = true <-> (r, out) = next_permutation d)%Z'),
    ('c15_spec_next_direct_agrees',
     '(forall (d : list Z) (r : bool) (out : list Z), spec_next_direct d r out = spec_next d r out)%Z'),
    ('c15_submasks_take',
     'forall (w x : N) (l : list N) (k : nat), iter_submasks w x = Some l -> iter_submasks_take w x k = firstn k l'),
    ('c15_supermasks_take',
     'forall (w x : N) (l : list N) (k : nat), iter_supermasks w x = Some l -> iter_supermasks_take w x k = firstn k l'),
    ('c15_iter_permutations_take',
     '(forall (d : list Z) (l : list (list Z)) (k : nat), iter_permutations d = Some l -> iter_permutations_take d k = firstn k l)%Z'),
    ('c15_submasks_take_closed',
     'forall (w x : N) (k : nat), (x < 2 ^ w -> iter_submasks_take w x k = sub_closed x (2 ^ popcount x - 1) k)%N'),
    ('c15_supermasks_take_closed',
     'forall (w x : N) (k : nat), (x < 2 ^ w -> iter_supermasks_take w x k = sup_closed x (2 ^ w - 1 - x) (2 ^ popcount (2 ^ w - 1 - x) - 1) 0 k)%N'),
]
RULE = ("masks: every u8 and i8 mask for both iterators (thorough: also every u16/i16 mask with at most 6 free bits and samples up "
        "to 10), structured and random masks of the 32/64/128-bit and pointer-sized types with at most 10 (thorough 12) free bits "
        "(bits 0, 1, 31, 32, 63, 64, 126, 127, the sign bit; zero and all-ones; for every wide type and iterator one mask with 8 "
        "(thorough 12) scattered free bits and runs of 3 and 7 (thorough 2..10) adjacent free bits at shifts 0, 28, 30, 60, 62, "
        "120 and ending at the top bit), signed types through their bit pattern; prefixes take(k), k in {1, 2, 5, 300}, of masks "
        "whose listing cannot be drained (all 12 types: all-ones / zero, 23..127 free bits as low block, high block, scattered) "
        "and k around the full length on short listings; the same listings obtained through the Iterator protocol (size_hint "
        "bracket, count, last, nth, fold, for_each, collect, extend, skip, step_by, by_ref, zip of two instances, a half-used "
        "dropped instance), with nested iterators (for s in submasks(x) for t in submasks(s)) and with two other mask iterators "
        "polled in turn, every instantiation at least once per family; "
        "permutations: every sequence over a 3-letter alphabet up to length 5 (thorough 7) for next_permutation and "
        "iter_permutations, every permutation of up to 5 (thorough 6) distinct elements, random sequences with many duplicates, "
        "negative and extreme i64 values; long sequences (lengths 10..40, 63..65, 127..129, 255..257, 1000, 65537; thorough also "
        "4096, 65535, 65536) with the pivot in front, at the end, in the middle of a long non-increasing tail holding copies of "
        "the pivot value, all-equal, decreasing, last arrangement with repeats; prefixes of iter_permutations on 9..30 elements "
        "and take(k) around the full length; iter_permutations through the Iterator protocol and with a second iterator polled "
        "in turn; element types u8, String, (i32, i32), a struct ordered by its key only (same objects afterwards), (), a "
        "clone/drop-counting type (nothing leaked or dropped twice), arrays and boxed slices; iter_permutations (full listing, "
        "listing through the Iterator protocol, prefixes take(k) on 7..14 elements) on records ordered by their key only and on "
        "case-insensitive strings where equal elements carry distinct payloads / spellings: every yielded vector must be a "
        "rearrangement of the input objects (payload multiset preserved, payload still attached to its key: objects are moved "
        "or cloned whole, never rebuilt from an equal representative); sub-slices &mut v[a..b] (outside "
        "untouched, larger element right behind the range); "
        "neighbours: every grid up to 6x6 and 8x8 (thorough up to 9x9) and every cell for the three iterators, borders of 9x9, "
        "7x9, 16x16, 0-sized and 1xk grids, cells just outside, sizes 255..257, 65535..65537, 2^31-1, 2^31, 2^32, 2^32+1, 2^62, "
        "2^63-1 at corners / edges / centre, the Iterator protocol with a second iterator polled in turn; "
        "non-trivial = mask with >= 2 free bits / sequence of length >= 3 with a "
        "repeated element or a non-trivial pivot / border or corner cell")
TRUSTED = ["executor harness/crates/c15 (calls rlib_iter::{iter_submasks, iter_supermasks, next_permutation, iter_permutations, "
           "iter_neighbours_4, iter_neighbours_4d, iter_neighbours_8}, prints the collected output; signed masks are cast "
           "from/to the unsigned type of the same width; the protocol / nesting / interleaving / element-type ops compare what "
           "they obtain with the plain next() listing or with the definition of a complete listing and print F instead of the "
           "observation when something disagrees; other element types are mapped from/to i64 by order-preserving bijections)",
           "checks/c15.py (case generator, Coq term printer incl. the run-length and bit-position encodings of long outputs)"]
ASSUMPTIONS = ["a w-bit integer is modelled by its bit pattern (an N below 2^w); isize/usize are 64 bits wide",
               "Vec<T: Ord> / &mut [T] is modelled as list Z (sampled element types: i64, u8, String, (i32, i32), keyed struct, "
               "case-insensitive string, (), "
               "a drop-counting type; Vec, sub-slice, array, boxed slice)",
               "usize -> isize casts in the neighbour iterators are the identity (grid sizes and coordinates below 2^63)",
               "calls of next() after the first None are not specified and not made",
               "data-dependent loops use binary fuel (2^130 for masks, (n+1)^(n+1) for permutations); the theorems prove the fuel is never exhausted"]

WIDTH = {"u8": 8, "i8": 8, "u16": 16, "i16": 16, "u32": 32, "i32": 32, "u64": 64, "i64": 64,
         "u128": 128, "i128": 128, "usize": 64, "isize": 64}
WIDE = ["u32", "i32", "u64", "i64", "u128", "i128", "usize", "isize"]


# ----------------------------------------------------------------------------- executor / Coq printing
# Case kinds.  The first group is observed directly; the second group prints the SAME observation line through another
# executor op (Iterator protocol, several live iterators, other element types, sub-slices) and is fed to the same Coq
# case constructor; `subp/supp/ipp` are prefixes (`take(k)`) with their own constructors.
MASK_FULL = {"sub": "sub", "sup": "sup", "subm": "sub", "supm": "sup", "subnest": "sub", "supnest": "sup",
             "subzip": "sub", "supzip": "sup"}
MASK_PRE = {"subp": "sub", "supp": "sup"}
NEXT_OPS = ("np", "npg", "npsub")
ITER_FULL = ("ip", "ipm", "ipzip", "ipg")
NB_OPS = {"n4": "n4", "n4d": "n4d", "n8": "n8", "n4m": "n4", "n4dm": "n4d", "n8m": "n8"}


def mask_kind(c):
    """'sub' / 'sup' for every mask case, else None"""
    return MASK_FULL.get(c["op"]) or MASK_PRE.get(c["op"])


def next_input(c):
    """the sequence next_permutation is applied to"""
    return c["d"][c["a"]:c["b"]] if c["op"] == "npsub" else c["d"]


def harness_line(c):
    op = c["op"]
    if op in MASK_FULL:
        lim = (1 << free_bits(c)) + 1
        if op in ("subm", "supm"):
            return "%s %s %d %d %d" % (op, c["ty"], c["x"], lim, c["k"])
        if op in ("subzip", "supzip"):
            return "%s %s %d %d %d %d" % (op, c["ty"], c["x"], lim, c["y"], c["z"])
        return "%s %s %d %d" % (op, c["ty"], c["x"], lim)
    if op in MASK_PRE:
        return "%s %s %d %d" % (MASK_PRE[op], c["ty"], c["x"], c["k"])
    if op == "np":
        return " ".join([op] + [str(v) for v in c["d"]])
    if op == "npg":
        return " ".join([op, c["kind"]] + [str(v) for v in c["d"]])
    if op == "npsub":
        return " ".join([op, str(c["a"]), str(c["b"])] + [str(v) for v in c["d"]])
    if op == "ip":
        return " ".join([op, str(n_arrangements(c["d"]) + 1)] + [str(v) for v in c["d"]])
    if op == "ipp":
        return " ".join(["ip", str(c["k"])] + [str(v) for v in c["d"]])
    if op == "ipm":
        return " ".join([op, str(n_arrangements(c["d"]) + 1), str(c["k"])] + [str(v) for v in c["d"]])
    if op == "ipg":
        # with "k": a prefix take(k) (fed to the constructor of `ipp`)
        lim = c["k"] if "k" in c else n_arrangements(c["d"]) + 1
        return " ".join([op, c["kind"], str(lim)] + [str(v) for v in c["d"]])
    if op == "ipzip":
        lim = max(n_arrangements(c["d"]), n_arrangements(c["d2"])) + 1
        return " ".join([op, str(lim), str(len(c["d"]))] + [str(v) for v in c["d"] + c["d2"]])
    if op in ("n4m", "n4dm", "n8m"):
        return "%s %d %d %d %d %d" % (op, c["n"], c["m"], c["i"], c["j"], c["k"])
    return "%s %d %d %d %d" % (op, c["n"], c["m"], c["i"], c["j"])


def n_arrangements(d):
    """number of distinct arrangements of the multiset d (only used to cut a runaway iterator one item too late)"""
    r = math.factorial(len(d))
    for v in set(d):
        r //= math.factorial(d.count(v))
    return r


def z(v):
    v = int(v)
    return "(%d)" % v if v < 0 else "%d" % v


def zl(vs):
    return "[" + ";".join(z(v) for v in vs) + "]"


def zl_long(vs):
    """long sequences with long runs are printed run-length encoded (Corr.v, rle): Coq parses a 65537-element list
    literal in 9 s"""
    vs = [int(v) for v in vs]
    if len(vs) > 48:
        runs = []
        for v in vs:
            if runs and runs[-1][0] == v:
                runs[-1][1] += 1
            else:
                runs.append([v, 1])
        if 3 * len(runs) <= len(vs):
            return "(rle [" + ";".join("(%s,%d)" % (z(v), n) for v, n in runs) + "])"
    return zl(vs)


def parse_ip(toks):
    items, cur = [], []
    for t in toks:
        if t == ";":
            items.append(cur)
            cur = []
        else:
            cur.append(int(t))
    if cur:
        raise ValueError("unterminated item in executor output")
    return items


def pext(u, mask):
    r, k = 0, 0
    while mask:
        low = mask & -mask
        if u & low:
            r |= 1 << k
        k += 1
        mask ^= low
    return r


def coq_term(c, obs, profile):
    t = obs.split()
    op = c["op"]
    mk = mask_kind(c)
    if not t or t[0] != "R":
        # a panic (P) or a failed internal consistency check of the executor (F ...) is never a legal outcome for
        # these iterators: print an observation that no model output / spec admits
        if mk:
            t = ("R 1 1" if mk == "sub" else "R 0 0").split()
        elif op in NEXT_OPS:
            t = ["R", "1"]
        elif op in ITER_FULL or op == "ipp":
            t = ["R"]
        else:
            t = "R 0 0 0 0".split()
    if mk:
        w = WIDTH[c["ty"]]
        items = [int(v) for v in t[1:]]
        out = zl(items)
        pre = op in MASK_PRE
        if w > 16:
            # wide numerals are slow to parse: print each item by its bits at the free positions (Corr.v, unpack)
            free = c["x"] if mk == "sub" else ((1 << w) - 1) ^ c["x"]
            base = 0 if mk == "sub" else c["x"]
            if all((u & ~free) == base for u in items):
                idx = [pext(u, free) for u in items]
                if mk == "sup":
                    out = "(unpack_sup %d %d %s)" % (w, c["x"], zl(idx))
                elif pre and popcount(free) > 40:
                    top = (1 << popcount(free)) - 1        # items of a prefix are close to x: distance from the top reading
                    out = "(unpack_sub_top %d %s)" % (c["x"], zl([top - i for i in idx]))
                else:
                    out = "(unpack_sub %d %s)" % (c["x"], zl(idx))
        if pre:
            return "(%s %d %d %d %s)" % ("CSubPre" if mk == "sub" else "CSupPre", w, c["x"], c["k"], out)
        return "(%s %d %d %s)" % ("CSub" if mk == "sub" else "CSup", w, c["x"], out)
    if op in NEXT_OPS:
        return "(CNext %s %s %s)" % (zl_long(next_input(c)), "true" if t[1] == "1" else "false", zl_long(t[2:]))
    if op == "ipp" or (op == "ipg" and "k" in c):
        return "(CIterPre %s %d [%s])" % (zl(c["d"]), c["k"], ";".join(zl(it) for it in parse_ip(t[1:])))
    if op in ITER_FULL:
        return "(CIter %s [%s])" % (zl(c["d"]), ";".join(zl(it) for it in parse_ip(t[1:])))
    vals = t[1:]
    pairs = ["(%s,%s)" % (z(vals[k]), z(vals[k + 1])) for k in range(0, len(vals) - 1, 2)]
    return "(CNb %s %d %d %d %d [%s])" % ({"n4": "K4", "n4d": "K4d", "n8": "K8"}[NB_OPS[op]], c["n"], c["m"], c["i"], c["j"], ";".join(pairs))


def popcount(x):
    return bin(x).count("1")


def free_bits(c):
    w = WIDTH[c["ty"]]
    return popcount(c["x"]) if mask_kind(c) == "sub" else w - popcount(c["x"])


def nontrivial(c, obs):
    op = c["op"]
    if mask_kind(c):
        return free_bits(c) >= 2
    if op in NEXT_OPS or op in ITER_FULL or op == "ipp":
        d = next_input(c) if op in NEXT_OPS else c["d"]
        return len(d) >= 3 and (len(set(d)) < len(d) or d != sorted(d))
    return c["i"] in (0, c["n"] - 1) or c["j"] in (0, c["m"] - 1)


def classify(c, obs):
    op = c["op"]
    if obs == "P":
        return "%s/panic" % op
    if obs.startswith("F"):
        return "%s/executor-check-failed" % op
    if mask_kind(c):
        f = free_bits(c)
        return "%s/%s/free%s" % (op, c["ty"], f if f < 4 else ("4-7" if f < 8 else ("8-13" if f < 14 else "14+")))
    if op in NEXT_OPS or op in ITER_FULL or op == "ipp":
        d = next_input(c) if op in NEXT_OPS else c["d"]
        n = len(d)
        size = "len%d" % n if n <= 9 else ("len10-99" if n < 100 else ("len100-999" if n < 1000 else "len1000+"))
        kind = ("-" + c["kind"] if "kind" in c else "") + ("-take" if op == "ipg" and "k" in c else "")
        return "%s%s/%s/%s" % (op, kind, size, "dup" if len(set(d)) < n else "distinct")
    return "%s/%s" % (op, "interior" if 0 < c["i"] < c["n"] - 1 and 0 < c["j"] < c["m"] - 1 else "border")


# ----------------------------------------------------------------------------- generator
def mask_case(op, ty, free):
    """`free` = the bit pattern of the positions the iterator ranges over"""
    w = WIDTH[ty]
    full = (1 << w) - 1
    return {"op": op, "ty": ty, "x": free if op == "sub" else full ^ free}


def special_positions(w):
    return sorted({p for p in (0, 1, 7, 8, 15, 16, 31, 32, 62, 63, 64, 65, 126, 127, w // 2 - 1, w // 2, w - 2, w - 1) if p < w})


def gen_masks(rng, tier):
    cases = []
    for ty in ("u8", "i8"):
        for x in range(256):
            cases.append({"op": "sub", "ty": ty, "x": x})
            cases.append({"op": "sup", "ty": ty, "x": x})
    maxfree = 10 if tier == "quick" else 12
    # 16-bit
    if tier == "thorough":
        for free in range(1 << 16):
            if popcount(free) <= 6:
                ty = "u16" if (free * 2654435761 >> 7) & 1 else "i16"
                cases.append(mask_case("sub", ty, free))
                cases.append(mask_case("sup", ty, free))
    n16 = 60 if tier == "quick" else 600
    for _ in range(n16):
        k = rng.range(0, 10)
        pos = list(range(16))
        rng.shuffle(pos)
        free = sum(1 << p for p in pos[:k])
        if rng.chance(1, 2):
            free |= 1 << 15
            if popcount(free) > 10:
                free &= ~1
        for op in ("sub", "sup"):
            cases.append(mask_case(op, rng.choice(["u16", "i16"]), free))
    # wide types: corner masks for every type, then structured/random
    for ty in WIDE:
        w = WIDTH[ty]
        for free in (0, 1, 1 << (w - 1), (1 << (w - 1)) | 1, 3 << (w - 2), (1 << (w - 1)) | (1 << (w // 2)) | (1 << (w // 2 - 1)) | 1):
            for op in ("sub", "sup"):
                cases.append(mask_case(op, ty, free))
    nw = 400 if tier == "quick" else 5000
    for _ in range(nw):
        ty = rng.choice(WIDE)
        w = WIDTH[ty]
        kmax = rng.choice([2, 3, 4, 5, 6, 6, 8, maxfree])
        k = rng.range(0, kmax)
        sp = special_positions(w)
        pos = set()
        for _ in range(k):
            if rng.chance(1, 2):
                pos.add(rng.choice(sp))
            elif rng.chance(1, 3) and pos:
                q = rng.choice(sorted(pos)) + rng.choice([-1, 1])      # adjacent bits: carries / borrows run through them
                if 0 <= q < w:
                    pos.add(q)
            else:
                pos.add(rng.below(w))
        if rng.chance(1, 3):
            pos.add(w - 1)                                              # sign bit
        free = sum(1 << p for p in pos)
        op = rng.choice(["sub", "sup"])
        cases.append(mask_case(op, ty, free))
    # every wide (type, op): one mask with exactly 8 (thorough: maxfree) free bits at random positions
    for ty in WIDE:
        w = WIDTH[ty]
        for op in ("sub", "sup"):
            cases.append(mask_case(op, ty, random_mask(rng, w, 8 if tier == "quick" else maxfree)))
    # runs of adjacent free bits (long borrow / carry chains), crossing bits 31/32 and 63/64, ending at the sign bit
    for ty in WIDE:
        w = WIDTH[ty]
        for k in ((3, 7) if tier == "quick" else range(2, 11)):
            for sh in sorted({0, 28, 30, 60, 62, 120, w - k}):
                if sh + k <= w:
                    for op in ("sub", "sup"):
                        cases.append(mask_case(op, ty, ((1 << k) - 1) << sh))
    return cases + gen_mask_prefixes(rng, tier) + gen_mask_protocol(rng, tier)


def random_mask(rng, w, k):
    pos = list(range(w))
    rng.shuffle(pos)
    return sum(1 << q for q in pos[:k])


def gen_mask_prefixes(rng, tier):
    """take(k) of masks with many free bits (the full listing cannot be drained): all-ones / zero, popcounts around 32,
    64 and 128, contiguous low / high blocks, scattered bits; and on 8-bit types k around the full length"""
    cases = []
    quick = tier == "quick"
    for ty in WIDTH:
        w = WIDTH[ty]
        full = (1 << w) - 1
        frees = [full]
        for pc in (23, 31, 32, 33, 63, 64, 65, 127):
            if pc < w:
                frees += [(1 << pc) - 1, full ^ ((1 << (w - pc)) - 1), random_mask(rng, w, pc)]
        if quick and len(frees) > 1:
            frees = [full] + [rng.choice(frees[1:]) for _ in range(2)]
        for free in frees:
            for op in ("subp", "supp") if (not quick or free == full) else (rng.choice(["subp", "supp"]),):
                ks = [1, 2, 5, 300] if not quick else ([5, rng.choice([1, 2, 300])] if free == full else [rng.choice([2, 5, 300])])
                for k in ks:
                    cases.append({"op": op, "ty": ty, "x": free if op == "subp" else full ^ free, "k": k})
    # short listings: fewer items than asked for, exactly as many, one more
    for _ in range(40 if quick else 600):
        ty = rng.choice(["u8", "i8", "u8", "i8", "u16", "i16"] + WIDE)
        w = WIDTH[ty]
        free = rng.below(256) if w == 8 else random_mask(rng, w, rng.range(0, 6))
        op = rng.choice(["subp", "supp"])
        total = 1 << popcount(free)
        k = max(1, rng.choice([1, total - 1, total, total + 1, total + 7, rng.range(1, total)]))
        cases.append({"op": op, "ty": ty, "x": free if op == "subp" else ((1 << w) - 1) ^ free, "k": k})
    return cases


def gen_mask_protocol(rng, tier):
    """the same listings obtained through the rest of the Iterator protocol (subm/supm), with nested iterators
    (subnest/supnest) and with other iterators alive (subzip/supzip)"""
    cases = []
    quick = tier == "quick"

    def small_free(w, kmax):
        return rng.below(256) if w == 8 else random_mask(rng, w, rng.range(0, kmax))

    def fam_free(w, fam, kmax):
        free = small_free(w, min(kmax, 6) if fam == "nest" else kmax)
        return free & 0x3f if fam == "nest" and popcount(free) > 6 else free       # nested: 3^free inner items

    for ty in WIDTH:                                   # every instantiation at least once per op family
        for fam in ("m", "nest", "zip"):
            for kind in ("sub", "sup"):
                cases.append(proto_case(rng, kind + fam, ty, fam_free(WIDTH[ty], fam, 5)))
    for _ in range(30 if quick else 1500):
        ty = rng.choice(list(WIDTH))
        fam = rng.choice(["m", "m", "nest", "zip"])
        cases.append(proto_case(rng, rng.choice(["sub", "sup"]) + fam, ty, fam_free(WIDTH[ty], fam, 8)))
    return cases


def proto_case(rng, op, ty, free):
    w = WIDTH[ty]
    full = (1 << w) - 1
    c = {"op": op, "ty": ty, "x": free if op.startswith("sub") else full ^ free}
    if op.endswith("m"):
        total = 1 << popcount(free)
        c["k"] = rng.choice([0, 1, 2, total - 1, total, total + 1, rng.below(total + 1)])
        c["k"] = max(0, c["k"])
    if op.endswith("zip"):
        c["y"] = random_mask(rng, w, rng.range(0, 7))                       # its submasks are listed
        c["z"] = full ^ random_mask(rng, w, rng.range(0, 7))                # its supermasks are listed
    return c


def gen_perms(rng, tier):
    cases = []
    L = 5 if tier == "quick" else 7
    for n in range(0, L + 1):
        for d in itertools.product((0, 1, 2), repeat=n):
            cases.append({"op": "np", "d": list(d)})
            if n <= 3 or list(d) == sorted(d) or rng.chance(1, 8):   # the iterator sorts first: same output per multiset
                cases.append({"op": "ip", "d": list(d)})
    D = 5 if tier == "quick" else 6
    for n in range(2, D + 1):
        for d in itertools.permutations(range(1, n + 1)):
            cases.append({"op": "np", "d": list(d)})
    for n in range(2, (6 if tier == "quick" else 7) + 1):
        d = list(range(n, 0, -1))
        rng.shuffle(d)
        cases.append({"op": "ip", "d": d})
    if tier == "quick":
        for _ in range(40):
            d = list(range(1, 7))
            rng.shuffle(d)
            cases.append({"op": "np", "d": d})
    else:
        for d in itertools.permutations(range(1, 8)):
            if rng.chance(1, 4):
                cases.append({"op": "np", "d": list(d)})
        for _ in range(150):
            d = list(range(1, 9))
            rng.shuffle(d)
            cases.append({"op": "np", "d": d})
    # many duplicates, longer
    nd = 60 if tier == "quick" else 1500
    for _ in range(nd):
        n = rng.range(4, 9)
        a = rng.range(1, 4)
        alpha = rng.choice([[0, 1, 2, 3], [-1, 0, 1, 5], [-(1 << 63), -1, 0, (1 << 63) - 1], [7, 7, 8, 9]])[:max(1, a)]
        d = [rng.choice(alpha) for _ in range(n)]
        k = rng.below(4)
        if k == 0:
            d.sort(reverse=True)                      # last arrangement: wraps
        elif k == 1:
            t = rng.range(1, n - 1)                   # long non-increasing tail
            d = d[:t] + sorted(d[t:], reverse=True)
        cases.append({"op": "np", "d": d})
        if n <= 8 and rng.chance(1, 4):
            cases.append({"op": "ip", "d": d})
    return cases + gen_perms_long(rng, tier) + gen_perms_protocol(rng, tier) + gen_perms_types(rng, tier)


def long_shape(rng, n, shape):
    """sequences of length n >= 10 by the position of the pivot and the contents of the non-increasing tail"""
    alpha = rng.choice([[0, 1], [0, 1, 2], [-3, 0, 5, 9], list(range(12)), [-(1 << 63), 0, (1 << 63) - 1]])
    if shape == "pivot-front":            # pivot at index 0, tail with copies of the pivot value and values on both sides
        a = alpha[rng.below(len(alpha) - 1)]
        tail = sorted([rng.choice(alpha) for _ in range(n - 2)] + [alpha[-1]], reverse=True)
        return [a] + tail
    if shape == "pivot-end":
        return [rng.choice(alpha) for _ in range(n - 2)] + [alpha[0], alpha[1]]
    if shape == "pivot-middle":           # random prefix, pivot, long tail (> 16 where n allows) holding copies of the pivot
        t = rng.range(min(17, n - 2), max(min(17, n - 2), n - 2))
        a = alpha[rng.below(len(alpha) - 1)]
        tail = sorted([rng.choice(alpha) for _ in range(t - 3)] + [alpha[-1], a, a], reverse=True)
        return [rng.choice(alpha) for _ in range(n - 1 - len(tail))] + [a] + tail
    if shape == "all-equal":
        return [alpha[0]] * n
    if shape == "decreasing":             # last arrangement of n distinct values
        return list(range(n, 0, -1))
    if shape == "wrap-dup":               # last arrangement with repeated values
        return sorted([rng.choice(alpha) for _ in range(n)], reverse=True)
    if shape == "increasing":             # first arrangement of n distinct values
        return list(range(n))
    return [rng.choice(alpha) for _ in range(n)]           # "random"


LONG_SHAPES = ["pivot-front", "pivot-end", "pivot-middle", "all-equal", "decreasing", "wrap-dup", "increasing", "random"]


def giant_shape(rng, n, k):
    """length n in the tens of thousands: a long constant run, then a short tail with the pivot (the model reads the list
    by index, so the pivot must be near the end); printed run-length encoded"""
    tail = [[1, 2], [1, 5, 4, 3, 2, 2, 1], [2, 3, 3, 2, 1, 1], [0, 1] + [1] * 20 + [0] * 10, [5, 9, 9, 7, 5, 5, 5, 3] * 1][k % 5]
    return [rng.choice([0, 3])] * (n - len(tail)) + tail


def gen_perms_long(rng, tier):
    cases = []
    quick = tier == "quick"
    lengths = [10, 12, 16, 17, 18, 24, 33, 40, 63, 64, 65, 127, 128, 129, 255, 256, 257]
    for n in lengths:
        shapes = LONG_SHAPES if not quick else [LONG_SHAPES[(n + j) % len(LONG_SHAPES)] for j in range(3 if n < 100 else 2)]
        if quick and n in (18, 40, 257):
            shapes = shapes + ["pivot-middle"]
        for sh in shapes:
            for _ in range(1 if quick else 3):
                cases.append({"op": "np", "d": long_shape(rng, n, sh)})
    for sh in (["pivot-front", "wrap-dup"] if quick else LONG_SHAPES):
        d = long_shape(rng, 1000, sh)
        if sh in ("random", "pivot-end") :
            d = sorted(d[:990]) + d[990:]            # long runs: printed run-length encoded
        cases.append({"op": "np", "d": d})
    if not quick:
        for sh in ("pivot-front", "wrap-dup", "pivot-middle", "all-equal"):
            cases.append({"op": "np", "d": long_shape(rng, 4096, sh)})
        for n in (65535, 65536, 65537):
            for k in range(3):
                cases.append({"op": "np", "d": giant_shape(rng, n, rng.below(5))})
    else:
        cases.append({"op": "np", "d": giant_shape(rng, 65537, 1)})
    # prefixes of iter_permutations on inputs whose full listing cannot be drained
    for _ in range(5 if quick else 60):
        n = rng.range(9, 30)
        alpha = rng.choice([list(range(n)), [0, 1, 2, 3, 4, 5], [-2, 7], list(range(0, 4 * n, 3))])
        d = [rng.choice(alpha) for _ in range(n)]
        if len(set(d)) < 4:
            d[:4] = [11, 12, 13, 14]
        cases.append({"op": "ipp", "d": d, "k": rng.choice([50, 120, 500]) if not quick else rng.choice([30, 60, 200])})
    # short inputs: fewer items than asked for, exactly as many, one more, a single item
    for _ in range(25 if quick else 500):
        n = rng.range(0, 6)
        d = [rng.choice([0, 1, 2, 5]) for _ in range(n)]
        total = n_arrangements(d)
        cases.append({"op": "ipp", "d": d, "k": max(1, rng.choice([1, 2, total - 1, total, total + 1, total + 5]))})
    return cases


def gen_perms_protocol(rng, tier):
    cases = []
    quick = tier == "quick"
    for _ in range(25 if quick else 500):
        n = rng.range(0, 5 if quick else 6)
        d = [rng.choice([0, 1, 2, 3, 7, -4]) for _ in range(n)]
        total = n_arrangements(d)
        cases.append({"op": "ipm", "d": d, "k": max(0, rng.choice([0, 1, total - 1, total, total + 1, rng.below(total + 1)]))})
    for _ in range(15 if quick else 300):
        d1 = [rng.choice([0, 1, 2, 3]) for _ in range(rng.range(0, 5))]
        d2 = [rng.choice([0, 1, 2, 3]) for _ in range(rng.range(0, 5))]
        cases.append({"op": "ipzip", "d": d1, "d2": d2})
    return cases


def typed_values(rng, kind, n):
    if kind == "u8":
        return [rng.choice([0, 1, 2, 127, 128, 200, 255]) for _ in range(n)]
    if kind == "str":
        return [rng.choice([0, 1, 2, 9, 10, 99, 100, 99999]) for _ in range(n)]
    if kind == "tup":
        return [rng.choice([-9, -5, -4, -1, 0, 1, 3, 4, 5, 22]) for _ in range(n)]
    if kind == "unit":
        return [0] * n
    return [rng.choice([-(1 << 63), -7, 0, 1, 1, 2, 3, (1 << 63) - 1]) for _ in range(n)]


def gen_perms_types(rng, tier):
    """other element types (u8, String, tuples, a struct ordered by its key only, (), a clone/drop-counting type, arrays
    and boxed slices) and sub-slices &mut v[a..b]"""
    cases = []
    quick = tier == "quick"
    for kind in ("u8", "str", "tup", "key", "unit", "drop", "arr"):
        for r in range(12 if quick else 150):
            n = rng.range(0, 8) if r % 4 else rng.range(17, 70)
            d = typed_values(rng, kind, n)
            sh = rng.below(4)
            if sh == 0:
                d.sort(reverse=True)
            elif sh == 1 and n >= 3:
                t = rng.range(1, n - 1)
                d = d[:t] + sorted(d[t:], reverse=True)
            cases.append({"op": "npg", "kind": kind, "d": d})
    for kind in ("u8", "str", "tup", "drop"):
        for _ in range(4 if quick else 60):
            cases.append({"op": "ipg", "kind": kind, "d": typed_values(rng, kind, rng.range(0, 5))})
    # element types whose Ord / == ignores a part of the value (records ordered by a key, case-insensitive strings), equal
    # elements that differ in that part: every yielded vector must hold the input objects (checked in the executor)
    for kind in ("key", "keym", "ci"):
        for r in range(6 if quick else 80):
            n = rng.range(2, 5 if quick else 6)
            d = [rng.choice([0, 1, 2, 9, 100]) for _ in range(n)]
            if r % 3 != 2:
                d[rng.range(1, n - 1)] = d[0]                 # at least two equal elements
            cases.append({"op": "ipg", "kind": kind, "d": d})
        for r in range(2 if quick else 20):
            n = rng.range(7, 14)
            d = [rng.choice([0, 1, 2, 3, 9]) for _ in range(n)]
            if r % 2 == 0:
                d.sort(reverse=True)
            total = n_arrangements(d)
            cases.append({"op": "ipg", "kind": kind, "d": d, "k": min(rng.choice([1, 2, 7, 40]), total + 1)})
    for r in range(30 if quick else 500):
        n = rng.range(0, 12)
        d = [rng.choice([0, 1, 2, 3, 9]) for _ in range(n)]
        a = rng.range(0, n)
        b = rng.range(a, n)
        if r % 3 == 0 and b < n and b - a >= 2:
            # the scan for the swap partner runs to the end of the range: what follows the range is larger than everything
            d[a:b] = [d[a]] + sorted(d[a + 1:b], reverse=True)
            d[b] = 100
        cases.append({"op": "npsub", "a": a, "b": b, "d": d})
    return cases


def gen_nb(rng, tier):
    cases = []
    ops = ("n4", "n4d", "n8")
    for n in range(1, 7):
        for m in range(1, 7):
            for i in range(n):
                for j in range(m):
                    for op in ops:
                        cases.append({"op": op, "n": n, "m": m, "i": i, "j": j})
    for op in ops:
        for (n, m, i, j) in [(0, 0, 0, 0), (0, 5, 0, 2), (5, 0, 2, 0), (1, 1, 0, 0), (3, 3, 3, 1), (3, 3, 1, 3), (3, 3, 3, 3),
                             (3, 3, 4, 1), (2, 2, 5, 5), (1, 2, 1, 2)]:
            cases.append({"op": op, "n": n, "m": m, "i": i, "j": j})
        for k in range(1, 11):
            for j in range(k):
                cases.append({"op": op, "n": 1, "m": k, "i": 0, "j": j})
                cases.append({"op": op, "n": k, "m": 1, "i": j, "j": 0})
        big = (1 << 62)
        for (n, m) in [(big, big), (big, 3), (2, big), (10 ** 9, 10 ** 9)]:
            for (i, j) in [(0, 0), (n - 1, m - 1), (0, m - 1), (n - 1, 0), (n // 2, m // 2), (n - 1, m // 2)]:
                cases.append({"op": op, "n": n, "m": m, "i": i, "j": j})
    ns = 50 if tier == "quick" else 2000
    for _ in range(ns):
        n, m = rng.range(1, 12), rng.range(1, 12)
        cases.append({"op": rng.choice(ops), "n": n, "m": m, "i": rng.range(0, n), "j": rng.range(0, m)})
    quick = tier == "quick"
    # popular board sizes: every cell
    for (n, m) in ([(8, 8)] if quick else [(a, b) for a in range(1, 10) for b in range(1, 10) if a > 6 or b > 6]):
        for i in range(n):
            for j in range(m):
                for op in ops:
                    cases.append({"op": op, "n": n, "m": m, "i": i, "j": j})
    for (n, m) in [(9, 9), (7, 9), (16, 16), (16, 9)]:
        border = [(i, j) for i in range(n) for j in range(m) if i in (0, n - 1) or j in (0, m - 1)]
        inner = [(rng.range(1, n - 2), rng.range(1, m - 2)) for _ in range(4 if quick else 20)]
        for (i, j) in (border if not quick else [border[k] for k in range(0, len(border), 5)]) + inner:
            cases.append({"op": rng.choice(ops) if quick else ops[(i + j) % 3], "n": n, "m": m, "i": i, "j": j})
    # sizes around powers of two (narrowing casts, table sizes)
    sizes = [255, 256, 257, 65535, 65536, 65537, (1 << 31) - 1, 1 << 31, 1 << 32, (1 << 32) + 1, (1 << 63) - 1]
    pairs = [(a, a) for a in sizes] + [(sizes[k], sizes[(k + 3) % len(sizes)]) for k in range(len(sizes))] + [(3, sizes[-1]), (sizes[-1], 2)]
    for (n, m) in pairs:
        cells = [(n - 1, m - 1), (n - 2, 1), (0, m - 1), (n - 1, 0), (n // 2, m // 2), (n - 1, m // 2), (n, m - 1)]
        for (i, j) in cells:
            if i < 0 or j < 0 or i >= (1 << 63) - 1 or j >= (1 << 63) - 1:
                continue
            for op in (ops if not quick else [rng.choice(ops)]):
                cases.append({"op": op, "n": n, "m": m, "i": i, "j": j})
    # the same observations through the rest of the Iterator protocol, a second iterator polled in turn
    mops = ("n4m", "n4dm", "n8m")
    for (n, m) in [(1, 1), (3, 3), (2, 5)] + ([] if quick else [(4, 4), (1, 6), (5, 3)]):
        for i in range(n):
            for j in range(m):
                for op in mops:
                    cases.append({"op": op, "n": n, "m": m, "i": i, "j": j, "k": rng.range(0, 9)})
    for _ in range(30 if quick else 600):
        n, m = rng.choice([0, 1, 2, 3, 8, 12, 256, 1 << 40]), rng.choice([0, 1, 2, 3, 8, 12, 256, 1 << 40])
        if n * m <= 400:                                  # the specification counts over all cells of such a grid
            n, m = min(n, 12), min(m, 12)
        i = rng.choice([0, 1, max(n - 1, 0), n, n // 2])
        j = rng.choice([0, 1, max(m - 1, 0), m, m // 2])
        cases.append({"op": rng.choice(mops), "n": n, "m": m, "i": i, "j": j, "k": rng.range(0, 9)})
    return cases


def generate(rng, tier):
    cases = gen_masks(rng.fork("masks"), tier) + gen_perms(rng.fork("perms"), tier) + gen_nb(rng.fork("nb"), tier)
    # the expensive cases (long listings) come in blocks: deal the cases out so that every batch file gets its share
    lanes = 4 if tier == "quick" else 48
    return [cases[i] for lane in range(lanes) for i in range(lane, len(cases), lanes)]


# ----------------------------------------------------------------------------- shrinking
def shrink(c):
    out = []
    op = c["op"]
    mk = mask_kind(c)
    if mk:
        w = WIDTH[c["ty"]]
        full = (1 << w) - 1
        free = c["x"] if mk == "sub" else full ^ c["x"]

        def with_free(ty, f):
            return dict(c, ty=ty, x=f if mk == "sub" else ((1 << WIDTH[ty]) - 1) ^ f)

        if op in MASK_FULL and op != mk and free_bits(c) <= 16:
            out.append({"op": mk, "ty": c["ty"], "x": c["x"]})             # the plain listing of the same mask
        if "k" in c:
            for k2 in sorted({c["k"] // 2, c["k"] - 1}):
                if (1 if op in MASK_PRE else 0) <= k2 < c["k"]:
                    out.append(dict(c, k=k2))
        for q in range(w):
            if free >> q & 1:
                out.append(with_free(c["ty"], free & ~(1 << q)))
        if op not in ("subzip", "supzip"):
            if c["ty"] not in ("u8", "i8") and free < 256:
                out.append(with_free("i8" if c["ty"][0] == "i" else "u8", free))
            if c["ty"][0] == "i":
                out.append(dict(c, ty="u" + c["ty"][1:]))
        else:
            for key in ("y", "z"):
                for q in range(w):
                    v = c[key] ^ (1 << q)
                    if (key == "y" and v < c[key]) or (key == "z" and v > c[key]):
                        out.append(dict(c, **{key: v}))
        return out
    if op in NEXT_OPS or op in ITER_FULL or op == "ipp":
        d = c["d"]
        if op == "npsub":
            out.append({"op": "np", "d": next_input(c)})
            for k in range(len(d)):
                a, b = c["a"], c["b"]
                out.append(dict(c, d=d[:k] + d[k + 1:], a=a - (1 if k < a else 0), b=b - (1 if k < b else 0)))
            return out
        if op == "ipg" and "k" in c:
            out.append({"op": "ipp", "d": d, "k": c["k"]})                   # the plain prefix on Vec<i64>
            for k2 in sorted({c["k"] // 2, c["k"] - 1}):
                if 1 <= k2 < c["k"]:
                    out.append(dict(c, k=k2))
        elif op in ("npg", "ipm", "ipzip", "ipg") and not (op == "npg" and c["kind"] == "unit"):
            out.append({"op": "np" if op == "npg" else "ip", "d": d})        # the plain op on Vec<i64>
        if op == "ipp":
            for k2 in sorted({c["k"] // 2, c["k"] - 1}):
                if 1 <= k2 < c["k"]:
                    out.append(dict(c, k=k2))
        if op == "ipzip":
            for k in range(len(c["d2"])):
                out.append(dict(c, d2=c["d2"][:k] + c["d2"][k + 1:]))
        n = len(d)
        if n > 2000:
            # very long sequences: only cuts that keep the end of the sequence (the model reads the list by index: a
            # long non-increasing candidate costs n^2 steps)
            for cut in (d[n // 2:], d[n // 4:], d[n // 8:], d[n // 16:], d[1:], d[:1] + d[2:]):
                out.append(dict(c, d=cut))
            return out
        if n > 60:
            # long sequences: few, large steps (every candidate costs an executor run and a Coq evaluation)
            for cut in (d[n // 2:], d[n // 4:], d[n // 8:], d[:n // 2], d[:n - n // 4], d[:n // 4] + d[n - n // 4:]):
                out.append(dict(c, d=cut))
            for k in (0, 1, n // 2, n - 2, n - 1):
                out.append(dict(c, d=d[:k] + d[k + 1:]))
            return out
        for k in range(n):
            out.append(dict(c, d=d[:k] + d[k + 1:]))
        vals = sorted(set(d))
        ranked = [vals.index(v) for v in d]
        if ranked != d and not ("kind" in c and c["kind"] in ("u8", "str")):
            out.append(dict(c, d=ranked))
        return out
    if op in ("n4m", "n4dm", "n8m"):
        out.append({"op": NB_OPS[op], "n": c["n"], "m": c["m"], "i": c["i"], "j": c["j"]})
    for key in ("n", "m", "i", "j") + (("k",) if "k" in c else ()):
        v = c[key]
        for w in {v // 2, v - 1}:
            if 0 <= w < v:
                out.append(dict(c, **{key: w}))
    return out


# ----------------------------------------------------------------------------- implementation-level search
def extra(ctx, known):
    """Exhaustive 16-bit masks and large wide masks, checked inside the executor (items are not printed): count =
    2^free, every item a sub/supermask, strictly monotone, first = x, last = 0 / all-ones.  These are consequences of
    c15_submasks_enumeration / c15_supermasks_enumeration / c15_*_count observed directly on the implementation; a
    failure is replayed as an ordinary case (full output, model and specification in Coq).  Every search runs in
    every build profile."""
    import _driver
    rng = _driver.Rng(ctx.seed).fork("C15-extra")
    quick = ctx.tier == "quick"
    cases = []
    for ty in ("u16", "i16"):
        for x in range(1 << 16):
            cases.append({"op": "sub", "ty": ty, "x": x})
            cases.append({"op": "sup", "ty": ty, "x": x})
    kmax = 18 if quick else 21
    big = []
    for ty in WIDE:                                   # every wide (type, op): at least two big masks
        w = WIDTH[ty]
        for op in ("sub", "sup"):
            for r in range(2 if quick else 20):
                k = rng.range(11, kmax)
                if r % 2:                             # scattered bits, sometimes with the sign bit
                    free = random_mask(rng, w, k) | (1 << (w - 1) if rng.chance(1, 2) else 0)
                else:                                 # a run of adjacent bits placed across a limb boundary / at the top
                    sh = rng.choice(sorted({q for q in (0, 20, 24, 28, 50, 56, 60, 118, w - k) if 0 <= q <= w - k}))
                    free = ((1 << k) - 1) << sh
                big.append(mask_case(op, ty, free))
    for _ in range(8 if quick else 80):
        ty = rng.choice(WIDE)
        big.append(mask_case(rng.choice(["sub", "sup"]), ty, random_mask(rng, WIDTH[ty], rng.range(11, kmax))))
    cases += big
    # release only (thorough): the complete listings for the 32-bit all-ones / zero masks (2^32 items each), 24-28 free
    # bits on the 64- and 128-bit types
    huge = []
    if not quick and "release" in PROFILES:
        huge = [{"op": "sub", "ty": "u32", "x": (1 << 32) - 1}, {"op": "sup", "ty": "i32", "x": 0}]
        for ty in ("u64", "i64", "u128", "i128", "usize", "isize"):
            w = WIDTH[ty]
            k = rng.range(24, 28)
            huge.append(mask_case("sub", ty, random_mask(rng, w, k) | (1 << (w - 1))))
            huge.append(mask_case("sup", ty, ((1 << k) - 1) << rng.choice([0, 30, 50, w - k])))
    bad, items, nrun = [], 0, 0
    for profile in PROFILES:
        pcs = cases + (huge if profile == "release" else [])
        lines = ["%sck %s %d %d" % (c["op"], c["ty"], c["x"], (1 << free_bits(c)) + 1) for c in pcs]
        outs = _driver.run_impl(ctx.bins[profile], lines)
        nrun += len(pcs)
        for c, o in zip(pcs, outs):
            t = o.split()
            w = WIDTH[c["ty"]]
            want_last = 0 if c["op"] == "sub" else (1 << w) - 1
            good = (len(t) == 5 and t[0] == "K" and int(t[1]) == 1 << free_bits(c) and t[2] == "1"
                    and t[3] == str(c["x"]) and t[4] == str(want_last))
            items += int(t[1]) if len(t) == 5 and t[1].isdigit() else 0
            if not good:
                bad.append((c, o, profile))
    # permutations of 7 and 8 distinct elements (itertools.permutations of a sorted input is the lexicographic listing)
    pbad, pcount = [], 0
    for profile in PROFILES:
        for n in (7, 8):
            listing = [list(q) for q in itertools.permutations(range(1, n + 1))]
            plines = ["np " + " ".join(map(str, q)) for q in listing]
            pouts = _driver.run_impl(ctx.bins[profile], plines)
            pcount += len(plines)
            for k, (q, o) in enumerate(zip(listing, pouts)):
                want = "R 1 " + " ".join(map(str, listing[k + 1])) if k + 1 < len(listing) else "R 0 " + " ".join(map(str, listing[0]))
                if o.strip() != want:
                    pbad.append(({"op": "np", "d": q}, o, profile))
            d0 = list(range(n, 0, -1))
            for op in ("ip", "ipm"):
                line = "ip %d %s" % (len(listing) + 1, " ".join(map(str, d0))) if op == "ip" else \
                       "ipm %d %d %s" % (len(listing) + 1, 1000, " ".join(map(str, d0)))
                o = _driver.run_impl(ctx.bins[profile], [line])[0]
                pcount += 1
                if o.strip() != "R " + " ".join(" ".join(map(str, q)) + " ;" for q in listing):
                    pbad.append(({"op": op, "d": d0, "k": 1000}, o[:200], profile))
    cov_perm = {"what": "next_permutation on every permutation of 7 and of 8 distinct elements and iter_permutations on both sets "
                        "(plain and through the Iterator-protocol op), compared with itertools.permutations of the sorted input "
                        "(the lexicographic listing); every build profile",
                "cases": pcount, "failures": len(pbad)}
    cov = {"impl_search_permutations": cov_perm,
           "impl_search": {"what": "every u16 and i16 mask (both iterators) and %d masks of the wider types with 11-%d free "
                                   "bits (at least two per type and iterator; scattered bits and runs of adjacent bits), in "
                                   "every build profile%s, checked in the executor: count = 2^free, all items "
                                   "sub/supermasks, strictly monotone, first = x, last = 0 / all-ones"
                                   % (len(big), kmax, "" if quick else "; release only: the complete 2^32-item listings of "
                                      "iter_submasks(u32::MAX) and iter_supermasks(0i32) and %d masks with 24-28 free bits" % (len(huge) - 2)),
                           "cases": nrun, "items_iterated": items, "failures": len(bad)}}
    viol = []
    if bad:
        bad.sort(key=lambda co: (free_bits(co[0]), WIDTH[co[0]["ty"]]))
        c, o, profile = bad[0]
        payload = {"case": c, "impl_summary": o, "profile": profile,
                   "what": "implementation-level search: the iterator's output on this mask has the wrong length, is not "
                           "strictly monotone, contains a non-sub/supermask or has the wrong end points "
                           "(summary line: K count ok first last)", "other_failing_cases": len(bad) - 1}
        viol.append({"name": "impl-%s-%s-%d" % (c["op"], c["ty"], c["x"]), "payload": payload, "nofail": False})
    if pbad:
        c, o, profile = pbad[0]
        viol.append({"name": "impl-%s-%s" % (c["op"], "-".join(map(str, c["d"]))),
                     "payload": {"case": c, "impl_observation": o, "profile": profile, "other_failing_cases": len(pbad) - 1,
                                 "what": "implementation-level search: not the lexicographic successor / listing of this sequence"},
                     "nofail": False})
    return {"coverage": cov, "violations": viol, "known": []}


MANIFEST = {
    "text": "Theorems (Coq, no axioms, 30 pinned) about an executable Gallina model of rlib_iter: sub/supermask iterators "
            "as from_fn(step).chain([last]) over bit patterns of width w, next_permutation transcribed index by index on "
            "list Z, iter_permutations, the three neighbour iterators. Masks, every width w <= 128 (signed types through "
            "their bit pattern): c15_submask_succ / c15_supermask_succ ((s-1)&x is the greatest submask below s; (s+1)|x "
            "the least supermask above), c15_mask_stop, c15_submasks_enumeration / c15_supermasks_enumeration "
            "(terminates; exactly the sub/supermasks, strictly decreasing to 0 / increasing to all-ones, each once), "
            "c15_submasks_filter / c15_supermasks_filter, c15_masks_terminate, c15_submasks_count / c15_supermasks_count; "
            "take(k) is the first k items (c15_submasks_take / c15_supermasks_take) and, for every width, has the closed form "
            "i-th submask = deposit x (2^popcount x - 1 - i), i-th supermask = x + deposit (~x) i "
            "(c15_submasks_take_closed / c15_supermasks_take_closed). "
            "Permutations with repeated elements: c15_next_perm_is_permutation, c15_next_perm_greater, "
            "c15_next_perm_minimal (it IS the lexicographic successor: nothing strictly between), c15_next_perm_wrap "
            "(false exactly on non-increasing input, which is left sorted), c15_next_perm_direct / "
            "c15_spec_next_direct_agrees (the enumeration-free description of the successor used for long sequences - pivot "
            "position, least greater element of the non-increasing rest, sorted tail - holds exactly of the model's result and "
            "accepts exactly what the brute-force successor-in-the-listing specification accepts), c15_iter_permutations "
            "(starts sorted, strictly increasing, consecutive successors, complete) with c15_sorted_listing_unique, "
            "c15_iter_permutations_enumerated (= the directly enumerated list of distinct arrangements) and "
            "c15_iter_permutations_take, finite "
            "cross-checks c15_*_small. Neighbours: c15_neighbours_4 / _4d / _8 (the fixed offset order filtered by the "
            "bounds; membership iff in-grid and adjacent; no repetition). c15_model_implies_spec. The model is tied to "
            "the code on every run: the executor collects the real iterators' output (12 integer types; Vec<i64> and six other "
            "element types, sub-slices, arrays; grids; full listings, take(k) prefixes, sequences up to 65537 elements; plain "
            "next() and the rest of the Iterator protocol, nested and interleaved iterators) "
            "and Coq proves model = implementation and implementation |= specification (brute force where feasible, closed "
            "form / direct successor description beyond) on every case.",
    "level_note": "Trusted: Coq kernel + vm_compute; the Rust executor and the Python case printer; w-bit integers are bit patterns "
                  "in N, usize->isize casts are the identity (sizes below 2^63); theorems are about the model, the correspondence "
                  "is exhaustive for 8-bit masks / short sequences / small grids and sampled beyond.",
    "technique": "Coq proof over Gallina model + vm_compute correspondence batches against the Rust crate",
}
