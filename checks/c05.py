"""C05 — disjoint-set union (rlib/dsu): connectivity, union results, sizes, representatives, log depth."""
import subprocess

ID = "C05"
CRATE = "c05"
COQ_DIR = "C05"
COQ_DEPS = []
PROFILES = ["debug", "release"]
CORR_IMPORT = "From RlibV Require Import C05.Model C05.Corr."
AUDIT_IMPORT = ("From Coq Require Import List Arith NArith Bool.\nImport ListNotations.\n"
                "From RlibV Require Import C05.Model C05.Spec C05.Corr C05.Properties.")
EXPLAIN = "explain"
AXIOM_ALLOW = []
SHARD = 1500
SEARCH_MAX = 2500
THEOREMS = [
    ('c05_reset_is_new',
     'forall (s : dsu) (n : nat), reset s n = Ok (new n)'),
    ('c05_reset_refused',
     'forall (s : dsu) (m : N), (9223372036854775807 < m * 8)%N -> step s (Reset m) = Panic /\\ panic_state s (Reset m) = s'),
    ('c05_reset_granted',
     'forall (s : dsu) (m : N), (m * 8 <= 9223372036854775807)%N -> step s (Reset m) = Ok (new (N.to_nat m), RU)'),
    ('c05_inv_preserved',
     "(forall n, Inv n [] (new n)) /\\ (forall n es s o s' r, Inv n es s -> step s o = Ok (s', r) -> Inv (ghost_n n o) (ghost_es es o) s')"),
    ('c05_reach_inv',
     'forall n es s, reach n es s -> Inv n es s'),
    ('c05_history_reach',
     'forall n0 ops s rs, run (new n0) ops = Ok (s, rs) -> reach (fst (ghost_run n0 [] ops)) (snd (ghost_run n0 [] ops)) s'),
    ('c05_history_no_fuel',
     'forall n0 ops, run (new n0) ops <> Fuel'),
    ('c05_no_fuel_exhaustion',
     'forall n es s o, reach n es s -> step s o <> Fuel'),
    ('c05_panic_iff_out_of_range',
     'forall n es s o, reach n es s -> (step s o = Panic <-> in_range n o = false)'),
    ('c05_panic_state_reachable',
     'forall n es s o, reach n es s -> reach n es (panic_state s o)'),
    ('c05_partition',
     "forall n es s u v, reach n es s -> u < n -> v < n -> exists s' b, step s (Check u v) = Ok (s', RB b) /\\ (b = true <-> conn es u v)"),
    ('c05_un_true_iff_joined',
     "forall n es s u v, reach n es s -> u < n -> v < n -> exists s' b, step s (Un u v) = Ok (s', RB b) /\\ (b = true <-> ~ conn es u v)"),
    ('c05_size_is_cardinality',
     "forall n es s v, reach n es s -> v < n -> exists s' k, step s (Size v) = Ok (s', RN k) /\\ class_card n es v k"),
    ('c05_class_card_unique',
     "forall n es v k k', class_card n es v k -> class_card n es v k' -> k = k'"),
    ('c05_par_representative',
     "forall n es s, reach n es s -> (forall v, v < n -> exists r, par_val s v = Some r /\\ r < n /\\ conn es v r) /\\ (forall u v, u < n -> v < n -> (conn es u v <-> par_val s u = par_val s v)) /\\ (forall o s' x, is_lookup o = true -> step s o = Ok (s', x) -> forall v, v < n -> par_val s' v = par_val s v)"),
    ('c05_depth_log',
     "forall n es s v, reach n es s -> v < n -> exists r k c, chain (p s) v r k /\\ class_card n es v c /\\ nth r (sz s) 0 = c /\\ (forall r' k', chain (p s) v r' k' -> r' = r /\\ 2 ^ k' <= c /\\ k' <= Nat.log2 c)"),
    ('c05_stack_depth',
     'forall n es s v c, reach n es s -> v < n -> class_card n es v c -> par_rec (S (Nat.log2 c)) (p s) v = par_rec (par_fuel (p s)) (p s) v /\\ exists x, par_rec (S (Nat.log2 c)) (p s) v = Ok x'),
    ('c05_clone_copies_reachable',
     'forall cs, mreach cs -> Forall (fun s => exists n es, reach n es s) cs'),
    ('c05_model_check_implies_spec_check',
     'forall c : case, model_check c = true -> spec_check c = true'),
]
RULE = ("histories of 0-160 calls on 0-65 elements over up to 7 live copies: un / par / check / size / reset (growing, "
        "shrinking, from and to 0, 300+ resets of one value) / clone / clone_from (over a value of another length and "
        "history; must equal a clone), random and adversarial union orders (binomial trees joined root to root, chains in "
        "both directions, stars) on every size up to 24 and around 32 and 64, continued by: lookups of the deepest "
        "element by every kind of call, clone + lookups on both, reset + second build, clone_from, several copies; "
        "out-of-range calls of every kind and argument shape ((bad,bad) equal / distinct, (good,bad), (bad,good); bad = "
        "len+0..7, 2*len, 2^k and 2^k+good for k = 8,16,31,32,63, 2^32-1, 2^63-1, 2^64-2, 2^64-1) on fresh values, "
        "after a shrinking reset, on clones and on uncompressed deep forests: the call must panic, the history goes on "
        "and the arrays it left behind are compared (un / check have compressed the path of an in-range first "
        "argument); reset(n) whose buffer request is refused ('capacity overflow': n = 2^60, 2^60+1, 2^60+len, 2^61+5, "
        "2^62, 2^63-1, 2^63, 2^63+len, 2^64-1-len, 2^64-2, 2^64-1; never a value between 2^32 and 2^60, which would "
        "really allocate) on copies with a union history, after a shrinking reset, on clones of deep forests, on "
        "uncompressed forests, on clone_from results, on empty / one-element / union-free values and after adversarial "
        "builds: the call must panic and leave both arrays as they were, then the size of every element, lookups, "
        "further unions, refused resets in a row, clones, a granted reset + second build; clone_from over a value "
        "that went through a refused reset (= a clone); executor cross-checks: Debug renderings after reset = those "
        "of new(n), of a clone / clone_from target = those of the source, unchanged by a reset / par / size that "
        "panicked; non-trivial = at least 3 joining unions on a copy and a lookup on it afterwards")
TRUSTED = ["executor harness/crates/c05 (drives rlib_dsu::DSU, prints return values and the arrays read through verif_raw; "
           "catches the unwind of a panicking call and goes on; compares Debug renderings)",
           "checks/c05.py (history generator, Coq term printer; element indices above every element count of the history "
           "are written into the Coq term as min(index, 4095): the executor receives the real value)",
           "hook rlib_dsu::DSU::verif_raw (cargo feature verif): read-only view of p and sz"]
ASSUMPTIONS = ["Vec<usize> modelled as list nat, usize arithmetic as nat (sizes are bounded by the element count, no overflow)",
               "the value a panicking call leaves behind is modelled by panic_state (Model.v): un / check have completed "
               "the find of their first argument when it is in range, every other panicking call has written nothing - "
               "the only panics reachable from a reachable state are the bounds check of the first access of a find "
               "and the refused buffer request of a reset (c05_panic_iff_out_of_range, c05_reset_refused); what is left "
               "behind is a reachable value of the same history (c05_panic_state_reachable)",
               "reset(n) is refused ('capacity overflow' panic of the first resize, before any write) exactly when n * 8 "
               "exceeds isize::MAX = 2^63-1 (64-bit target, 8-byte usize; the amortised doubling of the old capacity "
               "never exceeds n there); a reset with n < 2^60 that the allocator cannot serve aborts the process and is "
               "outside the model (never generated: the executor refuses reset arguments in 2^32 .. 2^60)",
               "the recursion of par is modelled with fuel = number of elements + 1; the theorems exclude running out of fuel "
               "(c05_no_fuel_exhaustion, c05_history_no_fuel) and bound the recursion depth by log2(class size) + 1 frames "
               "(c05_stack_depth, c05_depth_log)",
               "the stack size of the real process is not modelled: the claim is the frame count (the implementation-only "
               "search runs its deep lookups on a thread with a 256 KiB stack)"]

OPS = {"u": 2, "k": 2, "p": 1, "s": 1, "r": 1, "c": 0, "f": 2, "g": 2}
ELEM_OPS = ("u", "k", "p", "s")          # ops whose arguments are element indices
U64 = 1 << 64
REFUSED = 1 << 60                        # reset(n), n >= 2^60: n * 8 bytes > isize::MAX, 'capacity overflow' before any
                                         # allocation.  NEVER generate a reset between 2^32 and 2^60: it would really
                                         # allocate (the executor refuses such a line)


# ----------------------------------------------------------------------------- executor / Coq printing
def harness_line(c):
    toks = ["h", str(c["n"])]
    for o in c["ops"]:
        toks += [o[0]] + [str(x) for x in o[1:]]
    return " ".join(toks)


def parse_obs(obs):
    """-> (list of (ret, snap|None), finals|None); ret in 'T','F','N<k>','U','P','X...'"""
    t = obs.split()
    i, out, finals = 0, [], None

    def arrays(i):
        assert t[i] == "["
        j = t.index("|", i)
        k = t.index("]", j)
        return ([int(x) for x in t[i + 1:j]], [int(x) for x in t[j + 1:k]]), k + 1

    while i < len(t):
        tok = t[i]
        if tok == "E":
            finals = []
            i += 1
            while i < len(t):
                a, i = arrays(i)
                finals.append(a)
            break
        i += 1
        sn = None
        if i < len(t) and t[i] == "[":
            sn, i = arrays(i)
        out.append((tok, sn))
    return out, finals


def num(x):
    x = int(x)
    return "d%d" % x if x < 64 else "%d%%N" % x


def nl(xs):
    return "[" + ";".join(num(x) for x in xs) + "]"


def snap_term(a):
    return "(%s,%s)" % (nl(a[0]), nl(a[1]))


def index_cap(c):
    """Element indices are passed to the executor as they are (up to 2^64-1) but written into the Coq term as
    min(index, cap) with cap above every element count that occurs in the history: the model converts indices to
    unary numbers, and an index at or above the element count is out of range whatever its value."""
    return max([4095, c["n"]] + [o[2] for o in c["ops"] if o[0] == "r" and o[2] < REFUSED]
               + [o[3] - 1 for o in c["ops"] if o[0] == "f"])


def op_term(o, cap):
    k = o[0]
    if k in ("f", "g"):  # a copy made through clone_from must be indistinguishable from a clone of the source
        return "NClone %s" % num(o[1])
    name = {"u": "NUn", "k": "NCheck", "p": "NPar", "s": "NSize", "r": "NReset", "c": "NClone"}[k]
    args = [min(x, cap) for x in o[2:]] if k in ELEM_OPS else o[2:]
    return "%s %s" % (name, " ".join(num(x) for x in [o[1]] + list(args)))


def coq_term(c, obs, profile):
    rets, finals = parse_obs(obs)
    cap = index_cap(c)
    os_ = []
    for tok, sn in rets:
        if tok == "T":
            r = "OB true"
        elif tok == "F":
            r = "OB false"
        elif tok == "U":
            r = "OU"
        elif tok == "P":
            r = "OP"
        elif tok.startswith("X"):
            r = "OX"
        else:
            r = "ON %s" % num(tok[1:])
        os_.append("(%s,%s)" % (r, "None" if sn is None else "Some %s" % snap_term(sn)))
    return "(mkcase %s [%s] [%s] [%s])" % (
        num(c["n"]), ";".join(op_term(o, cap) for o in c["ops"]), ";".join(os_),
        ";".join(snap_term(a) for a in (finals or [])))


def nontrivial(c, obs):
    rets, _ = parse_obs(obs)
    joins, after = {}, False
    for o, (tok, _) in zip(c["ops"], rets):
        cp = o[1]
        if o[0] == "u" and tok == "T":
            joins[cp] = joins.get(cp, 0) + 1
        elif o[0] == "r":
            if tok != "P":                  # a refused reset leaves the unions in place
                joins[cp] = 0
        elif joins.get(cp, 0) >= 3 and o[0] in ("k", "p", "s") and tok != "P":
            after = True
    return after


def classify(c, obs):
    kinds = {o[0] for o in c["ops"]}
    n = c["n"]
    size = "n0" if n == 0 else ("n1-4" if n <= 4 else ("n5-12" if n <= 12 else ("n13-24" if n <= 24 else "n25-65")))
    tags = [c.get("fam", "random"), size]
    if "r" in kinds:
        tags.append("reset")
    if "c" in kinds:
        tags.append("clone")
    if "f" in kinds or "g" in kinds:
        tags.append("clone_from")
    if "g" in kinds or any(o[0] == "r" and o[2] >= REFUSED for o in c["ops"]):
        tags.append("reset-refused")
    toks = obs.split()
    if "P" in toks:
        tags.append("panic" if toks[toks.index("P") + 1:toks.index("P") + 2] == ["E"] else "panic+continued")
    return "/".join(tags)


# ----------------------------------------------------------------------------- generator
class PD:
    """the generator's own forest (bookkeeping only: which elements are deep, which are roots; never an oracle)"""

    def __init__(self, n):
        self.p = list(range(n))
        self.sz = [1] * n

    def par(self, v):
        path = []
        while self.p[v] != v:
            path.append(v)
            v = self.p[v]
        for x in path:
            self.p[x] = v
        return v

    def un(self, u, v):
        u, v = self.par(u), self.par(v)
        if u == v:
            return
        if self.sz[u] > self.sz[v]:
            u, v = v, u
        self.sz[v] += self.sz[u]
        self.p[u] = v

    def depth(self, v):
        d = 0
        while self.p[v] != v:
            v = self.p[v]
            d += 1
        return d

    def copy(self):
        d = PD(0)
        d.p, d.sz = list(self.p), list(self.sz)
        return d


class Hist:
    """a history under construction: the ops and the generator's forests of the live copies"""

    def __init__(self, n, fam):
        self.n0, self.fam, self.cp, self.ops = n, fam, [PD(n)], []

    def len(self, c):
        return len(self.cp[c].p)

    def _finds(self, c, args):
        d = self.cp[c]
        for a in args:                       # a call stops at its first out-of-range find
            if a >= len(d.p):
                return False
            d.par(a)
        return True

    def un(self, c, a, b):
        self.ops.append(["u", c, a, b])
        if self._finds(c, [a, b]):
            self.cp[c].un(a, b)

    def check(self, c, a, b):
        self.ops.append(["k", c, a, b])
        self._finds(c, [a, b])

    def par(self, c, v):
        self.ops.append(["p", c, v])
        self._finds(c, [v])

    def size(self, c, v):
        self.ops.append(["s", c, v])
        self._finds(c, [v])

    def reset(self, c, n):
        assert n < (1 << 32) or REFUSED <= n < U64, n
        self.ops.append(["r", c, n])
        if n < REFUSED:                      # a refused reset panics and leaves the value as it is
            self.cp[c] = PD(n)

    def clone(self, c):
        self.ops.append(["c", c])
        self.cp.append(self.cp[c].copy())
        return len(self.cp) - 1

    def clone_from(self, c, dst, m):
        self.ops.append(["f", c, dst, m])
        self.cp.append(self.cp[c].copy())
        return len(self.cp) - 1

    def clone_from_refused(self, c, dst, n):
        """a copy of c made by clone_from over a clone of dst that went through a refused reset(n)"""
        assert REFUSED <= n < U64, n
        self.ops.append(["g", c, dst, n])
        self.cp.append(self.cp[c].copy())
        return len(self.cp) - 1

    def call(self, kind, c, args):
        {"u": self.un, "k": self.check, "p": self.par, "s": self.size}[kind](c, *args)

    def deepest(self, rng, c):
        d = self.cp[c]
        dep = [d.depth(v) for v in range(len(d.p))]
        mx = max(dep)
        return rng.choice([v for v in range(len(dep)) if dep[v] == mx])

    def case(self):
        return {"n": self.n0, "ops": self.ops, "fam": self.fam}


def bad_values(rng, m, good):
    """out-of-range indices for a copy of m elements: just outside, a little outside, the doubled length, and the
    values that alias an in-range index `good` (or 0 / m-1) after a cast to u8/u16/u32/i32/i64 or after +1 / -1 wraps"""
    vals = [m, m + 1, m + 2, m + 7, 2 * m + (1 if m == 0 else 0)]
    for k in (8, 16, 31, 32, 63):
        vals += [1 << k, (1 << k) + good]
    vals += [(1 << 32) - 1, (1 << 63) - 1, U64 - 2, U64 - 1, U64 - 1 - good]
    return [v for v in dict.fromkeys(vals) if m <= v < U64]


def refused_values(m, good=0):
    """element counts a reset cannot get a buffer for (n * 8 > isize::MAX): the threshold, values that alias a small
    count / the current length after a narrowing cast or a wrapped subtraction, the extremes"""
    vals = [REFUSED, REFUSED + 1, REFUSED + m, (1 << 61) + 5, 1 << 62, (1 << 63) - 1, 1 << 63, (1 << 63) + m,
            (1 << 63) + good, U64 - 1 - m, U64 - 2, U64 - 1]
    return [v for v in dict.fromkeys(vals) if REFUSED <= v < U64]


def panic_call(rng, h, c, kind, shape, bad, good):
    """one call with an out-of-range argument; shape 0 = (bad, bad) equal, 1 = (bad, bad') distinct, 2 = (good, bad),
    3 = (bad, good); one-argument calls ignore the shape"""
    m = h.len(c)
    if OPS[kind] == 1:
        h.call(kind, c, [bad])
        return
    if m == 0 and shape >= 2:
        shape -= 2
    other = bad + 1 if bad + 1 < U64 else bad - 1
    args = [[bad, bad], [bad, other], [good, bad], [bad, good]][shape]
    h.call(kind, c, args)


def lookups(rng, h, c, k, deep=True):
    """k calls that look at the deepest element of copy c (or at a random one)"""
    for _ in range(k):
        m = h.len(c)
        if m == 0:
            return
        v = h.deepest(rng, c) if deep else rng.below(m)
        w = rng.below(m)
        kind = rng.below(6)
        if kind == 0:
            h.par(c, v)
        elif kind == 1:
            h.size(c, v)
        elif kind == 2:
            h.check(c, v, w)
        elif kind == 3:
            h.check(c, w, v)
        elif kind == 4:
            h.un(c, v, w)
        else:
            h.un(c, w, v)


def build_binomial(rng, h, c, rev, shuffled):
    """join roots of equal trees pairwise: no find ever compresses, the depth bound is tight"""
    roots = list(range(h.len(c)))
    if shuffled:
        rng.shuffle(roots)
    while len(roots) > 1:
        nxt = []
        for j in range(0, len(roots) - 1, 2):
            a, b = roots[j], roots[j + 1]
            if rev:
                a, b = b, a
            h.un(c, a, b)
            nxt.append(a if h.cp[c].p[a] == a else b)
        if len(roots) % 2:
            nxt.append(roots[-1])
        roots = nxt


def build_chain(rng, h, c, style):
    n = h.len(c)
    if style == 0:
        for i in range(n - 1):
            h.un(c, i, i + 1)
    elif style == 1:
        for i in range(n - 2, -1, -1):
            h.un(c, i + 1, i)
    elif style == 2:       # star: everything joined to element 0 from alternating sides
        for i in range(1, n):
            if i % 2:
                h.un(c, 0, i)
            else:
                h.un(c, i, 0)
    else:                  # two chains joined at the far ends
        hh = n // 2
        for i in range(hh - 1):
            h.un(c, i, i + 1)
        for i in range(hh, n - 1):
            h.un(c, i + 1, i)
        if n >= 2:
            h.un(c, 0, n - 1)


TAILS = 8


def sizes_of_all(h, c):
    """size of every element (roots and non-roots: stale root sizes show at elements that are roots again)"""
    for v in range(h.len(c)):
        h.size(c, v)


def tail(rng, h, mode, rebuild):
    """what happens to an adversarially built forest (copy 0) afterwards"""
    n = h.len(0)
    if mode == 0:                                   # a few calls on random elements
        lookups(rng, h, 0, rng.range(1, 5), deep=False)
    elif mode == 1:                                 # the deepest elements first, by every kind of call
        lookups(rng, h, 0, rng.range(3, 8))
    elif mode == 2:                                 # clone, then the deepest element on the clone and on the original
        c = h.clone(0)
        lookups(rng, h, c, rng.range(1, 4))
        lookups(rng, h, 0, rng.range(1, 4))
        lookups(rng, h, c, 1)
    elif mode == 3:                                 # reset (same / smaller / larger) and a second build
        m = rng.choice([n, n, max(0, n - rng.range(1, 3)), min(65, n + rng.range(1, 3)), n // 2])
        h.reset(0, m)
        rebuild(h)
        lookups(rng, h, 0, rng.range(2, 5))
    elif mode == 4:                                 # a copy through clone_from over a value of another length / history
        lookups(rng, h, 0, 1)
        d = h.clone(0)
        h.reset(d, rng.choice([0, 1, n // 2, n + 3]))
        lookups(rng, h, d, 2, deep=False)
        c = h.clone_from(0, d, rng.choice([0, 0, 1, 2, n // 2 + 1, n + 5]))
        lookups(rng, h, c, rng.range(1, 4))
        lookups(rng, h, 0, 1)
    elif mode == 5:                                 # a panicking call whose first argument is the deepest element
        for _ in range(rng.range(1, 3)):
            if n == 0:
                break
            v = h.deepest(rng, 0)
            bad = rng.choice(bad_values(rng, n, v))
            panic_call(rng, h, 0, rng.choice(["u", "k"]), rng.choice([2, 2, 3, 0, 1]), bad, v)
            lookups(rng, h, 0, rng.range(1, 3))
    elif mode == 7:                                 # resets that cannot get their buffer: nothing may move
        for _ in range(rng.range(1, 3)):
            h.reset(0, rng.choice(refused_values(n, h.deepest(rng, 0) if n else 0)))
            lookups(rng, h, 0, rng.range(1, 3))
        sizes_of_all(h, 0)
        if rng.chance(1, 2):
            c = h.clone_from_refused(0, 0, rng.choice(refused_values(n)))
            lookups(rng, h, c, 2)
    else:                                           # many copies, each looked at
        cs = [0]
        for _ in range(rng.range(4, 7)):
            cs.append(h.clone(rng.choice(cs)))
            lookups(rng, h, rng.choice(cs), 1)
        for c in cs:
            lookups(rng, h, c, 1)


def gen_binomial(rng, n, rev, mode=None):
    h = Hist(n, "binomial")
    build_binomial(rng, h, 0, rev, rng.chance(1, 2))
    tail(rng, h, rng.below(TAILS) if mode is None else mode,
         lambda hh: build_binomial(rng, hh, 0, not rev, rng.chance(1, 2)))
    return h.case()


def gen_chain(rng, n, style, mode=None):
    h = Hist(n, "chain")
    build_chain(rng, h, 0, style)
    tail(rng, h, rng.below(TAILS) if mode is None else mode, lambda hh: build_chain(rng, hh, 0, (style + 1) % 4))
    return h.case()


def gen_random(rng, n, nops, panics=0, maxn=24, maxcopies=4):
    """random calls on random live copies; `panics` = per-mille chance of an out-of-range call at every step"""
    h = Hist(n, "random")
    for i in range(nops):
        c = rng.below(len(h.cp))
        m = h.len(c)
        k = rng.below(100)
        if panics and rng.below(1000) < panics:
            good = rng.below(m) if m else 0
            if rng.chance(1, 5):                    # a reset that cannot get its buffer (possibly through clone_from)
                big = rng.choice(refused_values(m, good))
                if rng.chance(1, 4) and len(h.cp) < maxcopies:
                    h.clone_from_refused(c, rng.below(len(h.cp)), big)
                else:
                    h.reset(c, big)
                continue
            bad = rng.choice([m + rng.below(3), m + rng.below(3), rng.choice(bad_values(rng, m, good))])
            panic_call(rng, h, c, rng.choice(ELEM_OPS), rng.below(4), bad, good)
            continue
        if m == 0:
            if k < 50:
                h.reset(c, rng.range(0, 8))
            elif len(h.cp) < maxcopies:
                if k < 75:
                    h.clone(c)
                else:
                    h.clone_from(c, rng.below(len(h.cp)), rng.below(4))
            continue
        if k < 46:
            h.un(c, rng.below(m), rng.below(m))
        elif k < 60:
            h.check(c, rng.below(m), rng.below(m))
        elif k < 70:
            h.par(c, rng.below(m))
        elif k < 76:
            lookups(rng, h, c, 1)
        elif k < 86:
            h.size(c, rng.below(m))
        elif k < 92:
            h.reset(c, rng.choice([rng.range(0, maxn), max(0, m - rng.range(1, 3)), min(maxn, m + rng.range(1, 3)), m]))
        elif len(h.cp) < maxcopies:
            if k < 96:
                h.clone(c)
            else:
                h.clone_from(c, rng.below(len(h.cp)), rng.choice([0, 0, 1, 2, m // 2 + 1, m + 3]))
        else:
            h.un(c, rng.below(m), rng.below(m))
    return h.case()


def gen_panic_shapes(rng, ctx, kind, nvals=None):
    """every out-of-range value and argument shape for one kind of call, on a copy prepared in one of four ways;
    in-range lookups in between show that the value is still intact"""
    h = Hist({0: 9, 1: 12, 2: 8, 3: 8, 4: 0, 5: 1}[ctx], "panic-shapes")
    c = 0
    if ctx == 0:            # freshly built, a few unions
        for _ in range(6):
            h.un(0, rng.below(9), rng.below(9))
    elif ctx == 1:          # after a shrinking reset: the buffers are longer than the value
        for _ in range(8):
            h.un(0, rng.below(12), rng.below(12))
        h.reset(0, 5)
        h.un(0, 0, 1)
        h.un(0, 2, 3)
        h.un(0, 1, 3)
    elif ctx == 2:          # a clone of a deep forest (binomial tree of 8)
        build_binomial(rng, h, 0, False, False)
        c = h.clone(0)
    elif ctx == 3:          # a deep forest, never compressed: the first find of un / check has something to compress
        build_binomial(rng, h, 0, True, False)
    m = h.len(c)
    vals = bad_values(rng, m, m - 1 if m else 0)
    if nvals is not None and len(vals) > nvals:
        rng.shuffle(vals)
        vals = vals[:nvals]
    shape = rng.below(4)
    for bad in vals:
        reps = 1 if OPS[kind] == 1 else 2
        for _ in range(reps):
            good = h.deepest(rng, c) if (m and rng.chance(1, 2)) else rng.below(m)
            panic_call(rng, h, c, kind, shape, bad, good)
            shape = (shape + 1) % 4
        if rng.chance(1, 3):
            lookups(rng, h, c, 1, deep=rng.chance(1, 2))
    lookups(rng, h, c, 2)
    return h.case()


REFUSED_CTX = 8


def gen_refused_resets(rng, ctx, nvals=None):
    """reset(n) with n >= 2^60 (the buffer request is refused: 'capacity overflow') on a copy prepared in one of eight
    ways; the call must panic and leave the value alone, and the history goes on: the size of every element, lookups,
    more unions (union by size decides on the sizes that must have survived), refused resets in a row, clones, at the
    end a granted reset and a second build / a clone_from over a value with a refused reset / the other copies"""
    h = Hist({0: 9, 1: 12, 2: 8, 3: 8, 4: 0, 5: 1, 6: 7, 7: 6}[ctx], "reset-refused")
    c = 0
    if ctx == 0:            # a few random unions
        for _ in range(6):
            h.un(0, rng.below(9), rng.below(9))
    elif ctx == 1:          # after a shrinking reset: the buffers are longer than the value
        for _ in range(8):
            h.un(0, rng.below(12), rng.below(12))
        h.reset(0, 5)
        h.un(0, 0, 1)
        h.un(0, 2, 3)
        h.un(0, 1, 3)
    elif ctx == 2:          # a clone of a deep forest; the original is looked at afterwards
        build_binomial(rng, h, 0, False, False)
        c = h.clone(0)
    elif ctx == 3:          # a deep forest, never compressed
        build_binomial(rng, h, 0, True, False)
    elif ctx == 7:          # a copy made by clone_from, classes of 4 and 2
        for a, b in [(0, 1), (2, 3), (0, 2), (4, 5)]:
            h.un(0, a, b)
        c = h.clone_from(0, 0, rng.choice([0, 3, 9]))
    # ctx 4, 5, 6: empty, one element, seven elements without unions
    m = h.len(c)
    vals = refused_values(m, m - 1 if m else 0)
    if nvals is not None and len(vals) > nvals:
        rng.shuffle(vals)
        vals = vals[:nvals]
    for big in vals:
        h.reset(c, big)
        k = rng.below(5)
        if k == 0:
            sizes_of_all(h, c)
        elif k == 1:
            lookups(rng, h, c, 2, deep=rng.chance(1, 2))
        elif k == 2 and m >= 2:
            h.un(c, rng.below(m), rng.below(m))
            h.size(c, rng.below(m))
        elif k == 3 and len(h.cp) < 6:
            d = h.clone(c)
            lookups(rng, h, d, 1)
    sizes_of_all(h, c)
    k = rng.below(3)
    if k == 0:
        h.reset(c, rng.choice([m, m // 2, m + 2]))
        build_chain(rng, h, c, rng.below(4))
        lookups(rng, h, c, 2)
        h.reset(c, rng.choice(vals))
        sizes_of_all(h, c)
    elif k == 1:
        d = h.clone_from_refused(c, rng.below(len(h.cp)), rng.choice(vals))
        lookups(rng, h, d, 2)
        lookups(rng, h, c, 1)
    else:
        for d in range(len(h.cp)):
            lookups(rng, h, d, 1)
    return h.case()


def gen_many_resets(rng, nres):
    """one copy reset again and again (anything that counts resets or calls in a narrow integer gets past 255)"""
    h = Hist(3, "many-resets")
    for i in range(nres):
        m = rng.choice([rng.range(0, 6), rng.range(0, 6), h.len(0)])
        h.reset(0, m)
        if m and rng.chance(2, 3):
            for _ in range(rng.range(1, 3)):
                h.un(0, rng.below(m), rng.below(m))
            if rng.chance(1, 2):
                lookups(rng, h, 0, 1)
    lookups(rng, h, 0, 3)
    return h.case()


def fixed_cases(rng):
    cases = []
    # the repository's own scenario
    cases.append({"n": 4, "fam": "unit-test", "ops": [["u", 0, 0, 1], ["u", 0, 2, 3], ["k", 0, 0, 2], ["u", 0, 1, 3],
                                                       ["p", 0, 0], ["s", 0, 2], ["r", 0, 6], ["k", 0, 0, 1], ["r", 0, 2],
                                                       ["u", 0, 0, 1], ["s", 0, 1]]})
    cases.append({"n": 0, "fam": "random", "ops": []})
    cases.append({"n": 0, "fam": "random", "ops": [["p", 0, 0]]})
    cases.append({"n": 1, "fam": "random", "ops": [["u", 0, 0, 0], ["s", 0, 0], ["c", 0], ["r", 1, 3], ["u", 1, 2, 0], ["k", 0, 0, 0]]})
    # an empty value that grows; copies of an empty value
    cases.append({"n": 0, "fam": "random", "ops": [["r", 0, 3], ["u", 0, 0, 2], ["s", 0, 0], ["c", 0], ["r", 0, 0], ["c", 0],
                                                    ["f", 1, 2, 0], ["f", 2, 1, 0], ["s", 3, 2], ["r", 4, 2], ["u", 4, 1, 0]]})
    # minimal out-of-range calls: both arguments bad and equal, far out, values that alias after a narrowing cast,
    # and the value a panicking un / check leaves behind (first path compressed), looked at afterwards
    M = U64 - 1
    for n, ops in [
        (0, [["u", 0, 0, 0]]), (0, [["k", 0, 0, 0]]), (0, [["s", 0, 0]]),
        (3, [["u", 0, 3, 3]]), (3, [["k", 0, 8, 8]]), (3, [["u", 0, 3, 4]]), (3, [["k", 0, 1, 3]]), (3, [["u", 0, 3, 1]]),
        (3, [["p", 0, M]]), (3, [["s", 0, M]]), (3, [["u", 0, M, M]]), (3, [["k", 0, M, M]]), (3, [["u", 0, 0, M]]),
        (3, [["s", 0, (1 << 32) + 1]]), (3, [["u", 0, 1, (1 << 32) + 1]]), (3, [["k", 0, (1 << 16) + 2, 2]]),
        (3, [["p", 0, (1 << 63) + 2]]), (3, [["p", 0, 256 + 1]]),
        (4, [["u", 0, 0, 1], ["u", 0, 2, 3], ["u", 0, 1, 3], ["u", 0, 0, 4], ["k", 0, 0, 3], ["s", 0, 2]]),
        (4, [["u", 0, 0, 1], ["u", 0, 2, 3], ["u", 0, 1, 3], ["k", 0, 0, 9], ["p", 0, 0], ["u", 0, 4, 4], ["s", 0, 0]]),
        (4, [["u", 0, 0, 1], ["u", 0, 2, 3], ["u", 0, 1, 3], ["c", 0], ["u", 1, 0, M], ["k", 0, 0, 2], ["k", 1, 0, 2]]),
        (6, [["u", 0, 0, 1], ["r", 0, 2], ["p", 0, 2], ["s", 0, 5], ["u", 0, 1, 6], ["u", 0, 2, 2], ["u", 0, 0, 1]]),
    ]:
        cases.append({"n": n, "fam": "panic-shapes", "ops": ops})
    for ctx in range(6):
        for kind in ELEM_OPS:
            cases.append(gen_panic_shapes(rng, ctx, kind))
    # resets that cannot get their buffer (n * 8 > isize::MAX): panic, nothing written, the history goes on
    for n, ops in [
        (3, [["r", 0, REFUSED]]), (0, [["r", 0, M], ["r", 0, 2], ["u", 0, 0, 1], ["r", 0, M - 1], ["s", 0, 0]]),
        (2, [["u", 0, 0, 1], ["r", 0, REFUSED], ["s", 0, 0], ["s", 0, 1]]),
        (6, [["u", 0, 0, 1], ["u", 0, 2, 3], ["u", 0, 0, 2], ["u", 0, 4, 5], ["r", 0, M], ["s", 0, 1], ["s", 0, 3],
             ["k", 0, 0, 1], ["u", 0, 0, 4], ["s", 0, 0], ["s", 0, 4]]),
        (4, [["u", 0, 0, 1], ["u", 0, 2, 3], ["c", 0], ["r", 1, 1 << 63], ["u", 1, 1, 3], ["s", 1, 0], ["s", 0, 0],
             ["r", 0, (1 << 61) + 5], ["u", 0, 0, 2], ["s", 0, 3]]),
        (3, [["u", 0, 0, 1], ["g", 0, 0, M], ["s", 1, 0], ["g", 1, 0, REFUSED], ["u", 2, 2, 0], ["s", 2, 1]]),
        (5, [["u", 0, 0, 1], ["u", 0, 2, 3], ["u", 0, 1, 3], ["r", 0, 2], ["r", 0, REFUSED + 2], ["p", 0, 2], ["u", 0, 0, 1],
             ["r", 0, M], ["s", 0, 0]]),
    ]:
        cases.append({"n": n, "fam": "reset-refused", "ops": ops})
    for ctx in range(REFUSED_CTX):
        cases.append(gen_refused_resets(rng, ctx))
    # clone_from over values of another length and history
    cases.append({"n": 5, "fam": "clone-from", "ops": [
        ["u", 0, 0, 1], ["u", 0, 2, 3], ["u", 0, 1, 3], ["c", 0], ["r", 1, 9], ["u", 1, 7, 8], ["f", 0, 1, 0], ["f", 1, 0, 0],
        ["f", 0, 1, 3], ["f", 1, 0, 13], ["f", 2, 2, 1], ["s", 2, 0], ["s", 3, 8], ["k", 4, 0, 3], ["u", 5, 8, 0], ["p", 6, 1]]})
    # adversarial orders on every small size and around 32 / 64, every continuation
    sizes = [2, 3, 4, 5, 7, 8, 9, 15, 16, 17, 24]
    k = 0
    for n in sizes:
        cases.append(gen_binomial(rng, n, False, k % TAILS))
        cases.append(gen_binomial(rng, n, True, (k + 3) % TAILS))
        for st in range(4):
            cases.append(gen_chain(rng, n, st, (k + st) % TAILS))
        k += 1
    for n in [31, 32, 33]:
        cases.append(gen_binomial(rng, n, False, 1))
        cases.append(gen_binomial(rng, n, True, [2, 3, 4, 5, 6, 1][k % 6]))
        cases.append(gen_chain(rng, n, k % 4, 1 + k % 5))
        k += 1
    for n, rev, mode in [(63, False, 1), (64, True, 2), (65, False, 5)]:
        cases.append(gen_binomial(rng, n, rev, mode))
    cases.append(gen_chain(rng, 64, 3, 1))
    cases.append(gen_many_resets(rng, 300))
    return cases


def generate(rng, tier):
    cases = fixed_cases(rng)
    quick = tier == "quick"
    if not quick:
        for n in [31, 32, 33, 63, 64, 65]:
            for mode in range(TAILS):
                cases.append(gen_binomial(rng, n, mode % 2 == 0, mode))
                cases.append(gen_chain(rng, n, mode % 4, mode))
        for _ in range(8):
            cases.append(gen_many_resets(rng, rng.range(260, 400)))
    nrand = 560 if quick else 12000
    top = 48 if quick else 65
    for i in range(nrand):
        k = rng.below(40)
        big = rng.chance(1, 110 if quick else 12)          # beyond 24 elements
        if k <= 1:
            cases.append(gen_binomial(rng, rng.range(25, top) if big else rng.range(2, 24), rng.chance(1, 2)))
        elif k <= 3:
            cases.append(gen_chain(rng, rng.range(25, top) if big else rng.range(2, 24), rng.below(4)))
        elif k == 4:
            cases.append(gen_panic_shapes(rng, rng.below(6), rng.choice(ELEM_OPS), nvals=rng.range(2, 8)))
        elif k == 5:
            cases.append(gen_refused_resets(rng, rng.below(REFUSED_CTX), nvals=rng.range(1, 6)))
        else:
            n = rng.choice([rng.range(0, 6), rng.range(1, 12), rng.range(1, 24), rng.range(8, 24)])
            nops = rng.choice([rng.range(0, 10), rng.range(5, 40), rng.range(20, 70)])
            maxn = 24
            if big:
                n, nops, maxn = rng.range(25, top), rng.range(40, 160), top
            panics = rng.choice([15, 40, 120]) if rng.chance(1, 8) else 0
            cases.append(gen_random(rng, n, nops, panics, maxn, 7 if rng.chance(1, 10) else 4))
    return cases


def well_formed(c):
    """every op refers to an existing copy (clones are counted); out-of-range element indices are allowed"""
    copies = 1
    for o in c["ops"]:
        if o[1] >= copies or (o[0] in ("f", "g") and o[2] >= copies):
            return False
        if o[0] in ("c", "f", "g"):
            copies += 1
    return True


def shrink(c):
    out = []
    ops = c["ops"]
    # drop suffixes, then single ops
    for cut in (len(ops) // 2, len(ops) - 1):
        if 0 <= cut < len(ops):
            out.append(dict(c, ops=ops[:cut]))
    # long histories: drop a half / quarter / eighth somewhere
    if len(ops) >= 16:
        for parts in (2, 4, 8):
            size = len(ops) // parts
            for st in range(0, len(ops) - size + 1, size):
                cand = dict(c, ops=ops[:st] + ops[st + size:])
                if well_formed(cand):
                    out.append(cand)
    for i in range(len(ops)):
        cand = dict(c, ops=ops[:i] + ops[i + 1:])
        if well_formed(cand):
            out.append(cand)
    # a clone_from as a plain clone, or over an untouched scratch value
    for i, o in enumerate(ops):
        if o[0] == "f":
            out.append(dict(c, ops=ops[:i] + [["c", o[1]]] + ops[i + 1:]))
            if o[3]:
                out.append(dict(c, ops=ops[:i] + [["f", o[1], o[2], 0]] + ops[i + 1:]))
        if o[0] == "g":     # the same without the refused reset; over a clone of the source itself; the plain threshold
            out.append(dict(c, ops=ops[:i] + [["c", o[1]]] + ops[i + 1:]))
            if o[2] != o[1]:
                out.append(dict(c, ops=ops[:i] + [["g", o[1], o[1], o[3]]] + ops[i + 1:]))
            if o[3] != REFUSED:
                out.append(dict(c, ops=ops[:i] + [["g", o[1], o[2], REFUSED]] + ops[i + 1:]))
        if o[0] == "r" and o[2] > REFUSED:
            out.append(dict(c, ops=ops[:i] + [["r", o[1], REFUSED]] + ops[i + 1:]))
    # fewer elements (only when no index is out of range on purpose)
    mx = max([x for o in ops if o[0] in ELEM_OPS for x in o[2:]]
             + [o[2] - 1 for o in ops if o[0] == "r" and o[2] < REFUSED] + [0])
    if c["n"] > mx + 1:
        out.append(dict(c, n=mx + 1))
    return out


# ----------------------------------------------------------------------------- implementation-only search
BIG_QUICK = [("binomial", 1 << 14), ("binomial_rev", 1 << 12), ("binomial", 1 << 17), ("chain_up", 50000),
             ("chain_down", 50000), ("chain_root", 65537), ("random", 4000), ("random", 70000), ("random_roots", 30000),
             ("binomial_reset", 1 << 11), ("binomial_reset", 3000), ("resets", 70000)]
BIG_THOROUGH = [("binomial", 1 << 20), ("binomial_rev", 1 << 20), ("binomial", 1000000), ("chain_up", 1000000),
                ("chain_down", 1000000), ("chain_root", 1000000), ("random", 4096), ("random", 1000000),
                ("random_roots", 1000000), ("random_roots", 65536), ("random_roots", 65537), ("binomial", 65537),
                ("binomial_reset", 1 << 17), ("binomial_reset", 200000), ("resets", 300000)]


def extra(ctx, known):
    # the code under the model was edited: the quick tier runs the thorough list too
    fams = BIG_QUICK if (ctx.tier == "quick" and not getattr(ctx, "src_changed", None)) else BIG_QUICK + BIG_THOROUGH
    cov = {"big_runs": []}
    viol = []
    for k, (fam, n) in enumerate(fams):
        line = "big %s %d %d" % (fam, n, ctx.seed * 1000 + k)
        for profile in PROFILES:
            binp = ctx.bins[profile]
            try:
                pr = subprocess.run([binp], input=line + "\n", stdout=subprocess.PIPE, stderr=subprocess.PIPE, text=True, timeout=1800)
                out = pr.stdout.strip()
                rc = pr.returncode
            except subprocess.TimeoutExpired:
                out, rc = "timeout", -1
            t = out.split()
            ok = rc == 0 and len(t) == 5 and t[0] == "B" and t[4] == "1" and int(t[1]) <= int(t[2])
            cov["big_runs"].append({"input": line, "profile": profile,
                                    "output": out if rc == 0 else "executor died rc=%s (stack overflow?) %s" % (rc, out)})
            if not ok:
                viol.append({"name": "big-%s-%d-%s" % (fam, n, profile), "kind": "counterexample",
                             "payload": {"what": "implementation-only search (%s build): during / after the scenario `%s` on %d "
                                                 "elements the forest read through verif_raw violates depth <= log2(size) or "
                                                 "root size = class cardinality, or a return value of un / par / check / size "
                                                 "differs from a naive labelling, or a lookup of a deepest element did not "
                                                 "return the root / did not compress its path to the root, or reset / clone / "
                                                 "clone_from produced different arrays (output: B maxdepth maxallowed classes "
                                                 "ok), or the executor died (lookups run on a 256 KiB stack)" % (profile, fam, n),
                                         "executor_input": line, "profile": profile, "executor_output": out, "returncode": rc}})
                break
        if viol:
            break
    return {"coverage": cov, "violations": viol}


MANIFEST = {
    "text": "Coq theorems (no axioms) about an executable Gallina model of rlib_dsu::DSU (parent and size vectors with checked "
            "indexing, recursive find with path compression exactly as coded, union by size, reset as resize + two loops "
            "preceded by the buffer request that panics with nothing written when n * 8 > isize::MAX (c05_reset_refused, "
            "c05_reset_granted), clone), for every finite history of un / par / check / size / reset (growing or shrinking) on every live "
            "copy: an invariant with a ghost rank and representative function is preserved by every call "
            "(c05_inv_preserved); the find never runs out of fuel and a call panics exactly on an out-of-range index; "
            "check u v <=> (u,v) in the equivalence closure of the union requests since the last reset (c05_partition); "
            "un returns true <=> the arguments were in different classes; size = class cardinality; par returns a class "
            "member, equal exactly on connected elements and unchanged by lookups; every parent chain has length <= "
            "log2(class size) and the recursion needs at most log2(class size)+1 frames (c05_depth_log, c05_stack_depth). "
            "The model is tied to the code on every run: the executor replays generated histories (up to 65 elements and 7 "
            "copies, resets, clones, clone_from, adversarial orders followed by lookups of the deepest elements, "
            "out-of-range calls of every argument shape up to 2^64-1 and resets of 2^60 .. 2^64-1 elements, which must panic "
            "('capacity overflow') with both arrays untouched, after which the history goes on with the value the "
            "panicking call left behind - a value of the same history, c05_panic_state_reachable) on the crate, debug and release build, and Coq proves case by case that return "
            "values, panics and the hooked (p, sz) arrays equal the model's (batch_model) and satisfy a model-independent "
            "specification (batch_spec: naive partition replay, forest shape, depth <= log2 class size, a call panics "
            "iff an index is out of range or a reset asks for 2^60 elements or more, and leaves a forest of the same "
            "partition); "
            "c05_model_check_implies_spec_check proves that the first implies the second. The executor also compares the "
            "Debug renderings after reset with new(n), of clone / clone_from results with their source and before / after a "
            "reset, par or size that panicked (hidden state). "
            "An implementation-only search (both builds) drives binomial-tree, chain and random union orders up to 10^6 "
            "elements (sizes around 2^16 and 2^17 in the quick tier), reset + second build, clones, 70000-300000 resets, "
            "refused resets in between (arrays and rendering unchanged), and "
            "checks depth, root sizes, return values of un / par / check / size against a naive labelling, and that "
            "lookups of the deepest elements (on a 256 KiB stack) return the root and compress the whole path.",
    "level_note": "Trusted: Coq kernel + vm_compute; the Rust executor, the verif_raw hook and the Python case printer (which "
                  "clamps out-of-range indices to 4095 in the Coq term); Vec as list, usize as nat (sizes never exceed the "
                  "element count); the value left by a panicking call is modelled as 'first find done' / 'nothing written' "
                  "(panic_state); the refusal threshold of reset is that of a 64-bit target; "
                  "theorems are about the model, the correspondence is sampled (histories on <= 65 elements); the "
                  "10^6-element runs are an implementation-only search, not a proof; process stack size is not modelled "
                  "(the claim is the frame count).",
    "technique": "Coq proof over Gallina model + vm_compute correspondence batches against the Rust crate",
}
