"""C05 — disjoint-set union (rlib/dsu): connectivity, union results, sizes, representatives, log depth."""
import subprocess

ID = "C05"
CRATE = "c05"
COQ_DIR = "C05"
COQ_DEPS = []
PROFILES = ["debug", "release"]
CORR_IMPORT = "From RlibV Require Import C05.Model C05.Corr."
AUDIT_IMPORT = ("From Coq Require Import List Arith NArith Bool.\nImport ListNotations.\n"
                "From RlibV Require Import C05.Model C05.Spec C05.Corr C05.Properties.")
EXPLAIN = "explain"
AXIOM_ALLOW = []
SHARD = 1500
SEARCH_MAX = 2500
THEOREMS = [
    ('c05_reset_is_new',
     'forall (s : dsu) (n : nat), reset s n = Ok (new n)'),
    ('c05_inv_preserved',
     "(forall n, Inv n [] (new n)) /\\ (forall n es s o s' r, Inv n es s -> step s o = Ok (s', r) -> Inv (ghost_n n o) (ghost_es es o) s')"),
    ('c05_reach_inv',
     'forall n es s, reach n es s -> Inv n es s'),
    ('c05_history_reach',
     'forall n0 ops s rs, run (new n0) ops = Ok (s, rs) -> reach (fst (ghost_run n0 [] ops)) (snd (ghost_run n0 [] ops)) s'),
    ('c05_history_no_fuel',
     'forall n0 ops, run (new n0) ops <> Fuel'),
    ('c05_no_fuel_exhaustion',
     'forall n es s o, reach n es s -> step s o <> Fuel'),
    ('c05_panic_iff_out_of_range',
     'forall n es s o, reach n es s -> (step s o = Panic <-> in_range n o = false)'),
    ('c05_partition',
     "forall n es s u v, reach n es s -> u < n -> v < n -> exists s' b, step s (Check u v) = Ok (s', RB b) /\\ (b = true <-> conn es u v)"),
    ('c05_un_true_iff_joined',
     "forall n es s u v, reach n es s -> u < n -> v < n -> exists s' b, step s (Un u v) = Ok (s', RB b) /\\ (b = true <-> ~ conn es u v)"),
    ('c05_size_is_cardinality',
     "forall n es s v, reach n es s -> v < n -> exists s' k, step s (Size v) = Ok (s', RN k) /\\ class_card n es v k"),
    ('c05_class_card_unique',
     "forall n es v k k', class_card n es v k -> class_card n es v k' -> k = k'"),
    ('c05_par_representative',
     "forall n es s, reach n es s -> (forall v, v < n -> exists r, par_val s v = Some r /\\ r < n /\\ conn es v r) /\\ (forall u v, u < n -> v < n -> (conn es u v <-> par_val s u = par_val s v)) /\\ (forall o s' x, is_lookup o = true -> step s o = Ok (s', x) -> forall v, v < n -> par_val s' v = par_val s v)"),
    ('c05_depth_log',
     "forall n es s v, reach n es s -> v < n -> exists r k c, chain (p s) v r k /\\ class_card n es v c /\\ nth r (sz s) 0 = c /\\ (forall r' k', chain (p s) v r' k' -> r' = r /\\ 2 ^ k' <= c /\\ k' <= Nat.log2 c)"),
    ('c05_stack_depth',
     'forall n es s v c, reach n es s -> v < n -> class_card n es v c -> par_rec (S (Nat.log2 c)) (p s) v = par_rec (par_fuel (p s)) (p s) v /\\ exists x, par_rec (S (Nat.log2 c)) (p s) v = Ok x'),
    ('c05_clone_copies_reachable',
     'forall cs, mreach cs -> Forall (fun s => exists n es, reach n es s) cs'),
    ('c05_model_check_implies_spec_check',
     'forall c : case, model_check c = true -> spec_check c = true'),
]
RULE = ("histories of 0-70 calls on 0-24 elements over several live copies: un / par / check / size / reset (growing and "
        "shrinking) / clone, random and adversarial union orders (binomial trees joined root to root, chains in both "
        "directions, stars), queries biased to deep elements, a few histories ending in an out-of-range call (panic); "
        "non-trivial = at least 3 joining unions and a lookup afterwards")
TRUSTED = ["executor harness/crates/c05 (drives rlib_dsu::DSU, prints return values and the arrays read through verif_raw)",
           "checks/c05.py (history generator, Coq term printer)",
           "hook rlib_dsu::DSU::verif_raw (cargo feature verif): read-only view of p and sz"]
ASSUMPTIONS = ["Vec<usize> modelled as list nat, usize arithmetic as nat (sizes are bounded by the element count, no overflow)",
               "a panic ends the history (the partially updated value is not observed afterwards)",
               "the recursion of par is modelled with fuel = number of elements + 1; the theorems exclude running out of fuel "
               "(c05_no_fuel_exhaustion, c05_history_no_fuel) and bound the recursion depth by log2(class size) + 1 frames "
               "(c05_stack_depth, c05_depth_log)",
               "the stack size of the real process is not modelled: the claim is the frame count"]

OPS = {"u": 2, "k": 2, "p": 1, "s": 1, "r": 1, "c": 0}


# ----------------------------------------------------------------------------- executor / Coq printing
def harness_line(c):
    toks = ["h", str(c["n"])]
    for o in c["ops"]:
        toks += [o[0]] + [str(x) for x in o[1:]]
    return " ".join(toks)


def parse_obs(obs):
    """-> (list of (ret, snap|None), finals|None); ret in 'T','F',('N',k),'U','P'"""
    t = obs.split()
    i, out, finals = 0, [], None

    def arrays(i):
        assert t[i] == "["
        j = t.index("|", i)
        k = t.index("]", j)
        return ([int(x) for x in t[i + 1:j]], [int(x) for x in t[j + 1:k]]), k + 1

    while i < len(t):
        tok = t[i]
        if tok == "E":
            finals = []
            i += 1
            while i < len(t):
                a, i = arrays(i)
                finals.append(a)
            break
        i += 1
        sn = None
        if i < len(t) and t[i] == "[":
            sn, i = arrays(i)
        out.append((tok, sn))
    return out, finals


def num(x):
    x = int(x)
    return "d%d" % x if x < 64 else "%d%%N" % x


def nl(xs):
    return "[" + ";".join(num(x) for x in xs) + "]"


def snap_term(a):
    return "(%s,%s)" % (nl(a[0]), nl(a[1]))


def op_term(o):
    k = o[0]
    name = {"u": "NUn", "k": "NCheck", "p": "NPar", "s": "NSize", "r": "NReset", "c": "NClone"}[k]
    return "%s %s" % (name, " ".join(num(x) for x in o[1:]))


def coq_term(c, obs, profile):
    rets, finals = parse_obs(obs)
    os_ = []
    for tok, sn in rets:
        if tok == "T":
            r = "OB true"
        elif tok == "F":
            r = "OB false"
        elif tok == "U":
            r = "OU"
        elif tok == "P":
            r = "OP"
        else:
            r = "ON %s" % num(tok[1:])
        os_.append("(%s,%s)" % (r, "None" if sn is None else "Some %s" % snap_term(sn)))
    return "(mkcase %s [%s] [%s] [%s])" % (
        num(c["n"]), ";".join(op_term(o) for o in c["ops"]), ";".join(os_),
        ";".join(snap_term(a) for a in (finals or [])))


def nontrivial(c, obs):
    rets, _ = parse_obs(obs)
    joins, after = 0, False
    for o, (tok, _) in zip(c["ops"], rets):
        if o[0] == "u" and tok == "T":
            joins += 1
        elif o[0] == "r":
            joins = 0
        elif joins >= 3 and o[0] in ("k", "p", "s"):
            after = True
    return after


def classify(c, obs):
    kinds = {o[0] for o in c["ops"]}
    n = c["n"]
    size = "n0" if n == 0 else ("n1-4" if n <= 4 else ("n5-12" if n <= 12 else "n13-24"))
    tags = [c.get("fam", "random"), size]
    if "r" in kinds:
        tags.append("reset")
    if "c" in kinds:
        tags.append("clone")
    if obs.endswith("P"):
        tags.append("panic")
    return "/".join(tags)


# ----------------------------------------------------------------------------- generator
class Sim:
    """bookkeeping for the generator only (element counts of the live copies, a plain labelling)"""

    def __init__(self, n):
        self.n = [n]
        self.lab = [list(range(n))]


def gen_random(rng, n, nops, panic_at=None):
    ns = [n]
    ops = []
    for i in range(nops):
        c = rng.below(len(ns))
        m = ns[c]
        k = rng.below(100)
        if panic_at is not None and i == panic_at:
            kind = rng.choice(["u", "k", "p", "s"])
            bad = m + rng.below(3)
            if OPS[kind] == 2:
                good = rng.below(m) if m else bad
                ops.append([kind, c] + ([bad, good] if rng.chance(1, 2) else [good, bad]))
            else:
                ops.append([kind, c, bad])
            break
        if m == 0:
            if k < 50:
                nn_ = rng.range(0, 8)
                ops.append(["r", c, nn_])
                ns[c] = nn_
            elif len(ns) < 4:
                ops.append(["c", c])
                ns.append(m)
            continue
        if k < 48:
            ops.append(["u", c, rng.below(m), rng.below(m)])
        elif k < 62:
            ops.append(["k", c, rng.below(m), rng.below(m)])
        elif k < 77:
            ops.append(["p", c, rng.below(m)])
        elif k < 87:
            ops.append(["s", c, rng.below(m)])
        elif k < 92:
            nn_ = rng.choice([rng.range(0, 24), max(0, m - rng.range(1, 3)), min(24, m + rng.range(1, 3)), m])
            ops.append(["r", c, nn_])
            ns[c] = nn_
        elif len(ns) < 4:
            ops.append(["c", c])
            ns.append(m)
        else:
            ops.append(["u", c, rng.below(m), rng.below(m)])
    return {"n": n, "ops": ops, "fam": "random"}


def gen_binomial(rng, n, rev):
    """join roots of equal trees pairwise (no find ever compresses), then look at the deepest elements"""
    ops = []
    roots = list(range(n))
    if rng.chance(1, 2):
        rng.shuffle(roots)
    while len(roots) > 1:
        nxt = []
        for j in range(0, len(roots) - 1, 2):
            a, b = roots[j], roots[j + 1]
            if rev:
                a, b = b, a
            ops.append(["u", 0, a, b])
            nxt.append(b)          # equal sizes: the first argument goes below the second
        if len(roots) % 2:
            nxt.append(roots[-1])
        roots = nxt
    tail = []
    for _ in range(rng.range(1, 6)):
        k = rng.below(4)
        v = rng.below(n)
        tail.append([["p", 0, v], ["s", 0, v], ["k", 0, v, rng.below(n)], ["u", 0, v, rng.below(n)]][k])
    return {"n": n, "ops": ops + tail, "fam": "binomial"}


def gen_chain(rng, n, style):
    ops = []
    if style == 0:
        for i in range(n - 1):
            ops.append(["u", 0, i, i + 1])
    elif style == 1:
        for i in range(n - 2, -1, -1):
            ops.append(["u", 0, i + 1, i])
    elif style == 2:       # star: everything joined to element 0 from alternating sides
        for i in range(1, n):
            ops.append(["u", 0, 0, i] if i % 2 else ["u", 0, i, 0])
    else:                  # two chains joined at the far ends
        h = n // 2
        for i in range(h - 1):
            ops.append(["u", 0, i, i + 1])
        for i in range(h, n - 1):
            ops.append(["u", 0, i + 1, i])
        if n >= 2:
            ops.append(["u", 0, 0, n - 1])
    for _ in range(rng.range(1, 5)):
        v = rng.below(n)
        ops.append(rng.choice([["p", 0, v], ["s", 0, v], ["k", 0, v, rng.below(n)]]))
    return {"n": n, "ops": ops, "fam": "chain"}


def generate(rng, tier):
    cases = []
    # the repository's own scenario
    cases.append({"n": 4, "fam": "unit-test", "ops": [["u", 0, 0, 1], ["u", 0, 2, 3], ["k", 0, 0, 2], ["u", 0, 1, 3],
                                                       ["p", 0, 0], ["s", 0, 2], ["r", 0, 6], ["k", 0, 0, 1], ["r", 0, 2],
                                                       ["u", 0, 0, 1], ["s", 0, 1]]})
    cases.append({"n": 0, "fam": "random", "ops": []})
    cases.append({"n": 0, "fam": "random", "ops": [["p", 0, 0]]})
    cases.append({"n": 1, "fam": "random", "ops": [["u", 0, 0, 0], ["s", 0, 0], ["c", 0], ["r", 1, 3], ["u", 1, 2, 0], ["k", 0, 0, 0]]})
    sizes = [2, 3, 4, 5, 7, 8, 9, 15, 16, 17, 24]
    for n in sizes:
        cases.append(gen_binomial(rng, n, False))
        cases.append(gen_binomial(rng, n, True))
        for st in range(4):
            cases.append(gen_chain(rng, n, st))
    nrand = 800 if tier == "quick" else 12000
    for i in range(nrand):
        k = rng.below(20)
        if k == 0:
            cases.append(gen_binomial(rng, rng.range(2, 24), rng.chance(1, 2)))
        elif k == 1:
            cases.append(gen_chain(rng, rng.range(2, 24), rng.below(4)))
        else:
            n = rng.choice([rng.range(1, 6), rng.range(1, 12), rng.range(1, 24), rng.range(8, 24)])
            nops = rng.choice([rng.range(0, 10), rng.range(5, 40), rng.range(20, 70)])
            panic_at = rng.below(nops + 1) if rng.chance(1, 40) else None
            cases.append(gen_random(rng, n, nops, panic_at))
    return cases


def well_formed(c):
    """every op refers to an existing copy (clones are counted); out-of-range element indices are allowed"""
    copies = 1
    for o in c["ops"]:
        if o[1] >= copies:
            return False
        if o[0] == "c":
            copies += 1
    return True


def shrink(c):
    out = []
    ops = c["ops"]
    # drop suffixes, then single ops
    for cut in (len(ops) // 2, len(ops) - 1):
        if 0 <= cut < len(ops):
            out.append(dict(c, ops=ops[:cut]))
    for i in range(len(ops)):
        cand = dict(c, ops=ops[:i] + ops[i + 1:])
        if well_formed(cand):
            out.append(cand)
    # fewer elements
    mx = max([x for o in ops for x in (o[2:] if o[0] != "r" else [])] + [0])
    if c["n"] > mx + 1:
        out.append(dict(c, n=mx + 1))
    return out


# ----------------------------------------------------------------------------- implementation-only search
BIG_QUICK = [("binomial", 1 << 14), ("binomial_rev", 1 << 12), ("chain_up", 50000), ("chain_down", 50000),
             ("chain_root", 50000), ("random", 4000), ("random", 60000), ("random_roots", 30000)]
BIG_THOROUGH = [("binomial", 1 << 20), ("binomial_rev", 1 << 20), ("binomial", 1000000), ("chain_up", 1000000),
                ("chain_down", 1000000), ("chain_root", 1000000), ("random", 4096), ("random", 1000000),
                ("random_roots", 1000000), ("random_roots", 65536)]


def extra(ctx, known):
    fams = BIG_QUICK if ctx.tier == "quick" else BIG_THOROUGH
    binp = ctx.bins["debug"]
    cov = {"big_runs": []}
    viol = []
    for k, (fam, n) in enumerate(fams):
        line = "big %s %d %d" % (fam, n, ctx.seed * 1000 + k)
        try:
            pr = subprocess.run([binp], input=line + "\n", stdout=subprocess.PIPE, stderr=subprocess.PIPE, text=True, timeout=1800)
            out = pr.stdout.strip()
            rc = pr.returncode
        except subprocess.TimeoutExpired:
            out, rc = "timeout", -1
        t = out.split()
        ok = rc == 0 and len(t) == 5 and t[0] == "B" and t[4] == "1" and int(t[1]) <= int(t[2])
        cov["big_runs"].append({"input": line, "output": out if rc == 0 else "executor died rc=%s (stack overflow?) %s" % (rc, out)})
        if not ok:
            viol.append({"name": "big-%s-%d" % (fam, n), "kind": "counterexample",
                         "payload": {"what": "implementation-only search: after the union order `%s` on %d elements the forest "
                                             "read through verif_raw violates depth <= log2(size) or root size = class "
                                             "cardinality (output: B maxdepth maxallowed classes ok), or the executor died"
                                             % (fam, n),
                                     "executor_input": line, "executor_output": out, "returncode": rc}})
            break
    return {"coverage": cov, "violations": viol}


MANIFEST = {
    "text": "Coq theorems (no axioms) about an executable Gallina model of rlib_dsu::DSU (parent and size vectors with checked "
            "indexing, recursive find with path compression exactly as coded, union by size, reset as resize + two loops, "
            "clone), for every finite history of un / par / check / size / reset (growing or shrinking) on every live "
            "copy: an invariant with a ghost rank and representative function is preserved by every call "
            "(c05_inv_preserved); the find never runs out of fuel and a call panics exactly on an out-of-range index; "
            "check u v <=> (u,v) in the equivalence closure of the union requests since the last reset (c05_partition); "
            "un returns true <=> the arguments were in different classes; size = class cardinality; par returns a class "
            "member, equal exactly on connected elements and unchanged by lookups; every parent chain has length <= "
            "log2(class size) and the recursion needs at most log2(class size)+1 frames (c05_depth_log, c05_stack_depth). "
            "The model is tied to the code on every run: the executor replays generated histories (several copies, resets, "
            "clones, adversarial orders) on the crate and Coq proves case by case that return values and the hooked (p, sz) "
            "arrays equal the model's (batch_model) and satisfy a model-independent specification (batch_spec: naive "
            "partition replay, forest shape, depth <= log2 class size); c05_model_check_implies_spec_check proves that the "
            "first implies the second. An implementation-only search drives binomial-tree, chain and random union orders "
            "up to 10^6 elements and checks depth and root sizes through the hook.",
    "level_note": "Trusted: Coq kernel + vm_compute; the Rust executor, the verif_raw hook and the Python case printer; Vec as "
                  "list, usize as nat (sizes never exceed the element count); a panic ends a history; theorems are about "
                  "the model, the correspondence is sampled (histories on <= 24 elements); the 10^6-element runs are an "
                  "implementation-only search, not a proof; process stack size is not modelled (the claim is the frame count).",
    "technique": "Coq proof over Gallina model + vm_compute correspondence batches against the Rust crate",
}
