"""C11 — gcd, lcm, egcd, crt (rlib/gcd)."""
import math

ID = "C11"
CRATE = "c11"
COQ_DIR = "C11"
PROFILES = ["debug", "release"]
CORR_IMPORT = "From RlibV Require Import C11.Model C11.Corr.\nOpen Scope Z_scope."
AUDIT_IMPORT = "From Coq Require Import ZArith List.\nFrom RlibV Require Import C11.Model C11.Corr C11.Trace C11.Properties.\nOpen Scope Z_scope."
EXPLAIN = "explain"
AXIOM_ALLOW = []
THEOREMS = [
    ("c11_gcd", "forall a b : Z, Z.abs b < 2 ^ 130 -> gcd a b = Some (Z.gcd a b)"),
    ("c11_egcd_sound", "forall a b c x y : Z, egcd a b c = Ret (Some (x, y)) -> a * x + b * y = c"),
    ("c11_egcd_complete", "forall a b c : Z, (a, b) <> (0, 0) -> Z.abs a < 2 ^ 130 -> egcd a b c <> Panic /\\ (egcd a b c = Ret None <-> ~ (Z.gcd a b | c))"),
    ("c11_egcd_zero_panics", "forall c : Z, egcd 0 0 c = Panic"),
    ("c11_lcm", "forall a b : Z, (a, b) <> (0, 0) -> Z.abs b < 2 ^ 130 -> lcm a b = Some (Z.lcm a b)"),
    ("c11_lcm_zero_panics", "lcm 0 0 = None"),
    ("c11_crt", "forall a1 m1 a2 m2 : Z, 1 <= m1 < 2 ^ 130 -> 1 <= m2 < 2 ^ 130 -> 0 <= a1 < m1 -> 0 <= a2 < m2 -> "
                "((Z.gcd m1 m2 | a2 - a1) -> exists x, crt a1 m1 a2 m2 = Ret (Some x) /\\ 0 <= x < Z.lcm m1 m2 /\\ x mod m1 = a1 /\\ x mod m2 = a2) "
                "/\\ (~ (Z.gcd m1 m2 | a2 - a1) -> crt a1 m1 a2 m2 = Ret None)"),
    ("c11_crt_unique", "forall m1 m2 x y : Z, 1 <= m1 -> 1 <= m2 -> 0 <= x < Z.lcm m1 m2 -> 0 <= y < Z.lcm m1 m2 -> "
                       "x mod m1 = y mod m1 -> x mod m2 = y mod m2 -> x = y"),
    ("c11_model_implies_spec", "forall c : case, in_scope c -> model_check c = true -> spec_check c = true"),
    ("c11_trace_same", "forall a b c a1 m1 a2 m2 : Z, fst (gcd_t a b) = gcd a b /\\ fst (lcm_t a b) = lcm a b /\\ "
                       "fst (egcd_t a b c) = egcd a b c /\\ fst (crt_t a1 m1 a2 m2) = crt a1 m1 a2 m2"),
    ("c11_fits_2_20", "forall a b c : Z, Z.abs a <= 2 ^ 20 -> Z.abs b <= 2 ^ 20 -> Z.abs c <= 2 ^ 20 -> "
                      "Forall (fun v => Z.abs v < 2 ^ 62) (snd (gcd_t a b)) /\\ "
                      "Forall (fun v => Z.abs v < 2 ^ 62) (snd (lcm_t a b)) /\\ "
                      "Forall (fun v => Z.abs v < 2 ^ 62) (snd (egcd_t a b c))"),
    ("c11_fits_2_20_crt", "forall a1 m1 a2 m2 : Z, 1 <= m1 <= 2 ^ 20 -> 1 <= m2 <= 2 ^ 20 -> 0 <= a1 < m1 -> 0 <= a2 < m2 -> "
                          "Forall (fun v => Z.abs v < 2 ^ 62) (snd (crt_t a1 m1 a2 m2))"),
    ("c11_fits_general", "forall M a b c : Z, 1 <= M -> Z.abs a <= M -> Z.abs b <= M -> Z.abs c <= M -> "
                         "Forall (fun v => Z.abs v <= M) (snd (gcd_t a b)) /\\ "
                         "Forall (fun v => Z.abs v <= M * M) (snd (lcm_t a b)) /\\ "
                         "Forall (fun v => Z.abs v <= M * M) (snd (egcd_t a b c))"),
    ("c11_fits_general_crt", "forall M a1 m1 a2 m2 : Z, 1 <= m1 <= M -> 1 <= m2 <= M -> 0 <= a1 < m1 -> 0 <= a2 < m2 -> "
                             "Forall (fun v => Z.abs v <= M * M + M) (snd (crt_t a1 m1 a2 m2))"),
]
RULE = ("families (all cases pass through the same four Coq case constructors): "
        "base = exhaustive cube |a|,|b|,|c| <= K (K=6 quick, 12 thorough) for gcd/lcm/egcd and all (m1,m2) <= K with all reduced "
        "residues for crt on i64, boundary-biased samples up to 2^20 over i32/i64/i128/isize/u32/u64/u128, gcd (lcm when it fits) "
        "over the whole range of all 12 integer types (MIN of signed types excluded); "
        "edge = egcd/crt/lcm/gcd on all 6 signed types with operands at and just below isqrt(MAX) (the box for which "
        "c11_fits_general(_crt) proves that no intermediate overflows: 11/10 for i8 ... 1.3e19 for i128), primes, halves, mixes "
        "with small values; narrow_cube = the cube again on i8 and i16 (thorough: radius 12 filtered by the reference trace); "
        "traced = egcd/crt over the whole range of every signed type, keeping the inputs for which no intermediate of the "
        "reference algorithm (Python transcription of Trace.v) leaves the type - operands far above isqrt(MAX), non-coprime "
        "moduli whose product overflows but whose lcm fits, huge/tiny moduli; wide = gcd/lcm on all 12 types with log-uniform "
        "bit lengths from a multi-word generator, constants 2^k, 2^k+-1 (k = 7,8,15,16,31,32,33,63,64,65,127), MAX, MAX-1, "
        "-MAX, two-word operands with two-word common factors, lcm(MAX//k, k); fib = consecutive Fibonacci numbers (maximal "
        "number of division steps / recursion depth: up to 184) for gcd on all 12 types and egcd/crt on the signed ones; "
        "uegcd = egcd on the 6 unsigned types where x0 - q*y0 never goes below zero; zero = lcm(0,0), egcd(0,0,c), gcd(0,0) on "
        "all 12 types; plus (extra, Python oracle) ALL u8 and i8 pairs through gcd/lcm, thorough: i8 egcd with |c| <= 8 and "
        "i8 crt over all moduli pairs; non-trivial = neither operand zero and |a| != |b|")
TRUSTED = ["executor harness/crates/c11 (calls rlib_gcd::{gcd,lcm,egcd,crt} on the 12 primitive integer types and prints the result)",
           "checks/c11.py (case generator incl. the Python transcription of the reference trace used to keep cases inside the "
           "contract, Coq term printer, 8-bit sweep oracle)"]
ASSUMPTIONS = ["integers modelled as unbounded Z: the property excludes overflowing magnitudes. Cases are kept inside the contract "
               "either by theorem (operands <= isqrt(MAX): c11_fits_general, c11_fits_general_crt) or by running the reference "
               "algorithm in Python and checking that every intermediate value fits the type; a change of the code that makes a "
               "previously fitting input overflow is reported",
               "Rust / and % on signed integers are Z.quot and Z.rem",
               "isize/usize are exercised as 64-bit types (host build only)"]

SIGNED = ["i64", "i32", "i128", "isize"]
UNSIGNED = ["u64", "u32", "u128"]
W = {"u8": 8, "u16": 16, "u32": 32, "u64": 64, "u128": 128, "usize": 64,
     "i8": 8, "i16": 16, "i32": 32, "i64": 64, "i128": 128, "isize": 64}
ALL_SIGNED = ["i8", "i16", "i32", "i64", "i128", "isize"]
ALL_UNSIGNED = ["u8", "u16", "u32", "u64", "u128", "usize"]
FAMILY_COUNTS = {}          # tier -> {family: number of generated cases}; reported by extra()


def z(v):
    return "(%d)" % v


def harness_line(c):
    return " ".join([c["ty"], c["op"]] + [str(v) for v in c["args"]])


def parse(obs):
    t = obs.split()
    if t[0] == "P":
        return None
    return t[1:]


def coq_term(c, obs, profile):
    r = parse(obs)
    a = " ".join(z(v) for v in c["args"])
    if c["op"] in ("gcd", "lcm"):
        o = "Panic" if r is None else "(Ret %s)" % z(int(r[0]))
        return "(%s %s %s)" % ("CGcd" if c["op"] == "gcd" else "CLcm", a, o)
    if c["op"] == "egcd":
        o = "Panic" if r is None else ("(Ret None)" if r == ["none"] else "(Ret (Some (%s, %s)))" % (z(int(r[0])), z(int(r[1]))))
        return "(CEgcd %s %s)" % (a, o)
    o = "Panic" if r is None else ("(Ret None)" if r == ["none"] else "(Ret (Some %s))" % z(int(r[0])))
    return "(CCrt %s %s)" % (a, o)


def nontrivial(c, obs):
    a = c["args"]
    if c["op"] == "crt":
        return a[1] > 1 and a[3] > 1 and a[1] != a[3]
    return a[0] != 0 and a[1] != 0 and abs(a[0]) != abs(a[1])


def classify(c, obs):
    return "%s/%s/%s" % (c["op"], c["ty"], "panic" if obs == "P" else ("none" if obs == "R none" else "value"))


# ----------------------------------------------------------------------------- integer types and the reference trace
def tmax(ty):
    return (1 << W[ty]) - 1 if ty[0] == "u" else (1 << (W[ty] - 1)) - 1


def tlo(ty):
    """smallest value of the contract: MIN of a signed type is outside it (abs overflows)"""
    return 0 if ty[0] == "u" else -tmax(ty)


def fits(vals, ty):
    lo, hi = tlo(ty), tmax(ty)
    return all(lo <= v <= hi for v in vals)


def tq(a, b):
    """Rust `/` (truncating)"""
    q = abs(a) // abs(b)
    return q if (a < 0) == (b < 0) else -q


def trem(a, b):
    """Rust `%`"""
    return a - b * tq(a, b)


def gcdpy(a, b):
    a, b = abs(a), abs(b)
    while b:
        a, b = b, a % b
    return a


def gcd_trace(a, b):
    """(result, every intermediate value) of rlib_gcd::gcd as written: into_abs on both, then the remainders"""
    a, b = abs(a), abs(b)
    vals = [a, b]
    while b:
        a = a % b
        vals.append(a)
        a, b = b, a
    return a, vals


def lcm_trace(a, b):
    g, vals = gcd_trace(a, b)
    if g == 0:
        return "P", vals
    q = abs(a) // g
    return q * abs(b), vals + [q, q * abs(b)]


def egcd_trace(a, b, c):
    """(result, every intermediate value) of rlib_gcd::egcd as written (the same list as C11/Trace.v egcd_t):
    arguments, remainders and quotients of the descent, c % b0, c / b0, every q*y0 and x0 - q*y0 of the ascent.
    result: "P" | None | (x, y)"""
    vals = [a, b, c]
    qs = []
    while a != 0:
        r, q = trem(b, a), tq(b, a)
        vals += [r, q]
        qs.append(q)
        a, b = r, a
    if b == 0:
        return "P", vals
    r = trem(c, b)
    vals.append(r)
    if r != 0:
        return None, vals
    x, y = 0, tq(c, b)
    vals.append(y)
    for q in reversed(qs):
        pr = q * x
        x, y = y - pr, x
        vals += [pr, x]
    return (x, y), vals


def crt_trace(a1, m1, a2, m2):
    g, vals = gcd_trace(m1, m2)
    vals = vals + [-m2, a2 - a1]
    res, v2 = egcd_trace(m1, -m2, a2 - a1)
    vals += v2
    if res == "P" or res is None:
        return res, vals
    if g == 0:
        return "P", vals
    m2r = tq(m2, g)
    vals.append(m2r)
    if m2r == 0:
        return "P", vals
    t1 = trem(res[0], m2r)
    t2 = t1 + m2r
    t3 = trem(t2, m2r)
    t4 = m1 * t3
    t5 = t4 + a1
    return t5, vals + [t1, t2, t3, t4, t5]


def trace_of(c):
    op, a = c["op"], c["args"]
    if op == "gcd":
        return gcd_trace(*a)
    if op == "lcm":
        return lcm_trace(*a)
    if op == "egcd":
        return egcd_trace(*a)
    return crt_trace(*a)


def in_contract(c):
    """no intermediate value of the reference algorithm leaves the integer type (the property's quantifier)"""
    res, vals = trace_of(c)
    return res != "P" and fits(list(c["args"]) + vals, c["ty"])


# ----------------------------------------------------------------------------- random helpers (Rng.below is 64 bit)
def wbits(rng, n):
    """n uniformly random bits, from as many 64-bit words as needed"""
    v, k = 0, 0
    while k < n:
        v = (v << 64) | rng.next()
        k += 64
    return v >> (k - n) if n > 0 else 0


def wbelow(rng, n):
    """uniform in [0, n) for n of any size"""
    return wbits(rng, n.bit_length() + 64) % n if n > 0 else 0


def logu(rng, top):
    """log-uniform in [0, top]: a uniformly chosen bit length, then a uniform value of that length"""
    L = rng.range(0, top.bit_length())
    if L == 0:
        return 0
    v = (1 << (L - 1)) | wbits(rng, L - 1)
    return v if v <= top else top - wbelow(rng, min(top, 1 << 16) + 1)


def sgn(rng, v, signed=True):
    return -v if signed and rng.chance(1, 2) else v


_MR = [2, 3, 5, 7, 11, 13, 17, 19, 23, 29, 31, 37, 41]


def is_prime(n):
    if n < 2:
        return False
    for p in _MR:
        if n % p == 0:
            return n == p
    d, s = n - 1, 0
    while d % 2 == 0:
        d //= 2
        s += 1
    for a in _MR:            # deterministic below 3.3e24
        x = pow(a, d, n)
        if x in (1, n - 1):
            continue
        for _ in range(s - 1):
            x = x * x % n
            if x == n - 1:
                break
        else:
            return False
    return True


def prev_prime(n):
    while n > 2 and not is_prime(n):
        n -= 1
    return max(n, 2)


def interesting(rng, bound, signed):
    k = rng.below(8)
    if k == 0:
        v = rng.choice([0, 1, 2, bound, bound - 1, 1 << rng.below(bound.bit_length())])
    elif k == 1:
        v = rng.range(0, 30)
    else:
        v = rng.range(0, bound)
    if signed and rng.chance(2, 5):
        v = -v
    return v


def compatible_residue(rng, a1, m1, m2):
    g = gcdpy(m1, m2)
    return (a1 % g + g * wbelow(rng, max(1, m2 // g))) % m2


def residue(rng, m):
    k = rng.below(6)
    return 0 if k == 0 else (m - 1 if k == 1 else wbelow(rng, m))


# ----------------------------------------------------------------------------- the original families
def fam_base(rng, tier):
    cases = []
    K = 6 if tier == "quick" else 12
    # exhaustive small cube on i64
    for a in range(-K, K + 1):
        for b in range(-K, K + 1):
            cases.append({"ty": "i64", "op": "gcd", "args": [a, b]})
            if (a, b) != (0, 0):
                cases.append({"ty": "i64", "op": "lcm", "args": [a, b]})
            for c in range(-K, K + 1):
                if (a, b) != (0, 0):
                    cases.append({"ty": "i64", "op": "egcd", "args": [a, b, c]})
    for m1 in range(1, K + 1):
        for m2 in range(1, K + 1):
            for a1 in range(m1):
                for a2 in range(m2):
                    cases.append({"ty": "i64", "op": "crt", "args": [a1, m1, a2, m2]})
    # the division-by-zero corner (outside the property, modelled as Panic): both sides must panic
    cases.append({"ty": "i64", "op": "lcm", "args": [0, 0]})
    cases.append({"ty": "i64", "op": "egcd", "args": [0, 0, 5]})
    # every instantiation over its WHOLE range (gcd never overflows; lcm only when it fits; MIN of the signed types
    # is outside the contract): operands with the top bit set are where an unsigned type differs from a signed one
    per = 40 if tier == "quick" else 1200
    for ty in ["u8", "u16", "u32", "u64", "u128", "usize", "i8", "i16", "i32", "i64", "i128", "isize"]:
        unsigned = ty[0] == "u"
        top = tmax(ty)
        def pick():
            k = rng.below(6)
            if k == 0:
                return rng.choice([top, top - 1, (top + 1) // 2, (top + 1) // 2 + 1, (top + 1) // 2 - 1, top - top // 3])
            if k == 1:
                return rng.range(0, 40)
            if k == 2:
                return top - rng.range(0, 40)
            return wbelow(rng, top + 1)
        for _ in range(per):
            a, b = pick(), pick()
            if rng.chance(1, 3) and a != 0:
                g = rng.choice([2, 3, 4, 5, 7, 25, 100])
                a, b = (a // g) * g, (b // g) * g      # a common factor
            if rng.chance(1, 5) and a != 0:
                b = a // rng.range(1, 5)
            if not unsigned:
                if rng.chance(1, 2):
                    a = -a
                if rng.chance(1, 2):
                    b = -b
            cases.append({"ty": ty, "op": "gcd", "args": [a, b]})
            g = gcdpy(a, b)
            if g != 0 and abs(a) // g * abs(b) <= top:
                cases.append({"ty": ty, "op": "lcm", "args": [a, b]})
    # sampled, boundary biased
    n = 1500 if tier == "quick" else 40000
    for _ in range(n):
        op = rng.choice(["gcd", "lcm", "egcd", "egcd", "crt", "crt"])
        signed = rng.chance(3, 4) or op == "crt"
        ty = rng.choice(SIGNED if signed else UNSIGNED)
        small = ty in ("i32", "u32")
        bound = (1 << 10) if (small and op in ("egcd", "crt", "lcm")) else (1 << 20)
        if op == "crt":
            m1 = max(1, abs(interesting(rng, bound, False)))
            m2 = max(1, abs(interesting(rng, bound, False)))
            if rng.chance(1, 3):
                g = rng.range(1, 64)
                m1, m2 = min(bound, m1 * g), min(bound, m2 * g)
            a1, a2 = rng.below(m1), rng.below(m2)
            if rng.chance(1, 2):   # make it compatible
                g = gcdpy(m1, m2)
                a2 = (a1 % g + g * rng.below(max(1, m2 // g))) % m2
            cases.append({"ty": ty, "op": op, "args": [a1, m1, a2, m2]})
            continue
        a = interesting(rng, bound, signed)
        b = interesting(rng, bound, signed)
        if rng.chance(1, 4) and a != 0:
            b = a * rng.range(-3, 3) if signed else a * rng.range(0, 3)
            if abs(b) > bound:
                b = a
        if op in ("lcm", "egcd") and a == 0 and b == 0:
            b = 1
        if op == "egcd":
            if not signed:
                # unsigned egcd underflows on x0 - q*y0 for general operands (see fam_uegcd for those that do not)
                ty = rng.choice(SIGNED)
                bound = (1 << 10) if ty == "i32" else (1 << 20)
                a, b = max(-bound, min(bound, a)), max(-bound, min(bound, b))
            c = interesting(rng, bound, True)
            if rng.chance(1, 2):
                g = gcdpy(a, b)
                c = g * rng.range(-8, 8)
            cases.append({"ty": ty, "op": op, "args": [a, b, c]})
        else:
            cases.append({"ty": ty, "op": op, "args": [a, b]})
    return cases


# ----------------------------------------------------------------------------- G1: the edge of the contract
def edge_bounds(ty):
    """Me: largest M with M*M <= MAX (egcd, lcm: c11_fits_general); Mc: largest M with M*M + M <= MAX (crt:
    c11_fits_general_crt).  Operands up to these are inside the contract BY THEOREM."""
    mx = tmax(ty)
    me = math.isqrt(mx)
    mc = me
    while mc * mc + mc > mx:
        mc -= 1
    return me, mc


_PRIMES = {}


def edge_pick(rng, M):
    k = rng.below(10)
    if k <= 2:
        return max(0, M - rng.below(min(41, M + 1)))
    if k == 3:
        return max(0, rng.choice([M, M - 1, M - 2, M // 2, M // 2 + 1, M // 2 - 1]))
    if k == 4:
        n = max(2, M - rng.below(min(200, M)))
        if n not in _PRIMES:
            _PRIMES[n] = prev_prime(n)
        return _PRIMES[n]
    if k == 5:
        return rng.range(0, min(30, M))
    if k == 6:
        return M // rng.range(2, 9)
    return wbelow(rng, M + 1)


def fam_edge(rng, tier):
    """operands at and just below isqrt(MAX) of every signed type: the largest box for which the proved bound on the
    model's intermediates (M*M, M*M+M) guarantees that nothing overflows"""
    cases = []
    ne, nc, nl, ng = (36, 36, 12, 8) if tier == "quick" else (1200, 1200, 300, 150)
    for ty in ALL_SIGNED:
        me, mc = edge_bounds(ty)
        for _ in range(ne):
            a, b = sgn(rng, edge_pick(rng, me)), sgn(rng, edge_pick(rng, me))
            if rng.chance(1, 6) and a != 0:
                k = rng.range(-4, 4)
                b = a * k if abs(a * k) <= me else a
            if a == 0 and b == 0:
                b = me
            g = gcdpy(a, b)
            k = rng.below(6)
            if k <= 1:
                c = sgn(rng, g * wbelow(rng, me // g + 1))          # solvable, |c| <= Me
            elif k == 2:
                c = sgn(rng, g * (me // g))                         # the largest solvable right-hand side
            elif k == 3:
                c = sgn(rng, g * rng.range(0, min(3, me // g)))
            else:
                c = sgn(rng, edge_pick(rng, me))
            cases.append({"ty": ty, "op": "egcd", "args": [a, b, c]})
        for _ in range(nc):
            m1, m2 = max(1, edge_pick(rng, mc)), max(1, edge_pick(rng, mc))
            if rng.chance(1, 3):                                    # a planted common factor
                g = max(1, rng.choice([2, 3, 4, 6, 10, edge_pick(rng, max(1, math.isqrt(mc)))]))
                m1, m2 = max(1, m1 // g) * g, max(1, m2 // g) * g
                m1, m2 = (m1 if m1 <= mc else g), (m2 if m2 <= mc else g)
            a1, a2 = residue(rng, m1), residue(rng, m2)
            if rng.chance(1, 2):
                a2 = compatible_residue(rng, a1, m1, m2)
            cases.append({"ty": ty, "op": "crt", "args": [a1, m1, a2, m2]})
        for i in range(nl + ng):
            a, b = sgn(rng, edge_pick(rng, me)), sgn(rng, edge_pick(rng, me))
            if a == 0 and b == 0:
                a = me
            cases.append({"ty": ty, "op": "lcm" if i < nl else "gcd", "args": [a, b]})
    return cases


def fam_narrow_cube(rng, tier):
    """G5: the i64 cube again on i8 and i16, every case whose reference trace stays inside the type (the Coq terms are
    the ones of the i64 cube, so this costs executor time only); in the quick tier also a spread of the i8 cube of
    radius 11 (egcd) / 10 (crt), which is exhaustive in the thorough tier"""
    cases = []
    K = 6 if tier == "quick" else 12
    for ty in ("i8", "i16"):
        for a in range(-K, K + 1):
            for b in range(-K, K + 1):
                cases.append({"ty": ty, "op": "gcd", "args": [a, b]})
                if (a, b) == (0, 0):
                    continue
                cases.append({"ty": ty, "op": "lcm", "args": [a, b]})
                for c in range(-K, K + 1):
                    cases.append({"ty": ty, "op": "egcd", "args": [a, b, c]})
        for m1 in range(1, K + 1):
            for m2 in range(1, K + 1):
                for a1 in range(m1):
                    for a2 in range(m2):
                        cases.append({"ty": ty, "op": "crt", "args": [a1, m1, a2, m2]})
    cases = [c for c in cases if in_contract(c)]
    if tier == "quick":
        for _ in range(300):
            a, b, c = rng.range(-11, 11), rng.range(-11, 11), rng.range(-11, 11)
            if max(abs(a), abs(b), abs(c)) > 6 and (a, b) != (0, 0):
                cases.append({"ty": "i8", "op": "egcd", "args": [a, b, c]})
        for _ in range(150):
            m1, m2 = rng.range(1, 10), rng.range(1, 10)
            if max(m1, m2) > 6:
                cases.append({"ty": "i8", "op": "crt", "args": [rng.below(m1), m1, rng.below(m2), m2]})
    return cases


def fam_traced(rng, tier):
    """G1.3: signed egcd / crt over the WHOLE range of every signed type, keeping exactly the inputs for which no
    intermediate value of the reference algorithm (Python transcription of the Rust text = C11/Trace.v) leaves the
    type: the property's own quantifier.  Operands far above isqrt(MAX), unbalanced and non-coprime moduli whose
    product does not fit but whose lcm does."""
    cases = []
    n = 40 if tier == "quick" else 1500
    for ty in ALL_SIGNED:
        top = tmax(ty)
        me, mc = edge_bounds(ty)
        got, tries = 0, 0
        while got < n and tries < 40 * n:
            tries += 1
            a, b = sgn(rng, logu(rng, top)), sgn(rng, logu(rng, top))
            k = rng.below(8)
            if k == 0 and a != 0:
                b = sgn(rng, abs(a) // rng.range(1, 9))
            elif k == 1:
                g = logu(rng, top)
                if g:
                    a, b = sgn(rng, g * logu(rng, top // g)), sgn(rng, g * logu(rng, top // g))
            elif k == 2:
                a = sgn(rng, top - rng.below(min(top, 50)))
            if a == 0 and b == 0:
                continue
            g = gcdpy(a, b)
            big = max(abs(a), abs(b)) // g
            k = rng.below(7)
            if k <= 1:
                c = g * rng.range(-3, 3)
            elif k == 2:
                c = sgn(rng, g * logu(rng, max(1, top // max(1, big))))      # as large a multiplier as can fit
            elif k == 3:
                c = sgn(rng, logu(rng, top))
            elif k == 4:
                c = 0
            elif k == 5:
                c = sgn(rng, rng.range(0, 30))
            else:
                c = sgn(rng, g)
            cs = {"ty": ty, "op": "egcd", "args": [a, b, c]}
            if abs(c) <= top and in_contract(cs):
                cases.append(cs)
                got += 1
        got, tries = 0, 0
        while got < n and tries < 40 * n:
            tries += 1
            k = rng.below(6)
            if k == 0:
                m1 = logu(rng, top)
                m2 = logu(rng, top // max(1, m1))
            elif k == 1:                       # large common factor: product overflows, lcm fits
                g = max(1, logu(rng, top))
                lim = max(1, math.isqrt(top // g))
                m1, m2 = g * max(1, logu(rng, lim)), g * max(1, logu(rng, lim))
            elif k == 2:                       # just above the proved box
                m1, m2 = mc + rng.range(0, 3), mc - rng.range(0, 40)
            elif k == 3:                       # one modulus divides the other
                m2 = max(1, logu(rng, top))
                m1 = m2 * max(1, logu(rng, top // m2))
            elif k == 4:                       # unbalanced: a huge and a tiny modulus
                m2 = rng.range(1, 12)
                m1 = top // m2 - rng.below(50)
            else:
                m1, m2 = logu(rng, top), logu(rng, top)
            m1, m2 = max(1, m1), max(1, m2)
            if m1 > top or m2 > top:
                continue
            if rng.chance(1, 2):
                m1, m2 = m2, m1
            a1, a2 = residue(rng, m1), residue(rng, m2)
            if rng.chance(2, 3):
                a2 = compatible_residue(rng, a1, m1, m2)
            cs = {"ty": ty, "op": "crt", "args": [a1, m1, a2, m2]}
            if in_contract(cs):
                cases.append(cs)
                got += 1
    return cases


# ----------------------------------------------------------------------------- G2/G3: all magnitudes, word boundaries
BOUNDARY_K = [7, 8, 15, 16, 31, 32, 33, 63, 64, 65, 127]


def fam_wide(rng, tier):
    """gcd (and lcm when it fits) on all 12 types with log-uniform magnitudes drawn from a multi-word generator
    (Rng.below alone never exceeds 2^64), word-boundary constants 2^k, 2^k +- 1, MAX, MAX-1, -MAX; for the 128-bit
    types pairs of independent two-word operands, also with a planted two-word common factor"""
    cases = []
    n = 60 if tier == "quick" else 1500
    for ty in ALL_UNSIGNED + ALL_SIGNED:
        signed = ty[0] == "i"
        top = tmax(ty)
        w = W[ty]
        bnd = sorted({v for k in BOUNDARY_K for v in ((1 << k) - 1, 1 << k, (1 << k) + 1) if v <= top}
                     | {top, top - 1, top // 2, top // 2 + 1, top // 2 + 2, top // 4, top // 4 + 1, top // 4 + 2, top - top // 3})
        def pick():
            k = rng.below(8)
            if k == 0:
                return rng.choice(bnd)
            if k == 1:
                return rng.range(0, 40)
            if k == 2 and w >= 64:
                return (1 << (w // 2)) + wbelow(rng, top - (1 << (w // 2)))     # upper half of the words in use
            return logu(rng, top)
        for i in range(n):
            a, b = pick(), pick()
            k = rng.below(8)
            if k == 0:                               # a planted common factor of any size
                g = max(1, logu(rng, top))
                a, b = g * logu(rng, top // g), g * logu(rng, top // g)
            elif k == 1 and w == 128:                # a two-word common factor times small cofactors
                g = (1 << 64) + wbelow(rng, 1 << 60)
                a, b = g * rng.range(1, (top // g)), g * rng.range(1, (top // g))
            elif k == 2 and a != 0:
                b = a // rng.range(1, 5)
            elif k == 3 and a != 0:
                m = rng.range(0, 3)
                b = a * m if a * m <= top else a
            elif k == 4:                             # lcm close to MAX: lcm(MAX // k, k)
                kk = rng.range(1, 40)
                a, b = top // kk, kk
            a, b = sgn(rng, a, signed), sgn(rng, b, signed)
            cases.append({"ty": ty, "op": "gcd", "args": [a, b]})
            if rng.chance(1, 2):
                cases.append({"ty": ty, "op": "gcd", "args": [b, a]})
            g = gcdpy(a, b)
            if g != 0 and abs(a) // g * abs(b) <= top:
                cases.append({"ty": ty, "op": "lcm", "args": [a, b]})
    return cases


# ----------------------------------------------------------------------------- G4: worst-case Euclid
def fam_fib(rng, tier):
    """consecutive Fibonacci numbers, the inputs with the most division steps / the deepest egcd recursion that a type
    admits (u64: 91 steps, u128: 184): gcd on all 12 types, egcd (signed, c = +-1, small) and crt whenever the
    reference trace stays inside the type"""
    cases = []
    for ty in ALL_UNSIGNED + ALL_SIGNED:
        signed = ty[0] == "i"
        top = tmax(ty)
        fs = [1, 2]
        while fs[-1] + fs[-2] <= top:
            fs.append(fs[-1] + fs[-2])
        ks = list(range(len(fs) - 1))
        if tier == "quick":
            ks = [k for k in ks if k >= len(fs) - 7 or k % 6 == 0]
        for k in ks:
            lo, hi = fs[k], fs[k + 1]
            for (a, b) in ((lo, hi), (hi, lo)):
                if tier == "quick":
                    cases.append({"ty": ty, "op": "gcd", "args": [sgn(rng, a, signed), sgn(rng, b, signed)]})
                else:
                    for sa in ((1, -1) if signed else (1,)):
                        for sb in ((1, -1) if signed else (1,)):
                            cases.append({"ty": ty, "op": "gcd", "args": [sa * a, sb * b]})
                if signed:
                    for c in ([sgn(rng, 1)] if tier == "quick" else [1, -1, 0, sgn(rng, rng.range(2, 9))]):
                        cs = {"ty": ty, "op": "egcd", "args": [sgn(rng, a), sgn(rng, b), c]}
                        if in_contract(cs):
                            cases.append(cs)
                    cs = {"ty": ty, "op": "crt", "args": [residue(rng, a), a, residue(rng, b), b]}
                    if in_contract(cs):
                        cases.append(cs)
                    # Lucas-like neighbours: long quotient sequences with a few quotients other than 1
                    cs = {"ty": ty, "op": "egcd", "args": [sgn(rng, a), sgn(rng, max(1, b - rng.range(1, 3))), sgn(rng, 1)]}
                    if tier != "quick" and in_contract(cs):
                        cases.append(cs)
    return cases


# ----------------------------------------------------------------------------- G6: unsigned egcd where it is defined
def fam_uegcd(rng, tier):
    """egcd on the 6 unsigned types for the inputs on which x0 - q*y0 never goes below zero (first coefficient zero,
    one coefficient dividing the other, right-hand side zero, unsolvable right-hand sides, and whatever else the
    reference trace accepts)"""
    cases = []
    n = 30 if tier == "quick" else 500
    for ty in ALL_UNSIGNED:
        top = tmax(ty)
        got, tries = 0, 0
        while got < n and tries < 60 * n:
            tries += 1
            k = rng.below(8)
            small = rng.chance(1, 2)
            pick = (lambda: rng.range(0, 40)) if small else (lambda: logu(rng, top))
            if k == 0:
                a, b = 0, max(1, pick())
            elif k == 1:
                a = max(1, pick())
                b = a * logu(rng, top // a)
            elif k == 2:
                b = max(1, pick())
                a = b * logu(rng, top // b)
            else:
                a, b = pick(), pick()
            if a == 0 and b == 0:
                continue
            g = gcdpy(a, b)
            kc = rng.below(5)
            if kc == 0:
                c = 0
            elif kc == 1:
                c = g * logu(rng, top // g)
            elif kc == 2:
                c = g * rng.range(0, 5)
            elif kc == 3:
                c = g
            else:
                c = pick()
            cs = {"ty": ty, "op": "egcd", "args": [a, b, c]}
            if c <= top and in_contract(cs):
                cases.append(cs)
                got += 1
    return cases


def fam_zero(rng, tier):
    """the division-by-zero corner on every instantiation (outside the property; modelled as Panic)"""
    cases = []
    for ty in ALL_UNSIGNED + ALL_SIGNED:
        cases.append({"ty": ty, "op": "lcm", "args": [0, 0]})
        cases.append({"ty": ty, "op": "egcd", "args": [0, 0, rng.range(0, 9)]})
        cases.append({"ty": ty, "op": "gcd", "args": [0, 0]})
    return cases


FAMILIES = [("base", fam_base), ("edge", fam_edge), ("narrow_cube", fam_narrow_cube), ("traced", fam_traced),
            ("wide", fam_wide), ("fib", fam_fib), ("uegcd", fam_uegcd), ("zero", fam_zero)]


def generate(rng, tier):
    cases, counts = [], {}
    for name, fn in FAMILIES:
        cs = fn(rng if name == "base" else rng.fork("fam-" + name), tier)
        counts[name] = len(cs)
        cases += cs
    FAMILY_COUNTS.setdefault(tier, counts)
    return cases


def shrink(c):
    out = []
    args = c["args"]
    inside = in_contract(c)
    for i, v in enumerate(args):
        for w in {0, v // 2, v - 1 if v > 0 else v + 1, -v if v < 0 else v}:
            if w != v:
                if c["op"] == "crt" and i in (1, 3) and w < 1:
                    continue
                n = list(args)
                n[i] = w
                if c["op"] == "crt":
                    if not (0 <= n[0] < n[1] and 0 <= n[2] < n[3]):
                        continue
                cand = dict(c, args=n)
                # a case inside the contract is only shrunk to cases inside the contract (an overflowing intermediate
                # of the reference algorithm is not a finding)
                if inside and not in_contract(cand):
                    continue
                out.append(cand)
    if c["ty"] != "i64" and c["ty"][0] == "i":
        out.append(dict(c, ty="i64"))
    return out


# ----------------------------------------------------------------------------- implementation-level exhaustive sweep
def obs_of(res):
    if res == "P":
        return "P"
    if res is None:
        return "R none"
    return "R %d %d" % res if isinstance(res, tuple) else "R %d" % res


def property_holds(case, obs):
    """the specification itself (not the reference algorithm), decided in Python on one observation"""
    op, a = case["op"], case["args"]
    t = obs.split()
    if t[0] == "P":
        return False
    if op == "gcd":
        return int(t[1]) == math.gcd(a[0], a[1])
    if op == "lcm":
        return int(t[1]) == abs(a[0]) // math.gcd(a[0], a[1]) * abs(a[1])
    if op == "egcd":
        solvable = a[2] % math.gcd(a[0], a[1]) == 0
        if t[1] == "none":
            return not solvable
        return solvable and a[0] * int(t[1]) + a[1] * int(t[2]) == a[2]
    g = math.gcd(a[1], a[3])
    compatible = (a[2] - a[0]) % g == 0
    if t[1] == "none":
        return not compatible
    x = int(t[1])
    return compatible and 0 <= x < a[1] // g * a[3] and x % a[1] == a[0] and x % a[3] == a[2]


def sweep_cases(tier):
    """ALL pairs of u8 and of i8 (MIN excluded) for gcd, and for lcm when the result fits; in the thorough tier also
    i8 egcd over all coefficient pairs with |c| <= 8 and i8 crt over all pairs of moduli with four residue pairs each,
    whenever the reference trace stays inside i8"""
    cases = []
    for ty, lo, hi in (("u8", 0, 255), ("i8", -127, 127)):
        for a in range(lo, hi + 1):
            for b in range(lo, hi + 1):
                cases.append({"ty": ty, "op": "gcd", "args": [a, b]})
                if (a, b) != (0, 0):
                    cases.append({"ty": ty, "op": "lcm", "args": [a, b]})
    if tier != "quick":
        for a in range(-127, 128):
            for b in range(-127, 128):
                if (a, b) != (0, 0):
                    for c in range(-8, 9):
                        cases.append({"ty": "i8", "op": "egcd", "args": [a, b, c]})
        for m1 in range(1, 128):
            for m2 in range(1, 128):
                g = math.gcd(m1, m2)
                for a1, a2 in ((0, 0), (m1 - 1, m2 - 1), (m1 // 2, (m1 // 2) % g), (m1 - 1, 0)):
                    cases.append({"ty": "i8", "op": "crt", "args": [a1, m1, a2 % m2, m2]})
    return cases


def extra(ctx, known):
    """G8: exhaustive 8-bit sweeps on every build profile against the reference trace and the specification, both
    evaluated in Python.  A search on the implementation; never counted as proof."""
    import _driver
    cases, exp = [], []
    for c in sweep_cases(ctx.tier):
        res, vals = trace_of(c)
        if res != "P" and fits(vals, c["ty"]):
            cases.append(c)
            exp.append(obs_of(res))
    lines = [harness_line(c) for c in cases]
    viol = []
    for profile in PROFILES:
        outs = _driver.run_impl(ctx.bins[profile], lines)
        bad = [(c, o, e) for c, o, e in zip(cases, outs, exp) if o != e]
        if bad:
            wrong = [t for t in bad if not property_holds(t[0], t[1])]
            c, o, e = min(wrong or bad, key=lambda t: sum(abs(x) for x in t[0]["args"]))
            viol.append({"name": "sweep8-%s-%s" % (c["ty"], c["op"]),
                         "kind": "counterexample" if wrong else "broken-correspondence", "nofail": not wrong,
                         "payload": {"what": "exhaustive 8-bit sweep: `%s` returned %r, the reference algorithm gives %r; %s "
                                             "(%d of %d calls differ, profile %s)"
                                             % (harness_line(c), o, e,
                                                "the result violates the specification" if wrong else
                                                "every differing result still satisfies the specification",
                                                len(bad), len(lines), profile),
                                     "case": c, "profile": profile, "impl_observation": o}})
            break
    cov = {"sweep8_calls_per_profile": len(lines), "sweep8_profiles": len(PROFILES)}
    if FAMILY_COUNTS.get(ctx.tier):
        cov["generated_per_family"] = FAMILY_COUNTS[ctx.tier]
    return {"coverage": cov, "violations": viol}


MANIFEST = {
    "text": "Theorems (Coq, no axioms) about an executable Gallina model of rlib_gcd over unbounded Z with truncating division: "
            "gcd = Z.gcd for all operands (any sign); lcm = Z.lcm unless both operands are zero (then it panics); egcd is sound "
            "(a*x + b*y = c for whatever it returns, no bound), never panics unless a = b = 0 and answers None exactly when "
            "gcd(a,b) does not divide c; crt on positive moduli and reduced residues returns the unique representative in "
            "[0, lcm) of a compatible system and None for an incompatible one; model_check implies spec_check on in-scope cases; "
            "instrumented variants (same results, proved) show every intermediate value is bounded by M*M (+M for crt) for "
            "operands up to M, hence below 2^62 for operands up to 2^20. The model is tied to the code on "
            "every run: the executor runs gcd/lcm/egcd/crt from /repo on an exhaustive small cube, boundary-biased samples, "
            "operands at the edge of the proved no-overflow box (isqrt(MAX)) of every signed type, whole-range inputs whose "
            "reference trace fits the type, word-boundary and multi-word operands, consecutive Fibonacci numbers (worst-case "
            "Euclid), unsigned egcd where it is defined (12 integer types, debug and release builds), and Coq proves "
            "model = implementation and implementation |= spec on every case; all 8-bit gcd/lcm pairs are swept against Python.",
    "level_note": "Trusted: Coq kernel + vm_compute; the Rust executor and the Python case printer / reference-trace filter; "
                  "integers are unbounded Z (overflow is outside the property's quantifier: cases stay where no intermediate "
                  "of the reference algorithm overflows); theorems are about the model, the correspondence is sampled.",
    "technique": "Coq proof over Gallina model + vm_compute correspondence batches against the Rust crate",
}
