"""C11 — gcd, lcm, egcd, crt (rlib/gcd)."""
ID = "C11"
CRATE = "c11"
COQ_DIR = "C11"
PROFILES = ["debug", "release"]
CORR_IMPORT = "From RlibV Require Import C11.Model C11.Corr.\nOpen Scope Z_scope."
AUDIT_IMPORT = "From Coq Require Import ZArith List.\nFrom RlibV Require Import C11.Model C11.Corr C11.Trace C11.Properties.\nOpen Scope Z_scope."
EXPLAIN = "explain"
AXIOM_ALLOW = []
THEOREMS = [
    ("c11_gcd", "forall a b : Z, Z.abs b < 2 ^ 130 -> gcd a b = Some (Z.gcd a b)"),
    ("c11_egcd_sound", "forall a b c x y : Z, egcd a b c = Ret (Some (x, y)) -> a * x + b * y = c"),
    ("c11_egcd_complete", "forall a b c : Z, (a, b) <> (0, 0) -> Z.abs a < 2 ^ 130 -> egcd a b c <> Panic /\\ (egcd a b c = Ret None <-> ~ (Z.gcd a b | c))"),
    ("c11_egcd_zero_panics", "forall c : Z, egcd 0 0 c = Panic"),
    ("c11_lcm", "forall a b : Z, (a, b) <> (0, 0) -> Z.abs b < 2 ^ 130 -> lcm a b = Some (Z.lcm a b)"),
    ("c11_lcm_zero_panics", "lcm 0 0 = None"),
    ("c11_crt", "forall a1 m1 a2 m2 : Z, 1 <= m1 < 2 ^ 130 -> 1 <= m2 < 2 ^ 130 -> 0 <= a1 < m1 -> 0 <= a2 < m2 -> "
                "((Z.gcd m1 m2 | a2 - a1) -> exists x, crt a1 m1 a2 m2 = Ret (Some x) /\\ 0 <= x < Z.lcm m1 m2 /\\ x mod m1 = a1 /\\ x mod m2 = a2) "
                "/\\ (~ (Z.gcd m1 m2 | a2 - a1) -> crt a1 m1 a2 m2 = Ret None)"),
    ("c11_crt_unique", "forall m1 m2 x y : Z, 1 <= m1 -> 1 <= m2 -> 0 <= x < Z.lcm m1 m2 -> 0 <= y < Z.lcm m1 m2 -> "
                       "x mod m1 = y mod m1 -> x mod m2 = y mod m2 -> x = y"),
    ("c11_model_implies_spec", "forall c : case, in_scope c -> model_check c = true -> spec_check c = true"),
    ("c11_trace_same", "forall a b c a1 m1 a2 m2 : Z, fst (gcd_t a b) = gcd a b /\\ fst (lcm_t a b) = lcm a b /\\ "
                       "fst (egcd_t a b c) = egcd a b c /\\ fst (crt_t a1 m1 a2 m2) = crt a1 m1 a2 m2"),
    ("c11_fits_2_20", "forall a b c : Z, Z.abs a <= 2 ^ 20 -> Z.abs b <= 2 ^ 20 -> Z.abs c <= 2 ^ 20 -> "
                      "Forall (fun v => Z.abs v < 2 ^ 62) (snd (gcd_t a b)) /\\ "
                      "Forall (fun v => Z.abs v < 2 ^ 62) (snd (lcm_t a b)) /\\ "
                      "Forall (fun v => Z.abs v < 2 ^ 62) (snd (egcd_t a b c))"),
    ("c11_fits_2_20_crt", "forall a1 m1 a2 m2 : Z, 1 <= m1 <= 2 ^ 20 -> 1 <= m2 <= 2 ^ 20 -> 0 <= a1 < m1 -> 0 <= a2 < m2 -> "
                          "Forall (fun v => Z.abs v < 2 ^ 62) (snd (crt_t a1 m1 a2 m2))"),
    ("c11_fits_general", "forall M a b c : Z, 1 <= M -> Z.abs a <= M -> Z.abs b <= M -> Z.abs c <= M -> "
                         "Forall (fun v => Z.abs v <= M) (snd (gcd_t a b)) /\\ "
                         "Forall (fun v => Z.abs v <= M * M) (snd (lcm_t a b)) /\\ "
                         "Forall (fun v => Z.abs v <= M * M) (snd (egcd_t a b c))"),
    ("c11_fits_general_crt", "forall M a1 m1 a2 m2 : Z, 1 <= m1 <= M -> 1 <= m2 <= M -> 0 <= a1 < m1 -> 0 <= a2 < m2 -> "
                             "Forall (fun v => Z.abs v <= M * M + M) (snd (crt_t a1 m1 a2 m2))"),
]
RULE = ("exhaustive cube |a|,|b|,|c| <= K (K=6 quick, 12 thorough) for gcd/lcm/egcd, all (m1,m2) <= K with all reduced "
        "residues for crt, plus boundary-biased samples up to 2^20 (zeros, negatives, equal operands, multiples, "
        "coprime neighbours, powers of two) over i32/i64/i128/isize/u32/u64/u128, plus gcd/lcm over the whole range (top bit set included) of u8/u16/u32/u64/u128/usize/i8/i16; non-trivial = neither operand zero and |a| != |b|")
TRUSTED = ["executor harness/crates/c11 (calls rlib_gcd::{gcd,lcm,egcd,crt} and prints the result)",
           "checks/c11.py (case generator, Coq term printer)"]
ASSUMPTIONS = ["integers modelled as unbounded Z: the property excludes overflowing magnitudes; sampled operands stay <= 2^20 (i32: 2^10 for egcd/crt); gcd, and lcm when it fits, are also run on full-range operands of the narrow and unsigned types, where no intermediate can overflow",
               "Rust / and % on signed integers are Z.quot and Z.rem"]

SIGNED = ["i64", "i32", "i128", "isize"]
UNSIGNED = ["u64", "u32", "u128"]


def z(v):
    return "(%d)" % v


def harness_line(c):
    return " ".join([c["ty"], c["op"]] + [str(v) for v in c["args"]])


def parse(obs):
    t = obs.split()
    if t[0] == "P":
        return None
    return t[1:]


def coq_term(c, obs, profile):
    r = parse(obs)
    a = " ".join(z(v) for v in c["args"])
    if c["op"] in ("gcd", "lcm"):
        o = "Panic" if r is None else "(Ret %s)" % z(int(r[0]))
        return "(%s %s %s)" % ("CGcd" if c["op"] == "gcd" else "CLcm", a, o)
    if c["op"] == "egcd":
        o = "Panic" if r is None else ("(Ret None)" if r == ["none"] else "(Ret (Some (%s, %s)))" % (z(int(r[0])), z(int(r[1]))))
        return "(CEgcd %s %s)" % (a, o)
    o = "Panic" if r is None else ("(Ret None)" if r == ["none"] else "(Ret (Some %s))" % z(int(r[0])))
    return "(CCrt %s %s)" % (a, o)


def nontrivial(c, obs):
    a = c["args"]
    if c["op"] == "crt":
        return a[1] > 1 and a[3] > 1 and a[1] != a[3]
    return a[0] != 0 and a[1] != 0 and abs(a[0]) != abs(a[1])


def classify(c, obs):
    return "%s/%s/%s" % (c["op"], c["ty"], "panic" if obs == "P" else ("none" if obs == "R none" else "value"))


def interesting(rng, bound, signed):
    k = rng.below(8)
    if k == 0:
        v = rng.choice([0, 1, 2, bound, bound - 1, 1 << rng.below(bound.bit_length())])
    elif k == 1:
        v = rng.range(0, 30)
    else:
        v = rng.range(0, bound)
    if signed and rng.chance(2, 5):
        v = -v
    return v


def generate(rng, tier):
    cases = []
    K = 6 if tier == "quick" else 12
    # exhaustive small cube on i64
    for a in range(-K, K + 1):
        for b in range(-K, K + 1):
            cases.append({"ty": "i64", "op": "gcd", "args": [a, b]})
            if (a, b) != (0, 0):
                cases.append({"ty": "i64", "op": "lcm", "args": [a, b]})
            for c in range(-K, K + 1):
                if (a, b) != (0, 0):
                    cases.append({"ty": "i64", "op": "egcd", "args": [a, b, c]})
    for m1 in range(1, K + 1):
        for m2 in range(1, K + 1):
            for a1 in range(m1):
                for a2 in range(m2):
                    cases.append({"ty": "i64", "op": "crt", "args": [a1, m1, a2, m2]})
    # the division-by-zero corner (outside the property, modelled as Panic): both sides must panic
    cases.append({"ty": "i64", "op": "lcm", "args": [0, 0]})
    cases.append({"ty": "i64", "op": "egcd", "args": [0, 0, 5]})
    # narrow and unsigned instantiations over their WHOLE range (gcd never overflows; lcm only when it fits):
    # operands with the top bit set are where an unsigned type differs from a signed one of the same width
    BITS = {"u8": 8, "u16": 16, "u32": 32, "u64": 64, "u128": 128, "usize": 64, "i8": 8, "i16": 16}
    per = 40 if tier == "quick" else 1200
    for ty, w in BITS.items():
        unsigned = ty[0] == "u"
        top = (1 << w) - 1 if unsigned else (1 << (w - 1)) - 1
        def pick():
            k = rng.below(6)
            if k == 0:
                return rng.choice([top, top - 1, (top + 1) // 2, (top + 1) // 2 + 1, (top + 1) // 2 - 1, top - top // 3])
            if k == 1:
                return rng.range(0, 40)
            if k == 2:
                return top - rng.range(0, 40)
            return rng.range(0, top)
        for _ in range(per):
            a, b = pick(), pick()
            if rng.chance(1, 3) and a != 0:
                g = rng.choice([2, 3, 4, 5, 7, 25, 100])
                a, b = (a // g) * g, (b // g) * g      # a common factor
            if rng.chance(1, 5) and a != 0:
                b = a // rng.range(1, 5)
            if not unsigned:
                if rng.chance(1, 2):
                    a = -a
                if rng.chance(1, 2):
                    b = -b
            cases.append({"ty": ty, "op": "gcd", "args": [a, b]})
            g = gcdpy(a, b)
            if g != 0 and abs(a) // g * abs(b) <= top:
                cases.append({"ty": ty, "op": "lcm", "args": [a, b]})
    # sampled, boundary biased
    n = 1500 if tier == "quick" else 40000
    for _ in range(n):
        op = rng.choice(["gcd", "lcm", "egcd", "egcd", "crt", "crt"])
        signed = rng.chance(3, 4) or op == "crt"
        ty = rng.choice(SIGNED if signed else UNSIGNED)
        small = ty in ("i32", "u32")
        bound = (1 << 10) if (small and op in ("egcd", "crt", "lcm")) else (1 << 20)
        if op == "crt":
            m1 = max(1, abs(interesting(rng, bound, False)))
            m2 = max(1, abs(interesting(rng, bound, False)))
            if rng.chance(1, 3):
                g = rng.range(1, 64)
                m1, m2 = min(bound, m1 * g), min(bound, m2 * g)
            a1, a2 = rng.below(m1), rng.below(m2)
            if rng.chance(1, 2):   # make it compatible
                g = gcdpy(m1, m2)
                a2 = (a1 % g + g * rng.below(max(1, m2 // g))) % m2
            cases.append({"ty": ty, "op": op, "args": [a1, m1, a2, m2]})
            continue
        a = interesting(rng, bound, signed)
        b = interesting(rng, bound, signed)
        if rng.chance(1, 4) and a != 0:
            b = a * rng.range(-3, 3) if signed else a * rng.range(0, 3)
            if abs(b) > bound:
                b = a
        if op in ("lcm", "egcd") and a == 0 and b == 0:
            b = 1
        if op == "egcd":
            if not signed:
                # unsigned egcd underflows on x0 - q*y0; the property quantifies the signed solver only
                ty = rng.choice(SIGNED)
                bound = (1 << 10) if ty == "i32" else (1 << 20)
                a, b = max(-bound, min(bound, a)), max(-bound, min(bound, b))
            c = interesting(rng, bound, True)
            if rng.chance(1, 2):
                g = gcdpy(a, b)
                c = g * rng.range(-8, 8)
            cases.append({"ty": ty, "op": op, "args": [a, b, c]})
        else:
            cases.append({"ty": ty, "op": op, "args": [a, b]})
    return cases


def gcdpy(a, b):
    a, b = abs(a), abs(b)
    while b:
        a, b = b, a % b
    return a


def shrink(c):
    out = []
    args = c["args"]
    for i, v in enumerate(args):
        for w in {0, v // 2, v - 1 if v > 0 else v + 1, -v if v < 0 else v}:
            if w != v:
                if c["op"] == "crt" and i in (1, 3) and w < 1:
                    continue
                n = list(args)
                n[i] = w
                if c["op"] == "crt":
                    if not (0 <= n[0] < n[1] and 0 <= n[2] < n[3]):
                        continue
                out.append(dict(c, args=n))
    if c["ty"] != "i64" and c["ty"] in SIGNED:
        out.append(dict(c, ty="i64"))
    return out

MANIFEST = {
    "text": "Theorems (Coq, no axioms) about an executable Gallina model of rlib_gcd over unbounded Z with truncating division: "
            "gcd = Z.gcd for all operands (any sign); lcm = Z.lcm unless both operands are zero (then it panics); egcd is sound "
            "(a*x + b*y = c for whatever it returns, no bound), never panics unless a = b = 0 and answers None exactly when "
            "gcd(a,b) does not divide c; crt on positive moduli and reduced residues returns the unique representative in "
            "[0, lcm) of a compatible system and None for an incompatible one; model_check implies spec_check on in-scope cases; "
            "instrumented variants (same results, proved) show every intermediate value is bounded by M*M (+M for crt) for "
            "operands up to M, hence below 2^62 for operands up to 2^20. The model is tied to the code on "
            "every run: the executor runs gcd/lcm/egcd/crt from /repo on an exhaustive small cube plus boundary-biased samples "
            "(7 integer types) and Coq proves model = implementation and implementation |= spec on every case.",
    "level_note": "Trusted: Coq kernel + vm_compute; the Rust executor and the Python case printer; integers are unbounded Z "
                  "(overflow is outside the property's quantifier: operands <= 2^20); theorems are about the model, the "
                  "correspondence is sampled.",
    "technique": "Coq proof over Gallina model + vm_compute correspondence batches against the Rust crate",
}
