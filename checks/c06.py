"""C06 — Modular<M> is the ring Z/M with canonical representatives and true inverses (rlib/mint)."""
ID = "C06"
CRATE = "c06"
COQ_DIR = "C06"
COQ_DEPS = []
PROFILES = ["debug", "release"]
CORR_IMPORT = "From RlibV Require Import C06.Fixed C06.Model C06.Corr.\nOpen Scope Z_scope."
AUDIT_IMPORT = ("From Coq Require Import ZArith List Bool String.\n"
                "From RlibV Require Import Common.Iter C06.Fixed C06.Model C06.Corr C06.Properties.\nOpen Scope Z_scope.")
CASE_TYPE = "case"
EXPLAIN = "explain"
AXIOM_ALLOW = []
SHARD = 3000
THEOREMS = [
    ("c06_new",
     "forall M : Z, 2 <= M < 2 ^ 31 -> forall v : Z, - 2 ^ 63 <= v < 2 ^ 63 -> new M v = Some (v mod M) /\\ 0 <= v mod M < M"),
    ("c06_add",
     "forall M : Z, 2 <= M < 2 ^ 31 -> forall x y : Z, 0 <= x < M -> 0 <= y < M -> add M x y = Some ((x + y) mod M)"),
    ("c06_sub",
     "forall M : Z, 2 <= M < 2 ^ 31 -> forall x y : Z, 0 <= x < M -> 0 <= y < M -> sub M x y = Some ((x - y) mod M)"),
    ("c06_mul",
     "forall M : Z, 2 <= M < 2 ^ 31 -> forall x y : Z, 0 <= x < M -> 0 <= y < M -> mul M x y = Some ((x * y) mod M)"),
    ("c06_neg",
     "forall M : Z, 2 <= M < 2 ^ 31 -> forall x : Z, 0 <= x < M -> neg M x = Some ((- x) mod M)"),
    ("c06_pow",
     "forall M x d : Z, 2 <= M < 2 ^ 31 -> 0 <= x < M -> 0 <= d < 2 ^ 64 -> pow M x d = Some ((x ^ d) mod M)"),
    ("c06_pow_64",
     "forall M x d : Z, 2 <= M < 2 ^ 31 -> 0 <= x < M -> 0 <= d < 2 ^ 64 -> pow_loop M 65 x d = inr (Some ((x ^ d) mod M))"),
    ("c06_inv_no_overflow",
     "forall M : Z, 2 <= M < 2 ^ 31 -> forall v : Z, 0 <= v < M -> forall fuel : positive, inv_loop M fuel v <> inr None"),
    ("c06_inv_terminates",
     "forall M : Z, 2 <= M < 2 ^ 31 -> forall v : Z, 0 <= v < M -> forall fuel : positive, v < Zpos fuel -> exists x, inv_loop M fuel v = inr (Some x) /\\ Z.abs x <= M /\\ (x * v) mod M = Z.gcd v M mod M"),
    ("c06_inv_terminates_64",
     "forall M : Z, 2 <= M < 2 ^ 31 -> forall v : Z, 0 <= v < M -> exists x, inv_loop M 64 v = inr (Some x) /\\ Z.abs x <= M /\\ (x * v) mod M = Z.gcd v M mod M"),
    ("c06_inv_gcd",
     "forall M : Z, 2 <= M < 2 ^ 31 -> forall v : Z, 0 <= v < M -> exists r, inv M v = Some r /\\ 0 <= r < M /\\ (r * v) mod M = Z.gcd v M mod M"),
    ("c06_inv_correct",
     "forall M : Z, 2 <= M < 2 ^ 31 -> forall v : Z, 0 <= v < M -> Z.gcd v M = 1 -> exists r, inv M v = Some r /\\ 0 <= r < M /\\ (r * v) mod M = 1"),
    ("c06_div",
     "forall M x y : Z, 2 <= M < 2 ^ 31 -> 0 <= x < M -> 0 <= y < M -> Z.gcd y M = 1 -> exists q, div M x y = Some q /\\ 0 <= q < M /\\ mul M q y = Some x"),
    ("c06_canonical_eq",
     "forall M a b : Z, 2 <= M < 2 ^ 31 -> - 2 ^ 63 <= a < 2 ^ 63 -> - 2 ^ 63 <= b < 2 ^ 63 -> exists x y, new M a = Some x /\\ new M b = Some y /\\ 0 <= x < M /\\ 0 <= y < M /\\ (eqb x y = true <-> a mod M = b mod M)"),
    ("c06_bound_needed_refuted_at_2_31",
     "(exists v, - 2 ^ 63 <= v < 2 ^ 63 /\\ new (2 ^ 31) v <> Some (v mod 2 ^ 31)) /\\ (exists v, 0 <= v < 2 ^ 31 /\\ Z.gcd v (2 ^ 31) = 1 /\\ inv_loop (2 ^ 31) big_fuel v = inr None)"),
    ("c06_read",
     "forall M : Z, 2 <= M < 2 ^ 31 -> forall v : Z, - 2 ^ 63 <= v < 2 ^ 63 -> read M v = Some (v mod M)"),
    ("c06_write",
     "forall v : Z, 0 <= v < 2 ^ 32 -> exists s, render v = Some s /\\ sval s = v"),
    ("c06_write_canonical",
     "forall (x y : Z) (s : string), 0 <= x < 2 ^ 32 -> 0 <= y < 2 ^ 32 -> render x = Some s -> render y = Some s -> x = y"),
    ("c06_model_implies_spec",
     "forall c : case, model_check c = true -> spec_num c = true"),
    ("c06_model_implies_spec_strict",
     "forall c : case, model_check c = true -> spec_strict c = true"),
    ("c06_write_canonical_numeral",
     "forall v : Z, 0 <= v < 2 ^ 32 -> exists s, render v = Some s /\\ canon_dec v s = true"),
    ("c06_lower_bound_needed_refuted_at_1",
     "exists x d r, 0 <= x < 1 /\\ 0 <= d < 2 ^ 64 /\\ pow 1 x d = Some r /\\ ~ (0 <= r < 1)"),
]
RULE = ("moduli 2,3,4,6,7,11,12 (exhaustive: every operand pair in [0,M)^2 for + - * / == and the assigning forms, every "
        "residue for neg/inv/pow/new incl. non-canonical constructor arguments), 65536, 65537, 998244353, 1000000007, "
        "2147483647, 2147483646, 2147483629 (all pairs of the boundary residues 0,1,2,M-2,M-1,M/2,M/2+1, random residues, "
        "constructor arguments >= 2^31, negative, i64::MIN/MAX, multiples of M +-1; exponents 0,1,2,2^63,u64::MAX, random; "
        "inverses of units and non-units, quotient-heavy and Fibonacci-like operands); every case in the debug and the "
        "release profile; non-trivial = the integer result of the operation is not already the canonical representative "
        "(a reduction, a lift of a negative value or a conditional subtraction has to happen)")
TRUSTED = ["executor harness/crates/c06 (instantiates Modular<M> for 14 moduli, calls new/read/neg/inv/pow/+,-,*,/ and the "
           "assigning forms/==, prints inner(), Display, Debug, Writable output)",
           "checks/c06.py (case generator, Coq term printer)"]
ASSUMPTIONS = ["Rust semantics assumed by the model: `as` casts keep the low bits, + - * panic on overflow in debug builds and wrap "
               "in release builds (checked operations returning None), / and % on signed integers are Z.quot and Z.rem",
               "Readable is modelled as new applied to the parsed i64 (the decimal parser is property C08); Display/Debug delegate to "
               "u32's formatter, modelled by the same digit loop as Writable for u32",
               "only the 14 listed moduli are executed; the theorems quantify over every 2 <= M < 2^31"]

SMALL = [2, 3, 4, 6, 7, 11, 12]
BIG = [65536, 65537, 998244353, 1000000007, 2147483647, 2147483646, 2147483629]
I64_MIN, I64_MAX, U64_MAX = -(1 << 63), (1 << 63) - 1, (1 << 64) - 1
BINOPS = ["add", "sub", "mul", "div"]
COQ_BIN = {"add": "BAdd", "sub": "BSub", "mul": "BMul", "div": "BDiv"}


def z(v):
    return "(%d)" % v


def harness_line(c):
    return " ".join([str(c["m"]), c["op"]] + [str(v) for v in c["args"]])


def coq_str(s):
    return '"%s"' % s.replace('"', '""')


def coq_obs(obs, is_eq):
    t = obs.split()
    if not t or t[0] == "P":
        return "Panic"
    if is_eq:
        return "(Eq %s %s)" % ("true" if t[1] == "1" else "false", "true" if t[2] == "1" else "false")
    if t[2] == t[3] == t[4]:
        return "(ValS %s %s)" % (z(int(t[1])), coq_str(t[2]))
    return "(Val %s %s %s %s)" % (z(int(t[1])), coq_str(t[2]), coq_str(t[3]), coq_str(t[4]))


def coq_op(c):
    op, a = c["op"], c["args"]
    if op == "new":
        return "(ONew %s)" % z(a[0])
    if op in ("read", "readfar"):     # readfar: the same token placed across the Reader's 64 KiB refill boundary
        return "(ORead %s)" % z(a[0])
    if op == "neg":
        return "(ONeg %s)" % z(a[0])
    if op == "inv":
        return "(OInv %s)" % z(a[0])
    if op == "pow":
        return "(OPow %s %s)" % (z(a[0]), z(a[1]))
    if op == "eq":
        return "(OEq %s %s)" % (z(a[0]), z(a[1]))
    assign = op.endswith("a") and op[:-1] in COQ_BIN
    k = op[:-1] if assign else op
    return "(OBin %s %s %s %s)" % (COQ_BIN[k], "true" if assign else "false", z(a[0]), z(a[1]))


def coq_term(c, obs, profile):
    return "(C %s %s %s)" % (z(c["m"]), coq_op(c), coq_obs(obs, c["op"] == "eq"))


def gcdpy(a, b):
    a, b = abs(a), abs(b)
    while b:
        a, b = b, a % b
    return a


def base_op(op):
    return op[:-1] if (op.endswith("a") and op[:-1] in COQ_BIN) else op


def nontrivial(c, obs):
    m, a, op = c["m"], c["args"], base_op(c["op"])
    if op in ("new", "read", "readfar"):
        return not (0 <= a[0] < m)
    if op == "neg":
        return a[0] % m != 0
    if op == "inv":
        return a[0] % m > 1
    if op == "pow":
        return a[1] >= 2 and a[0] % m > 1
    if op == "eq":
        return a[0] != a[1]
    x, y = a[0] % m, a[1] % m
    if op == "add":
        return x + y >= m
    if op == "sub":
        return x < y
    if op == "mul":
        return x * y >= m
    return y > 1 and x > 0    # div


def classify(c, obs):
    m = c["m"]
    mc = "small" if m <= 12 else ("2^31-" if m >= 2147483000 else ("prime30" if m > 70000 else "2^16"))
    kind = "panic" if obs.startswith("P") else "value"
    extra = ""
    if base_op(c["op"]) in ("inv", "div"):
        extra = "/unit" if gcdpy(c["args"][-1], m) == 1 else "/nonunit"
    return "%s/%s%s/%s" % (c["op"], mc, extra, kind)


def case(m, op, *args):
    return {"m": m, "op": op, "args": list(args)}


def clamp_i64(v):
    return max(I64_MIN, min(I64_MAX, v))


def ctor_args(rng, m, n_random):
    """constructor arguments that stress the i64 -> i32 narrowing and the negative fix-up"""
    kmax = I64_MAX // m
    kmin = -(-I64_MIN // m)
    vals = [0, 1, -1, m - 1, m, m + 1, -m, -m + 1, -m - 1, 2 * m - 1, 2 * m, -2 * m + 1, 1 - m,
            1 << 31, (1 << 31) - 1, (1 << 31) + 1, 1 << 32, (1 << 32) - 1, (1 << 32) + 1, -(1 << 31), -(1 << 31) - 1,
            -(1 << 31) + 1, -(1 << 32), -(1 << 32) + 1, (1 << 62), -(1 << 62),
            I64_MIN, I64_MIN + 1, I64_MAX, I64_MAX - 1,
            kmax * m, kmax * m - 1, kmax * m + 1, kmin * m, kmin * m + 1, kmin * m - 1]
    for _ in range(n_random):
        k = rng.range(kmin, kmax)
        vals.append(k * m + rng.choice([-1, 0, 1, m // 2, -(m // 2)]))
        vals.append(rng.range(I64_MIN, I64_MAX))
        vals.append(rng.range(-(1 << 33), 1 << 33))
    return [clamp_i64(v) for v in vals]


def residues(rng, m, n_random):
    b = [0, 1, 2, m - 2, m - 1, m // 2, m // 2 + 1]
    return b, [rng.below(m) for _ in range(n_random)]


def exponents(rng, m, n_random):
    e = [0, 1, 2, 3, 1 << 63, (1 << 63) - 1, (1 << 63) + 1, U64_MAX, U64_MAX - 1, 1 << 32, (1 << 32) - 1, m - 1, m - 2, m]
    e += [rng.range(0, U64_MAX) for _ in range(n_random)]
    e += [rng.range(0, 1 << rng.range(1, 63)) for _ in range(n_random)]
    return e


def inv_operands(rng, m, n_random):
    """units and non-units; M-1 / M/2 make the first quotient extreme, M/phi makes the loop longest"""
    phi = int(m * 0.6180339887498949)
    v = [0, 1, 2, 3, m - 1, m - 2, m // 2, m // 2 + 1, m // 3, phi, phi + 1, phi - 1, m - phi, 46341, 65535, 65536, 65537]
    for p in (2, 3, 7, 11, 31, 151, 331, 65536):
        if m % p == 0:
            v += [p, m // p, (m // p) * rng.range(1, p) % m, p * rng.range(1, max(1, m // p - 1)) % m]
    v += [rng.below(m) for _ in range(n_random)]
    return [x % m for x in v]


def generate(rng, tier):
    thorough = tier != "quick"
    cases = []
    # ---- small moduli: exhaustive
    for m in SMALL:
        for a in range(m):
            for b in range(m):
                for op in BINOPS + ["eq"]:
                    cases.append(case(m, op, a, b))
                for op in BINOPS:
                    if m <= 4 or thorough or rng.chance(1, 4):
                        cases.append(case(m, op + "a", a, b))
                # the same pair through non-canonical constructor arguments
                op = rng.choice(BINOPS + ["eq"] + [o + "a" for o in BINOPS])
                cases.append(case(m, op, a + m * rng.range(-3, 3), b - m * rng.range(-3, 3)))
        for v in range(-2 * m - 1, 2 * m + 2):
            cases.append(case(m, "new", v))
            cases.append(case(m, "read", v))
        for a in range(m):
            cases.append(case(m, "neg", a))
            cases.append(case(m, "inv", a))
            cases.append(case(m, "neg", a - m))
            cases.append(case(m, "inv", a + m * rng.range(-5, 5)))
            for d in list(range(0, 5)) + [1 << 63, U64_MAX, rng.range(0, U64_MAX)]:
                cases.append(case(m, "pow", a, d))
        for v in ctor_args(rng, m, 2):
            cases.append(case(m, rng.choice(["new", "read"]), v))
    # ---- large moduli: boundary and random
    nr = 12 if not thorough else 400
    for m in BIG:
        bnd, rnd = residues(rng, m, nr)
        pairs = [(a, b) for a in bnd for b in bnd]
        pairs += [(rng.choice(rnd), rng.choice(rnd)) for _ in range(nr)]
        pairs += [(rng.choice(rnd), rng.choice(bnd)) for _ in range(nr // 2)]
        pairs += [(rng.choice(bnd), rng.choice(rnd)) for _ in range(nr // 2)]
        for (a, b) in pairs:
            for op in BINOPS:
                # every pair runs every operator, in one of the two forms (thorough: both)
                if thorough:
                    cases.append(case(m, op, a, b))
                    cases.append(case(m, op + "a", a, b))
                else:
                    cases.append(case(m, op + ("a" if rng.chance(1, 3) else ""), a, b))
            if rng.chance(1, 4):
                cases.append(case(m, "eq", a, b))
        # b = M - a  (sum exactly M), b = a (difference 0), b = a +- 1
        for a in bnd + rnd[:3]:
            for b in sorted({(m - a) % m, a, (a + 1) % m, (a - 1) % m, (m - a - 1) % m, (m - a + 1) % m}):
                cases.append(case(m, rng.choice(["add", "add", "adda"]), a, b))
                cases.append(case(m, rng.choice(["sub", "sub", "suba"]), a, b))
                if thorough or rng.chance(1, 3):
                    cases.append(case(m, "eq", a, b))
        ca = ctor_args(rng, m, nr)
        for v in ca:
            cases.append(case(m, "new", v))
            if rng.chance(1, 2):
                cases.append(case(m, "read", v))
        # a value that arrives after 64 KiB of earlier input: its token straddles the Reader's refill boundary
        for v in [rng.choice(ca) for _ in range(3 if not thorough else 12)] + [I64_MIN, I64_MAX]:
            L = len(str(v))
            for d in sorted({1, 2, L // 2, L - 1, L, L + 1} - {0}):
                cases.append(case(m, "readfar", v, d))
        for _ in range(nr * 2):
            a, b = rng.choice(ca), rng.choice(ca)
            cases.append(case(m, rng.choice(BINOPS + ["eq", "adda", "suba", "mula", "diva"]), a, b))
            if rng.chance(1, 3):
                cases.append(case(m, "eq", a, a + m * rng.range(-4, 4) if abs(a) < (1 << 62) else a))
        for a in bnd + rnd[:6]:
            cases.append(case(m, "neg", a))
            cases.append(case(m, "neg", a - m))
        ex = exponents(rng, m, nr)
        for a in bnd:
            for d in [0, 1, 2, 1 << 63, U64_MAX, rng.choice(ex)]:
                cases.append(case(m, "pow", a, d))
        for d in ex:
            cases.append(case(m, "pow", rng.choice(rnd), d))
        for a in inv_operands(rng, m, 2 * nr):
            cases.append(case(m, "inv", a))
            if rng.chance(1, 2):
                cases.append(case(m, rng.choice(["div", "diva"]), rng.choice(rnd + bnd), a))
            if rng.chance(1, 4):
                cases.append(case(m, "inv", clamp_i64(a + m * rng.range(-(1 << 31), 1 << 31))))
    return cases


def shrink(c):
    out = []
    m, args = c["m"], c["args"]
    for i, v in enumerate(args):
        is_exp = (c["op"] == "pow" and i == 1)
        cands = [0, 1, v // 2, v - 1 if v > 0 else v + 1]
        if not is_exp:
            cands += [v % m, v % m - m] + ([-v] if v < 0 else [])
        else:
            cands += [2, 3]
        seen = set()
        for w in cands:
            if w != v and w not in seen and (w >= 0 or not is_exp) and abs(w) <= abs(v):
                seen.add(w)
                n = list(args)
                n[i] = w
                out.append(dict(c, args=n))
    # a smaller modulus with the same residues, and the operator form instead of the assigning one
    for m2 in SMALL + BIG:
        if m2 < m:
            out.append(dict(c, m=m2))
    if base_op(c["op"]) != c["op"]:
        out.append(dict(c, op=base_op(c["op"])))
    if c["op"] == "read":
        out.append(dict(c, op="new"))
    # a failure of / or pow is often a failure of * or inv underneath
    if c["op"] == "div":
        out.append(dict(c, op="mul"))
        out.append(dict(c, op="inv", args=[args[1]]))
    if c["op"] == "pow":
        out.append(dict(c, op="mul", args=[args[0], args[0]]))
    if c["op"] in ("mul", "add", "sub", "neg", "inv"):
        out.append(dict(c, op="new", args=[args[0]]))
    return out


def py_ok(c, obs):
    """the property, decided with Python integers (independent of the Coq model and of spec_check)"""
    m, a, op = c["m"], c["args"], base_op(c["op"])
    t = obs.split()
    if not t or t[0] != "R":
        return False
    if op == "eq":
        e = "1" if (a[0] - a[1]) % m == 0 else "0"
        return t[1:] == [e, e]
    if len(t) != 5 or not (t[1] == t[2] == t[3] == t[4]) or not t[1].isdigit() or str(int(t[1])) != t[1]:
        return False
    r = int(t[1])
    if not 0 <= r < m:
        return False
    if op in ("new", "read", "readfar"):
        return r == a[0] % m
    if op == "neg":
        return r == (-a[0]) % m
    if op == "inv":
        return gcdpy(a[0], m) != 1 or (r * a[0]) % m == 1
    if op == "pow":
        return r == pow(a[0] % m, a[1], m)
    if op == "add":
        return r == (a[0] + a[1]) % m
    if op == "sub":
        return r == (a[0] - a[1]) % m
    if op == "mul":
        return r == (a[0] * a[1]) % m
    return gcdpy(a[1], m) != 1 or (r * a[1]) % m == a[0] % m     # div


def extra(ctx, known):
    """implementation-level search (not a proof): many more random operations than Coq evaluates,
    judged with Python integers, both profiles"""
    from _driver import Rng, run_impl, short_hash
    n = 30000 if ctx.tier == "quick" else 600000
    rng = Rng(ctx.seed * 1000003 + 17).fork("C06-search")
    ops = BINOPS + [o + "a" for o in BINOPS] + ["eq", "new", "read", "neg", "inv", "pow"]
    cases = []
    for _ in range(n):
        m = rng.choice(BIG + BIG + SMALL)
        op = rng.choice(ops)

        def operand():
            k = rng.below(6)
            if k == 0:
                return rng.choice([0, 1, 2, m - 1, m - 2, m // 2, m // 2 + 1])
            if k == 1:
                return rng.range(I64_MIN, I64_MAX)
            if k == 2:
                return clamp_i64(m * rng.range(-(1 << 32), 1 << 32) + rng.range(-2, 2))
            return rng.below(m)
        if op in ("new", "read", "neg", "inv"):
            cases.append(case(m, op, operand()))
        elif op == "pow":
            d = rng.choice([rng.range(0, U64_MAX), rng.range(0, 70), (1 << rng.range(0, 63)) - rng.below(2), U64_MAX - rng.below(3)])
            cases.append(case(m, op, operand(), d))
        else:
            cases.append(case(m, op, operand(), operand()))
    lines = [harness_line(c) for c in cases]
    violations, bad = [], 0
    for profile in PROFILES:
        try:
            outs = run_impl(ctx.bins[profile], lines)
        except RuntimeError as e:
            return {"coverage": {"search_evaluations": 0},
                    "violations": [{"name": "search-crash", "kind": "broken-correspondence", "nofail": True,
                                    "payload": {"what": "executor crashed during the search", "log": str(e)[-2000:]}}]}
        for c, o in zip(cases, outs):
            if not py_ok(c, o):
                bad += 1
                if not violations:
                    violations.append({"name": "search-%s" % short_hash(harness_line(c) + profile),
                                       "payload": {"case": c, "profile": profile, "impl_observation": o,
                                                   "what": "implementation-level search: the result violates the property "
                                                           "(judged with Python integers)"}})
    return {"coverage": {"search_evaluations": len(cases) * len(PROFILES), "search_failures": bad,
                         "search_rule": "uniform choice of modulus (14) and operation (14), operands: boundary residues, "
                                        "uniform residues, uniform i64, multiples of M +-2; judged with Python integers"},
            "violations": violations}


MANIFEST = {
    "text": "Theorems (Coq 8.16.1, closed under the global context) about an executable Gallina model of rlib_mint::Modular<M> "
            "over Z in which every cast wraps and every + - * is overflow-checked (i32/u32/i64), for EVERY modulus "
            "2 <= M < 2^31, prime or composite: new v = Some (v mod M) for every i64 v (c06_new, c06_read); + - * neg return "
            "Some of the canonical representative of the integer result, i.e. no intermediate leaves its Rust type "
            "(c06_add/sub/mul/neg); pow = x^d mod M for every d < 2^64 within 64 iterations (c06_pow, c06_pow_64); the i32 loop "
            "of inv never overflows for any fuel (c06_inv_no_overflow), ends within 64 iterations (c06_inv_terminates, "
            "c06_inv_terminates_64) and returns r in [0,M) with r*v = gcd(v,M) mod M, hence a true inverse of every unit "
            "(c06_inv_gcd, c06_inv_correct); (x / y) * y = x for y coprime to M (c06_div); == on representatives decides "
            "congruence (c06_canonical_eq); the u32 digit loop behind Display/Debug/Writable stays in its buffer and its text "
            "denotes the value, so printing is canonical (c06_write, c06_write_canonical); witnesses that both bounds are "
            "needed (c06_bound_needed_refuted_at_2_31, c06_lower_bound_needed_refuted_at_1); and model_check c = true -> "
            "spec_strict c = true (c06_model_implies_spec_strict: range, ring/inverse equations and canonical numeral carried "
            "from the model to every matching case by proof). The model is tied to the code on every run: the executor instantiates "
            "14 moduli (2..12 exhaustively; 65536, 65537, 998244353, 10^9+7, 2^31-1, 2^31-2, 2^31-19 on boundary/random operands), "
            "debug and release profile, and Coq proves model = implementation and implementation |= spec on every case; an "
            "implementation-level random search judged with Python integers runs in addition.",
    "level_note": "Trusted: Coq kernel + vm_compute; the Rust executor and the Python case printer; the Rust integer semantics "
                  "written into the model (casts keep the low bits, arithmetic is checked, / and % truncate); Readable is new "
                  "applied to the parsed i64 (the parser is C08); theorems are about the model, the correspondence is sampled on "
                  "14 moduli; spec_check additionally compares every text with the standard library's decimal printer, "
                  "which is evaluated per case (vm_compute), not covered by c06_model_implies_spec_strict.",
    "technique": "Coq proof over Gallina model + vm_compute correspondence batches against the Rust crate (debug and release)",
}
