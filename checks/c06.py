"""C06 — Modular<M> is the ring Z/M with canonical representatives and true inverses (rlib/mint)."""
import re

ID = "C06"
CRATE = "c06"
# sibling sources whose edits enlarge the quick correspondence (fingerprints in source_pins.json)
SOURCES = ["rlib/io/src/reader.rs", "rlib/io/src/writer.rs", "rlib/num_traits/src/lib.rs", "rlib/show/src/lib.rs"]
COQ_DIR = "C06"
COQ_DEPS = []
PROFILES = ["debug", "release"]
CORR_IMPORT = "From RlibV Require Import C06.Fixed C06.Model C06.Corr.\nOpen Scope Z_scope."
AUDIT_IMPORT = ("From Coq Require Import ZArith List Bool String.\n"
                "From RlibV Require Import Common.Iter C06.Fixed C06.Model C06.Corr C06.Properties.\nOpen Scope Z_scope.")
CASE_TYPE = "case"
EXPLAIN = "explain"
AXIOM_ALLOW = []
SHARD = 4000
THEOREMS = [
    ("c06_new",
     "forall M : Z, 2 <= M < 2 ^ 31 -> forall v : Z, - 2 ^ 63 <= v < 2 ^ 63 -> new M v = Some (v mod M) /\\ 0 <= v mod M < M"),
    ("c06_add",
     "forall M : Z, 2 <= M < 2 ^ 31 -> forall x y : Z, 0 <= x < M -> 0 <= y < M -> add M x y = Some ((x + y) mod M)"),
    ("c06_sub",
     "forall M : Z, 2 <= M < 2 ^ 31 -> forall x y : Z, 0 <= x < M -> 0 <= y < M -> sub M x y = Some ((x - y) mod M)"),
    ("c06_mul",
     "forall M : Z, 2 <= M < 2 ^ 31 -> forall x y : Z, 0 <= x < M -> 0 <= y < M -> mul M x y = Some ((x * y) mod M)"),
    ("c06_neg",
     "forall M : Z, 2 <= M < 2 ^ 31 -> forall x : Z, 0 <= x < M -> neg M x = Some ((- x) mod M)"),
    ("c06_pow",
     "forall M x d : Z, 2 <= M < 2 ^ 31 -> 0 <= x < M -> 0 <= d < 2 ^ 64 -> pow M x d = Some ((x ^ d) mod M)"),
    ("c06_pow_64",
     "forall M x d : Z, 2 <= M < 2 ^ 31 -> 0 <= x < M -> 0 <= d < 2 ^ 64 -> pow_loop M 65 x d = inr (Some ((x ^ d) mod M))"),
    ("c06_inv_no_overflow",
     "forall M : Z, 2 <= M < 2 ^ 31 -> forall v : Z, 0 <= v < M -> forall fuel : positive, inv_loop M fuel v <> inr None"),
    ("c06_inv_terminates",
     "forall M : Z, 2 <= M < 2 ^ 31 -> forall v : Z, 0 <= v < M -> forall fuel : positive, v < Zpos fuel -> exists x, inv_loop M fuel v = inr (Some x) /\\ Z.abs x <= M /\\ (x * v) mod M = Z.gcd v M mod M"),
    ("c06_inv_terminates_64",
     "forall M : Z, 2 <= M < 2 ^ 31 -> forall v : Z, 0 <= v < M -> exists x, inv_loop M 64 v = inr (Some x) /\\ Z.abs x <= M /\\ (x * v) mod M = Z.gcd v M mod M"),
    ("c06_inv_gcd",
     "forall M : Z, 2 <= M < 2 ^ 31 -> forall v : Z, 0 <= v < M -> exists r, inv M v = Some r /\\ 0 <= r < M /\\ (r * v) mod M = Z.gcd v M mod M"),
    ("c06_inv_correct",
     "forall M : Z, 2 <= M < 2 ^ 31 -> forall v : Z, 0 <= v < M -> Z.gcd v M = 1 -> exists r, inv M v = Some r /\\ 0 <= r < M /\\ (r * v) mod M = 1"),
    ("c06_div",
     "forall M x y : Z, 2 <= M < 2 ^ 31 -> 0 <= x < M -> 0 <= y < M -> Z.gcd y M = 1 -> exists q, div M x y = Some q /\\ 0 <= q < M /\\ mul M q y = Some x"),
    ("c06_canonical_eq",
     "forall M a b : Z, 2 <= M < 2 ^ 31 -> - 2 ^ 63 <= a < 2 ^ 63 -> - 2 ^ 63 <= b < 2 ^ 63 -> exists x y, new M a = Some x /\\ new M b = Some y /\\ 0 <= x < M /\\ 0 <= y < M /\\ (eqb x y = true <-> a mod M = b mod M)"),
    ("c06_bound_needed_refuted_at_2_31",
     "(exists v, - 2 ^ 63 <= v < 2 ^ 63 /\\ new (2 ^ 31) v <> Some (v mod 2 ^ 31)) /\\ (exists v, 0 <= v < 2 ^ 31 /\\ Z.gcd v (2 ^ 31) = 1 /\\ inv_loop (2 ^ 31) big_fuel v = inr None)"),
    ("c06_read",
     "forall M : Z, 2 <= M < 2 ^ 31 -> forall v : Z, - 2 ^ 63 <= v < 2 ^ 63 -> read M v = Some (v mod M)"),
    ("c06_write",
     "forall v : Z, 0 <= v < 2 ^ 32 -> exists s, render v = Some s /\\ sval s = v"),
    ("c06_write_canonical",
     "forall (x y : Z) (s : string), 0 <= x < 2 ^ 32 -> 0 <= y < 2 ^ 32 -> render x = Some s -> render y = Some s -> x = y"),
    ("c06_model_implies_spec",
     "forall c : case, model_check c = true -> spec_num c = true"),
    ("c06_model_implies_spec_strict",
     "forall c : case, model_check c = true -> spec_strict c = true"),
    ("c06_write_canonical_numeral",
     "forall v : Z, 0 <= v < 2 ^ 32 -> exists s, render v = Some s /\\ canon_dec v s = true"),
    ("c06_lower_bound_needed_refuted_at_1",
     "exists x d r, 0 <= x < 1 /\\ 0 <= d < 2 ^ 64 /\\ pow 1 x d = Some r /\\ ~ (0 <= r < 1)"),
]
RULE = ("31 moduli: 2,3,4,6,7,11,12 (exhaustive: every operand pair in [0,M)^2 for + - * / == and the assigning forms, every "
        "residue for neg/inv/pow/new incl. non-canonical constructor arguments) and the odd composites / prime powers "
        "5,9,10,15,21,25 (every residue for neg/inv/pow/new, every operand pair: all operators in the thorough tier; in the "
        "quick tier one operator per pair, for 21 and 25 on every second pair); 65536, 65537, 998244353, 1000000007, 2147483647, 2147483646, 2147483629 (all "
        "pairs of the boundary residues 0,1,2,M-2,M-1,M/2,M/2+1, random residues, constructor arguments >= 2^31, negative, "
        "i64::MIN/MAX, multiples of M +-1; exponents 0,1,2,2^63,u64::MAX, random; inverses of units and non-units, "
        "quotient-heavy and Fibonacci-like operands) and, with the same families on a smaller sample, 341, 561 (Carmichael), "
        "46341, 1373653 (strong pseudoprime), 2^24, 16777259, 10^9, 2^30-1 (odd composite), 2^30, 1073741827, 2147483645 (odd "
        "composite next to 2^31) with units next to every factor and cofactor; factors at the product-width boundaries "
        "2^15+-1, 46340..46342, 65535..65537, 2^24, 2^30, 2^31 mod M, 2^32 mod M (pairs for * and *=, bases of pow) and pairs "
        "b = +-a^-1, +-a^-1 +-1 (products 1, -1, +-a with a quotient of the order of M); multi-step expressions run on a stack "
        "machine in the executor (a+b+c incl. (M-1)*3, a*b+-c, -(a-b), a^d*a, (a^d)^e, inv(inv a), (x/y)*y, (x*y)/y, "
        "operator and assigning forms, the constants ZERO/ONE as operands, random expressions of 3..8 operations) whose "
        "result is printed as a value or compared with == against a fresh value that is congruent / off by one / non-canonical; "
        "998244353 and 1000000007 also through the aliases Mint998/Mint107; read_vec / tuple reads of several values; "
        "DELIVERY of the text (behaviour inherited from rlib_io through the i64 Readable / u32 Writable impls): on every modulus "
        "the read, read_vec and tuple-read cases again through a source that hands the text out in pieces - byte by byte, in "
        "chunks of 2, 3 and 2/3 alternating, one cut before the token / after the sign / at every digit position (all positions "
        "for numerals of up to 8 bytes, a sample otherwise) / before the delimiter, two and three consecutive cuts inside one "
        "token, cuts followed by byte-by-byte delivery, Interrupted errors between the pieces (also two in a row), the pieces as "
        "std::io::Chain of Cursors, tab / CR LF / form feed / runs of mixed blanks as delimiters, end of input right after the "
        "last digit; numerals: i64::MIN/MAX, 2^31, 2^32+1, -2^31-1, -1, M, -M-1, 0, the boundary classes of the constructor "
        "arguments, zero-padded numerals (-0, 007, padded extremes, 22..30 zeros: longer than any i64 numeral); the token at the "
        "64 KiB mark with the pieces ending around and inside it; the other values of the text and is_eof() afterwards are "
        "checked in the executor; all of these must give the observation of the one-piece read (same ORead term); the value "
        "written when the Writer's buffer holds 65536-d bytes (d around the length of the numeral) and into a sink that accepts "
        "1, 2, scheduled bytes per call, returns Interrupted, or is only dropped (same ONew term); "
        "inverse and quotient on a second thread next to other moduli; every case in the debug and the release profile; "
        "non-trivial = the integer result of the operation is not already the canonical representative (a reduction, a lift "
        "of a negative value or a conditional subtraction has to happen), for an expression: at least two operations")
TRUSTED = ["executor harness/crates/c06 (instantiates Modular<M> for 31 moduli + the aliases Mint998/Mint107, calls "
           "new/read/read_vec/tuple read/neg/inv/pow/+,-,*,/ and the assigning forms/==/ZERO/ONE singly and in multi-step "
           "expressions, prints inner() and the byte-exact (hex) Display, Debug, Writable output; its scheduled sources and sinks "
           "(`Sched`, `Pieces`, `Intr`, `ShortSink`: short reads / short writes / Interrupted errors, never an empty piece before the "
           "end of the text) and the text layouts of the delivery ops, which checks/c06.py mirrors (`layout`); its internal checks - "
           "the remaining values of a scheduled read and is_eof() after it, the frame around a value written far into the buffer "
           "or into a short-write sink, Show of a Vec / array / tuple holding the value against the same containers holding the text, "
           "formatter flags, to_string, Writable of Vec/tuples containing the value against the same for inner(), "
           "ZERO/ONE against new(0)/new(1), value == new(inner()) - replace the Display text by a failure token)",
           "checks/c06.py (case generator, Coq term printer; for a multi-step expression the printer evaluates the "
           "sub-expressions with Python integers and hands Coq the LAST operation on their canonical residues)"]
ASSUMPTIONS = ["Rust semantics assumed by the model: `as` casts keep the low bits, + - * panic on overflow in debug builds and wrap "
               "in release builds (checked operations returning None), / and % on signed integers are Z.quot and Z.rem",
               "Readable is modelled as new applied to the parsed i64 (the decimal parser is property C08; a Read source may return "
               "any non-empty prefix of what is left, or Interrupted, and the value read must not depend on it); Display/Debug delegate to "
               "u32's formatter, modelled by the same digit loop as Writable for u32",
               "only the 31 listed moduli are executed; the theorems quantify over every 2 <= M < 2^31",
               "Show::show (debug pretty-printer) is outside the Coq model: it is compared with a Python transcription of its "
               "search loop in the implementation-level search only"]

SMALL = [2, 3, 4, 6, 7, 11, 12]
# odd composites, an odd prime power, 2*odd: exhaustive like SMALL in the thorough tier, thinned per pair in the quick tier
SMALL2 = [5, 9, 10, 15, 21, 25]
BIG = [65536, 65537, 998244353, 1000000007, 2147483647, 2147483646, 2147483629]
# Carmichael numbers, 46341 = ceil(sqrt(2^31)) = 3^2*19*271, a strong pseudoprime to bases 2 and 3, 2^24 and the prime above,
# 10^9, 2^30-1 (odd composite), 2^30 and the prime above, 2^31-3 = 5*19*22605091 (odd composite next to 2^31)
BIG2 = [341, 561, 46341, 1373653, 16777216, 16777259, 1000000000, 1073741823, 1073741824, 1073741827, 2147483645]
ALL_MODULI = sorted(SMALL + SMALL2 + BIG + BIG2)
ALIAS = {998244353: "Mint998", 1000000007: "Mint107"}
I64_MIN, I64_MAX, U64_MAX = -(1 << 63), (1 << 63) - 1, (1 << 64) - 1
BINOPS = ["add", "sub", "mul", "div"]
COQ_BIN = {"add": "BAdd", "sub": "BSub", "mul": "BMul", "div": "BDiv"}
RPN_BIN = {"+": ("add", False), "-": ("sub", False), "*": ("mul", False), "/": ("div", False),
           "+=": ("add", True), "-=": ("sub", True), "*=": ("mul", True), "/=": ("div", True)}


def z(v):
    return "(%d)" % v


def harness_line(c):
    return " ".join([c.get("alias") or str(c["m"]), c["op"]] + [str(v) for v in c["args"]])


def coq_str(s):
    return '"%s"' % s.replace('"', '""')


def gcdpy(a, b):
    a, b = abs(a), abs(b)
    while b:
        a, b = b, a % b
    return a


def rust_inv(m, v):
    """transcription of Modular::inv on a canonical v (also what it returns for a non-unit)"""
    a, b, x, y = v, m, 0, 1
    while a != 0:
        k = b // a
        b -= k * a
        x -= k * y
        a, b = b, a
        x, y = y, x
    return x % m


def is_lit(t):
    t = str(t)
    return t[:1].isdigit() or (len(t) > 1 and t[0] == "-" and t[1].isdigit())


def rpn_eval(m, toks):
    """Python-integer evaluation of a stack program.  Returns (last, value, clean): `last` is the final
    operation on the canonical residues of its operands - ("new", v) | ("neg", x) | ("inv", x) | ("pow", x, d) |
    ("bin", k, assign, x, y) | ("eq", x, y) -, `value` its residue (a bool for eq), `clean` is False when a
    non-unit was inverted anywhere (the property does not say what that returns)."""
    st, clean = [], True
    for t in toks:
        t = str(t)
        if is_lit(t):
            st.append((int(t) % m, ("new", int(t))))
        elif t == "Z":
            st.append((0, ("new", 0)))
        elif t == "O":
            st.append((1 % m, ("new", 1)))
        elif t == "dup":
            st.append(st[-1])
        elif t == "neg":
            x = st.pop()[0]
            st.append(((-x) % m, ("neg", x)))
        elif t == "inv":
            x = st.pop()[0]
            clean = clean and gcdpy(x, m) == 1
            st.append((rust_inv(m, x), ("inv", x)))
        elif t.startswith("^"):
            x = st.pop()[0]
            st.append((pow(x, int(t[1:]), m), ("pow", x, int(t[1:]))))
        elif t == "==":
            y, x = st.pop()[0], st.pop()[0]
            return ("eq", x, y), x == y, clean
        else:
            k, asg = RPN_BIN[t]
            y, x = st.pop()[0], st.pop()[0]
            if k == "add":
                r = (x + y) % m
            elif k == "sub":
                r = (x - y) % m
            elif k == "mul":
                r = (x * y) % m
            else:
                clean = clean and gcdpy(y, m) == 1
                r = (x * rust_inv(m, y)) % m
            st.append((r, ("bin", k, asg, x, y)))
    assert len(st) == 1, toks
    return st[0][1], st[0][0], clean


def norm(c):
    """the single operation Coq is asked about: (kind, ...) with kind in new/read/neg/inv/pow/eq/bin"""
    op, a, m = c["op"], c["args"], c["m"]
    if op == "new":
        return ("new", a[0])
    if op in ("read", "readfar"):     # readfar: the same token placed across the Reader's 64 KiB refill boundary
        return ("read", a[0])
    if op == "readv":                 # read_vec of a[1:], element a[0]
        return ("read", a[1 + a[0]])
    if op == "readt":                 # (Modular, i64, Modular) = a[1:4], component a[0]
        return ("read", a[1 + a[0]])
    # ---- the same reads / writes with the text DELIVERED in pieces (a[0] is the schedule, tokens are strings that may be
    # zero-padded): the observation must be that of the one-piece delivery, so they share ORead / ONew
    if op in ("reads", "readfars"):
        return ("read", int(a[1]))
    if op in ("readvs", "readts"):    # [sched, k, tok...]; readts: (Modular, i64, Modular), k in {0, 2}
        return ("read", int(a[2 + int(a[1])]))
    if op == "writefar":              # new(a[0]) written 65536-a[1] bytes into the Writer's buffer
        return ("new", int(a[0]))
    if op == "writes":                # new(a[1]) written into a sink that accepts the bytes in pieces
        return ("new", int(a[1]))
    if op in ("neg", "inv", "tinv"):  # tinv/tdiv: computed on a second thread
        return (op[-3:], a[0])
    if op == "pow":
        return ("pow", a[0], a[1])
    if op == "eq":
        return ("eq", a[0], a[1])
    if op == "tdiv":
        return ("bin", "div", False, a[0], a[1])
    if op == "rpn":
        return rpn_eval(m, a)[0]
    assign = op.endswith("a") and op[:-1] in COQ_BIN
    return ("bin", op[:-1] if assign else op, assign, a[0], a[1])


def unhex(tok):
    """a rendering as the executor saw it, byte for byte; anything that is not printable ASCII is made visible"""
    if not tok.startswith("x"):
        return "malformed-rendering:" + tok
    try:
        b = bytes.fromhex(tok[1:])
    except ValueError:
        return "malformed-rendering:" + tok
    return "".join(chr(x) if 32 <= x < 127 and x != 92 else "\\x%02x" % x for x in b)


def parse_value(obs):
    """(inner, display, debug, written) of a value line; never raises: a line that does not have the agreed shape
    becomes a value whose texts say so (and therefore fails the canonical-numeral specification)"""
    t = obs.split(" ")
    if len(t) < 5 or t[0] != "R" or not re.fullmatch(r"[0-9]{1,20}", t[1]):
        bad = "malformed-observation:" + obs
        return -1, bad, bad, bad
    d, g, w = unhex(t[2]), unhex(t[3]), unhex(t[4])
    if len(t) > 5:
        d = "internal-check-failed:" + ",".join(t[5:]) + ":" + d
    return int(t[1]), d, g, w


def coq_obs(obs, is_eq):
    if obs == "P":
        return "Panic"
    if is_eq:
        t = obs.split(" ")
        if len(t) == 3 and t[0] == "R" and t[1] in ("0", "1") and t[2] in ("0", "1"):
            return "(Eq %s %s)" % ("true" if t[1] == "1" else "false", "true" if t[2] == "1" else "false")
        bad = "malformed-observation:" + obs
        return "(ValS (-1) %s)" % coq_str(bad)
    i, d, g, w = parse_value(obs)
    if d == g == w:
        return "(ValS %s %s)" % (z(i), coq_str(d))
    return "(Val %s %s %s %s)" % (z(i), coq_str(d), coq_str(g), coq_str(w))


def coq_op(c):
    n = norm(c)
    k = n[0]
    if k == "new":
        return "(ONew %s)" % z(n[1])
    if k == "read":
        return "(ORead %s)" % z(n[1])
    if k == "neg":
        return "(ONeg %s)" % z(n[1])
    if k == "inv":
        return "(OInv %s)" % z(n[1])
    if k == "pow":
        return "(OPow %s %s)" % (z(n[1]), z(n[2]))
    if k == "eq":
        return "(OEq %s %s)" % (z(n[1]), z(n[2]))
    return "(OBin %s %s %s %s)" % (COQ_BIN[n[1]], "true" if n[2] else "false", z(n[3]), z(n[4]))


def coq_term(c, obs, profile):
    return "(C %s %s %s)" % (z(c["m"]), coq_op(c), coq_obs(obs, norm(c)[0] == "eq"))


def base_op(op):
    return op[:-1] if (op.endswith("a") and op[:-1] in COQ_BIN) else op


def n_ops(c):
    return sum(1 for t in c["args"] if not is_lit(t) and str(t) not in ("Z", "O", "dup"))


def nontrivial(c, obs):
    m = c["m"]
    if c["op"] == "rpn":
        return n_ops(c) >= 2
    n = norm(c)
    k = n[0]
    if k in ("new", "read"):
        return not (0 <= n[1] < m)
    if k == "neg":
        return n[1] % m != 0
    if k == "inv":
        return n[1] % m > 1
    if k == "pow":
        return n[2] >= 2 and n[1] % m > 1
    if k == "eq":
        return n[1] != n[2]
    op, x, y = n[1], n[3] % m, n[4] % m
    if op == "add":
        return x + y >= m
    if op == "sub":
        return x < y
    if op == "mul":
        return x * y >= m
    return y > 1 and x > 0    # div


def mod_class(m):
    if m <= 25:
        return "small"
    if m >= 2147483000:
        return "2^31-"
    if m >= (1 << 30) - 1:
        return "2^30+"
    if m > 70000:
        return "prime30" if m in (998244353, 1000000007) else "2^17..2^30"
    return "2^16" if m >= 65536 else "2^8..2^16"


def classify(c, obs):
    m = c["m"]
    kind = "panic" if obs.startswith("P") else "value"
    extra = ""
    n = norm(c)
    if n[0] == "inv":
        extra = "/unit" if gcdpy(n[1], m) == 1 else "/nonunit"
    elif n[0] == "bin" and n[1] == "div":
        extra = "/unit" if gcdpy(n[4], m) == 1 else "/nonunit"
    op = c["op"]
    if op == "rpn":
        op = "rpn%s%d" % ("==" if n[0] == "eq" else "", min(n_ops(c), 4))
    if c.get("alias"):
        op += "@alias"
    return "%s/%s%s/%s" % (op, mod_class(m), extra, kind)


def case(m, op, *args):
    return {"m": m, "op": op, "args": list(args)}


def clamp_i64(v):
    return max(I64_MIN, min(I64_MAX, v))


def ctor_args(rng, m, n_random):
    """constructor arguments that stress the i64 -> i32 narrowing and the negative fix-up"""
    kmax = I64_MAX // m
    kmin = -(-I64_MIN // m)
    vals = [0, 1, -1, m - 1, m, m + 1, -m, -m + 1, -m - 1, 2 * m - 1, 2 * m, -2 * m + 1, 1 - m,
            1 << 31, (1 << 31) - 1, (1 << 31) + 1, 1 << 32, (1 << 32) - 1, (1 << 32) + 1, -(1 << 31), -(1 << 31) - 1,
            -(1 << 31) + 1, -(1 << 32), -(1 << 32) + 1, (1 << 62), -(1 << 62),
            I64_MIN, I64_MIN + 1, I64_MAX, I64_MAX - 1,
            kmax * m, kmax * m - 1, kmax * m + 1, kmin * m, kmin * m + 1, kmin * m - 1]
    for _ in range(n_random):
        k = rng.range(kmin, kmax)
        vals.append(k * m + rng.choice([-1, 0, 1, m // 2, -(m // 2)]))
        vals.append(rng.range(I64_MIN, I64_MAX))
        vals.append(rng.range(-(1 << 33), 1 << 33))
    return [clamp_i64(v) for v in vals]


def residues(rng, m, n_random):
    b = [0, 1, 2, m - 2, m - 1, m // 2, m // 2 + 1]
    return b, [rng.below(m) for _ in range(n_random)]


def exponents(rng, m, n_random):
    e = [0, 1, 2, 3, 1 << 63, (1 << 63) - 1, (1 << 63) + 1, U64_MAX, U64_MAX - 1, 1 << 32, (1 << 32) - 1, m - 1, m - 2, m]
    e += [rng.range(0, U64_MAX) for _ in range(n_random)]
    e += [rng.range(0, 1 << rng.range(1, 63)) for _ in range(n_random)]
    return e


def small_factors(m):
    f, x, p = [], m, 2
    while p * p <= x and p < 70000:
        if x % p == 0:
            f.append(p)
            while x % p == 0:
                x //= p
        p += 1
    if x > 1 and x != m:
        f.append(x)
    return f


def inv_operands(rng, m, n_random):
    """units and non-units; M-1 / M/2 make the first quotient extreme, M/phi makes the loop longest; for a composite
    modulus every prime factor p, its cofactor, multiples of both, and the units next to them"""
    phi = int(m * 0.6180339887498949)
    v = [0, 1, 2, 3, m - 1, m - 2, m // 2, m // 2 + 1, m // 3, phi, phi + 1, phi - 1, m - phi, 46341, 65535, 65536, 65537]
    for p in small_factors(m):
        v += [p, m // p, (m // p) * rng.range(1, p) % m, p * rng.range(1, max(1, m // p - 1)) % m,
              p + 1, p - 1, m // p + 1, m // p - 1, m - p, m - m // p]
    v += [rng.below(m) for _ in range(n_random)]
    return [x % m for x in v]


# factors at the widths where a narrower product would stop being exact (i16 / i32 / u32 / f32 mantissa / 2^30, 2^31, 2^32)
CLUSTERS = [[(1 << 15) - 1, 1 << 15, (1 << 15) + 1], [46340, 46341, 46342], [65535, 65536, 65537]]


def width_factors(m):
    t = [x for cl in CLUSTERS for x in cl] + [1 << 24, 1 << 30, (1 << 31) % m, (1 << 32) % m]
    return [x % m for x in t]


def some_unit(rng, m):
    for _ in range(200):
        a = rng.below(m)
        if gcdpy(a, m) == 1:
            return a
    return 1


def unit_near(rng, m, x):
    """x if it is a unit, otherwise a unit (the expressions below only divide by units: what a division by a
    non-unit returns is not specified, so a chain through it would test the model of it, not the property)"""
    return x % m if gcdpy(x, m) == 1 else some_unit(rng, m)


def noncanon(rng, m, r):
    """a constructor argument congruent to r"""
    k = rng.choice([0, 0, 1, -1, 2, -3, rng.range(-(1 << 31), 1 << 31)])
    return clamp_i64(r + k * m) if abs(r + k * m) < (1 << 62) else r


def rpn_shapes(rng, m, pool, n, cube=False):
    """multi-step expressions (executor op `rpn`).  `pool()` draws an operand."""
    out = []

    def R(*toks):
        out.append(case(m, "rpn", *toks))

    def value_of(toks):
        return rpn_eval(m, toks)[1]

    def with_eq(toks):
        """the expression, and the expression compared with fresh values: congruent (canonical and not), off by one"""
        R(*toks)
        r = value_of(toks)
        c = rng.choice([r, noncanon(rng, m, r), noncanon(rng, m, r), (r + 1) % m, (r - 1) % m, r + m, r - m])
        if rng.chance(1, 2):
            R(*(list(toks) + [c, "=="]))
        else:
            R(*([c] + list(toks) + ["=="]))

    if cube:
        b = [0, 1, 2, m - 2, m - 1, m // 2, m // 2 + 1]
        for x in b:
            for y in b:
                for w in b:
                    R(x, y, "+", w, "+")
                    if rng.chance(1, 3):
                        R(x, y, "+=", w, "+=")
                    if rng.chance(1, 3):
                        R(x, y, "-", w, "-")
    for _ in range(n):
        a, b, c = pool(), pool(), pool()
        d, e = rng.choice([0, 1, 2, 3, 5, m - 2, m - 1, rng.range(0, 1 << 20)]), rng.choice([0, 1, 2, 3, 7, rng.range(0, 1 << 20)])
        u = unit_near(rng, m, pool())
        shape = rng.below(16)
        if shape == 0:
            with_eq([a, b, "+", c, "+"])
        elif shape == 1:
            with_eq([a, b, "+=", c, "+="])
        elif shape == 2:
            with_eq([a, b, "-", c, rng.choice(["-", "-="])])
        elif shape == 3:
            with_eq([a, b, rng.choice(["*", "*="]), c, rng.choice(["+", "-", "+=", "-="])])
        elif shape == 4:
            with_eq([c, a, b, "*", rng.choice(["-", "+"])])
        elif shape == 5:
            with_eq([a, b, "-", "neg"])
            R(a, b, "-", "neg", b, a, "-", "==")
        elif shape == 6:
            with_eq([a, "^%d" % d, a, "*"])
            R(a, "^%d" % d, a, "*", a, "^%d" % (d + 1), "==")
        elif shape == 7:
            with_eq([a, "^%d" % d, "^%d" % e])
            R(a, "^%d" % d, "^%d" % e, a, "^%d" % (d * e), "==")
        elif shape == 8:
            with_eq([u, "inv", "inv"])
            R(u, "inv", u, "*", "O", "==")
        elif shape == 9:
            with_eq([a, u, rng.choice(["/", "/="]), u, rng.choice(["*", "*="])])
            R(a, u, "/", u, "*", a, "==")
        elif shape == 10:
            with_eq([a, u, "*", u, rng.choice(["/", "/="])])
            R(a, a, u, "*", u, "/", "==")
        elif shape == 11:
            with_eq([a, b, "+", c, "*", a, "-", b, "neg", "+"])
        elif shape == 12:
            # the constants as operands and on either side of ==
            R("Z", a, "+")
            R(a, "O", rng.choice(["*", "*=", "/"]))
            R(a, "dup", "-", "Z", "==")
            R(u, "dup", "/", "O", "==")
            R("O", a, "*", a, "==")
            R("Z", a, "-", a, "neg", "==")
        elif shape == 13:
            R(rng.choice(["Z", "O"]), rng.choice([0, 1, m, m + 1, -m, 1 - m, a]), "==")
            R(rng.choice(["Z", "O"]), rng.choice(["neg", "inv", "^0", "^1", "^%d" % d]))
            R("O", "O", "+", 2, "==")
            R("O", "neg", m - 1, "==")
            R(a, "^0", "O", "==")
        elif shape == 14:
            with_eq([a, b, "*", u, "/", c, "+", "neg"])
        else:
            with_eq([a, u, "/", b, u, "/", "+", u, "*"])    # a/u + b/u, times u = a + b
            R(a, u, "/", b, u, "/", "+", u, "*", a, b, "+", "==")
    return out


def rpn_random(rng, m, pool, n_ops_max):
    """a random expression; divisors and inv operands are made units"""
    toks, depth = [pool()], 1
    todo = rng.range(3, n_ops_max)
    while todo > 0:
        k = rng.below(10)
        if k < 6:
            y = pool() if not rng.chance(1, 8) else rng.choice(["Z", "O"])
            op = rng.choice(["+", "-", "*", "+=", "-=", "*=", "/", "/="])
            if op in ("/", "/="):
                y = unit_near(rng, m, pool())
            toks += [y, op]
        elif k == 6:
            toks.append("neg")
        elif k == 7:
            toks.append("^%d" % rng.choice([0, 1, 2, 3, rng.range(0, 1 << 10), rng.range(0, U64_MAX)]))
        elif k == 8:
            if gcdpy(rpn_eval(m, toks)[1], m) == 1:
                toks.append("inv")
            else:
                toks += ["O", "+"]
        else:
            toks += ["dup", rng.choice(["+", "*", "-"])]
        todo -= 1
    if rng.chance(1, 3):
        r = rpn_eval(m, toks)[1]
        toks += [rng.choice([r, noncanon(rng, m, r), (r + 1) % m]), "=="]
    return case(m, "rpn", *toks)


# ---- delivery schedules (executor `Sched`): "<head>/<cycle>[:flags]"
STYLES = {0: (" ", " ", "\n"), 1: ("\t", "\t", "\t"), 2: ("\r\n", "\r\n", "\r\n"), 3: ("\x0c", "\x0c", "\x0c"),
          4: ("", "  \n\t ", " \n\n")}
SCHED_OPS = ("reads", "readfars", "readvs", "readts", "writes")


def sched_str(head=(), cycle=(), flags=""):
    return ".".join(str(x) for x in head) + "/" + ".".join(str(x) for x in cycle) + (":" + flags if flags else "")


def cuts_to_head(cuts):
    """piece lengths for piece boundaries at the given text offsets (the rest arrives in one piece)"""
    out, last = [], 0
    for o in sorted(set(x for x in cuts if x > 0)):
        out.append(o - last)
        last = o
    return out


def layout(toks, style=0, eof=False):
    """the text the executor builds for the tokens and the (start, end) offsets of every token in it"""
    lead, sep, trail = STYLES[style]
    text, spans = lead, []
    for i, t in enumerate(toks):
        if i:
            text += sep
        spans.append((len(text), len(text) + len(t)))
        text += t
    return text + ("" if eof else trail), spans


def zpad(v, k):
    return ("-" if v < 0 else "") + "0" * k + str(abs(v))


def read_tokens(rng, m, n):
    """numerals for the delivery cases: i64 extremes, values >= 2^31, negative values, the boundary classes of
    ctor_args, zero-padded numerals (also longer than any i64 numeral: 25..40 bytes)"""
    ca = ctor_args(rng, m, 1)
    vals = [I64_MIN, I64_MAX, 1 << 31, (1 << 32) + 1, -(1 << 31) - 1, -1, m, -m - 1, 0]
    vals += [rng.choice(ca) for _ in range(n)]
    toks = [str(v) for v in vals]
    toks += ["-0", "007", zpad(rng.choice(ca), rng.range(1, 3)), zpad(rng.choice(ca), rng.range(22, 30)),
             zpad(rng.choice([I64_MIN, I64_MAX]), rng.range(1, 12)), "0" * rng.range(2, 30), zpad(-rng.range(1, 2 * m), 21)]
    return toks


def random_flags(rng, sink=False):
    f = ""
    if rng.chance(1, 4):
        f += "i"
    if sink:
        return f + ("d" if rng.chance(1, 3) else "")
    if rng.chance(1, 5):
        f += "h"
    if rng.chance(1, 6):
        f += "e"
    return f


def token_schedules(rng, span, n_single, n_double, every):
    """(head, cycle) pairs that split the token at text offsets span = (a, b): byte by byte, chunks of 2 and 3, one
    cut at the chosen positions (before the token, after the sign, inside the digits, before the delimiter), two and
    three consecutive cuts inside the token"""
    a, b = span
    L = b - a
    out = [((), (1,)), ((), (2,)), ((), (3,)), ((), (2, 3))]
    pos = list(range(0, L + 1))
    single = pos if every else sorted(set([0, 1, 2, L - 1, L] + [rng.below(L + 1) for _ in range(n_single)]) & set(pos))
    for j in single:
        out.append((cuts_to_head([a + j]), ()))
    inner = list(range(1, L))      # cuts strictly inside the token
    pairs = [(j, k) for j in inner for k in inner if j < k]
    if not every and len(pairs) > n_double:
        near = [(j, j + 1) for j in inner if j + 1 < L]
        pairs = [rng.choice(near) for _ in range(n_double // 2)] + [rng.choice(pairs) for _ in range(n_double - n_double // 2)]
        if L > 2:
            pairs.append((1, 2))   # after the sign / first digit, and again one byte later
    for (j, k) in pairs:
        out.append((cuts_to_head([a + j, a + k]), ()))
        if rng.chance(1, 3):
            out.append((cuts_to_head([a, a + j, a + k, b]), ()))     # also apart from both neighbours
    if L > 3:
        j = rng.range(1, L - 3)
        out.append((cuts_to_head([a + j, a + j + 1, a + j + 2]), ()))
        out.append((cuts_to_head([a + j, a + j + 1]), (1,)))          # two cuts, then byte by byte
    return out


def delivery_cases(rng, m, n_tok, thorough, far=True):
    """read / read_vec / tuple read / write of the same values with the text delivered (accepted) in pieces"""
    cases = []
    toks = read_tokens(rng, m, n_tok)
    if not thorough:
        # the fixed numerals always; of the rest a sample
        fixed, rest = toks[:4], toks[4:]
        rng.shuffle(rest)
        toks = fixed + rest[:n_tok + 3]
    for t in toks:
        style = rng.choice([0, 0, 0, 1, 2, 3, 4])
        eof = rng.chance(1, 6)
        _text, spans = layout([t], style, eof)
        scheds = token_schedules(rng, spans[0], 2 if not thorough else 6, 3 if not thorough else 12, every=(len(t) <= 8))
        if not thorough and len(scheds) > 12:
            head4, rest = scheds[:4], scheds[4:]
            rng.shuffle(rest)
            scheds = head4 + rest[:8]
        for (h, c) in scheds:
            fl = random_flags(rng).replace("e", "") + ("e" if eof else "") + ("w%d" % style if style else "")
            cases.append(case(m, "reads", sched_str(h, c, fl), t))
    # several values: a cut in the token before the printed one desynchronises the stream
    for _ in range(2 if not thorough else 12):
        vs = [rng.choice(toks) for _ in range(rng.range(2, 4))]
        k = rng.below(len(vs))
        style = rng.choice([0, 0, 1, 2, 4])
        _text, spans = layout(vs, style)
        for (h, c) in [((), (1,)), ((), (2, 3))] + [rng.choice(token_schedules(rng, spans[j], 1, 2, False)[4:]) for j in range(len(vs))]:
            cases.append(case(m, "readvs", sched_str(h, c, random_flags(rng).replace("e", "") + ("w%d" % style if style else "")), k, *vs))
        tv = [rng.choice(toks), str(rng.range(-99, 99) if rng.chance(1, 2) else rng.choice([I64_MIN, I64_MAX])), rng.choice(toks)]
        k = rng.choice([0, 2])
        _text, spans = layout(tv, 0)
        for (h, c) in [((), (1,)), ((), (3,))] + [rng.choice(token_schedules(rng, spans[j], 1, 2, False)[4:]) for j in range(3)]:
            cases.append(case(m, "readts", sched_str(h, c, random_flags(rng).replace("e", "")), k, *tv))
    # the token at the 64 KiB mark of the input, the pieces ending around and inside it
    if far:
        for t in [rng.choice(toks) for _ in range(1 if not thorough else 6)] + ([str(I64_MIN)] if thorough or rng.chance(1, 2) else []):
            L = len(t)
            d = rng.choice(sorted({1, 2, L // 2, L - 1, L, L + 1} - {0}))
            pad = 65536 - d
            picks = [([pad + 1, 1], ()), ([pad - 3, 3 + max(1, L // 2), 1], ()), ([pad], (2,)), ((), (4099,)),
                     ([pad + rng.range(1, max(1, L - 1))], (1,)), ([65536, 1, 1], ())]
            if not thorough:
                rng.shuffle(picks)
                picks = picks[:3]
            for (h, c) in picks:
                cases.append(case(m, "readfars", sched_str(h, c, "i" if rng.chance(1, 4) else ""), t, d))
    # the value written next to the end of the Writer's buffer, and into a sink that takes short writes
    wv = [m - 1, 0, 10000 % m, 99999 % m, 100000000 % m, 1000000000 % m, rng.below(m), rng.below(m), -1 - rng.below(m)]
    if not thorough:
        rng.shuffle(wv)
        wv = wv[:3]
    for v in wv:
        L = len(str(v % m))
        for d in (sorted({0, 1, L - 1, L, L + 1, L + 2}) if thorough else [rng.choice([0, 1, L - 1]), rng.choice([L, L + 1])]):
            cases.append(case(m, "writefar", v, d))
        for (h, c) in [((), (1,)), (cuts_to_head([2 + rng.below(L + 1)]), ()), (cuts_to_head([1, 3]), (2,))]:
            cases.append(case(m, "writes", sched_str(h, c, random_flags(rng, sink=True)), v))
    return cases


def small_cases(rng, m, thorough, full):
    cases = []
    for a in range(m):
        for b in range(m):
            if full:
                for op in BINOPS + ["eq"]:
                    cases.append(case(m, op, a, b))
                for op in BINOPS:
                    if m <= 4 or thorough or rng.chance(1, 4):
                        cases.append(case(m, op + "a", a, b))
            elif m <= 15 or rng.chance(1, 2):
                # quick tier on the added moduli: a pair meets one operator (division twice as often)
                cases.append(case(m, rng.choice(BINOPS + ["div", "eq"] + [o + "a" for o in BINOPS]), a, b))
            # the same pair through non-canonical constructor arguments
            if full or rng.chance(1, 8):
                op = rng.choice(BINOPS + ["eq"] + [o + "a" for o in BINOPS])
                cases.append(case(m, op, a + m * rng.range(-3, 3), b - m * rng.range(-3, 3)))
    for v in range(-2 * m - 1, 2 * m + 2):
        cases.append(case(m, "new", v))
        if full or rng.chance(1, 3):
            cases.append(case(m, "read", v))
    for a in range(m):
        cases.append(case(m, "neg", a))
        cases.append(case(m, "inv", a))
        cases.append(case(m, "neg", a - m))
        cases.append(case(m, "inv", a + m * rng.range(-5, 5)))
        big_d = [1 << 63, U64_MAX, rng.range(0, U64_MAX)]
        for d in list(range(0, 5)) + big_d + ([m - 1, m, 2 * m - 2, 2 * m - 1] if not full else []):
            # quick tier on the added moduli: the square, one exponent >= 2(M-1), one huge exponent, a share of the rest
            if full or d in (2, rng.choice([2 * m - 2, 2 * m - 1]), rng.choice(big_d)) or rng.chance(1, 5):
                cases.append(case(m, "pow", a, d))
    for v in ctor_args(rng, m, 2):
        cases.append(case(m, rng.choice(["new", "read"]), v))
    # multi-step expressions: every triple for M <= 4, otherwise a sample
    if m <= 4:
        for a in range(m):
            for b in range(m):
                for c in range(m):
                    cases.append(case(m, "rpn", a, b, rng.choice(["+", "+="]), c, rng.choice(["+", "+="])))
                    cases.append(case(m, "rpn", a, b, "*", c, rng.choice(["+", "-"])))
    n = (12 if full else 6) if not thorough else 120
    cases += rpn_shapes(rng, m, lambda: rng.range(-m, 2 * m), n)
    for _ in range(n // 2):
        cases.append(rpn_random(rng, m, lambda: rng.range(-m, 2 * m), 6))
    for _ in range(2 if not thorough else 20):
        vs = [rng.range(-2 * m, 2 * m) for _ in range(rng.range(1, 4))]
        cases.append(case(m, "readv", rng.below(len(vs)), *vs))
        cases.append(case(m, "readt", rng.choice([0, 2]), rng.range(-2 * m, 2 * m), rng.range(-99, 99), rng.range(-2 * m, 2 * m)))
        cases.append(case(m, "tinv", rng.below(m)))
        cases.append(case(m, "tdiv", rng.below(m), rng.below(m)))
    cases += delivery_cases(rng, m, 1 if not thorough else 6, thorough, far=thorough)
    return cases


def big_cases(rng, m, nr, thorough, n_width, n_invpairs, n_rpn, cube):
    cases = []
    bnd, rnd = residues(rng, m, nr)
    pairs = [(a, b) for a in bnd for b in bnd]
    pairs += [(rng.choice(rnd), rng.choice(rnd)) for _ in range(nr)]
    pairs += [(rng.choice(rnd), rng.choice(bnd)) for _ in range(nr // 2)]
    pairs += [(rng.choice(bnd), rng.choice(rnd)) for _ in range(nr // 2)]
    for (a, b) in pairs:
        for op in BINOPS:
            # every pair runs every operator, in one of the two forms (thorough: both)
            if thorough:
                cases.append(case(m, op, a, b))
                cases.append(case(m, op + "a", a, b))
            else:
                cases.append(case(m, op + ("a" if rng.chance(1, 3) else ""), a, b))
        if rng.chance(1, 4):
            cases.append(case(m, "eq", a, b))
    # b = M - a  (sum exactly M), b = a (difference 0), b = a +- 1
    for a in bnd + rnd[:3]:
        for b in sorted({(m - a) % m, a, (a + 1) % m, (a - 1) % m, (m - a - 1) % m, (m - a + 1) % m}):
            cases.append(case(m, rng.choice(["add", "add", "adda"]), a, b))
            cases.append(case(m, rng.choice(["sub", "sub", "suba"]), a, b))
            if thorough or rng.chance(1, 3):
                cases.append(case(m, "eq", a, b))
    ca = ctor_args(rng, m, nr)
    for v in ca:
        cases.append(case(m, "new", v))
        if rng.chance(1, 2):
            cases.append(case(m, "read", v))
    # a value that arrives after 64 KiB of earlier input: its token straddles the Reader's refill boundary
    for v in [rng.choice(ca) for _ in range(3 if not thorough else 12)] + [I64_MIN, I64_MAX]:
        L = len(str(v))
        for d in sorted({1, 2, L // 2, L - 1, L, L + 1} - {0}):
            cases.append(case(m, "readfar", v, d))
    for _ in range(nr * 2):
        a, b = rng.choice(ca), rng.choice(ca)
        cases.append(case(m, rng.choice(BINOPS + ["eq", "adda", "suba", "mula", "diva"]), a, b))
        if rng.chance(1, 3):
            cases.append(case(m, "eq", a, a + m * rng.range(-4, 4) if abs(a) < (1 << 62) else a))
    for a in bnd + rnd[:6]:
        cases.append(case(m, "neg", a))
        cases.append(case(m, "neg", a - m))
    ex = exponents(rng, m, nr)
    for a in bnd:
        for d in [0, 1, 2, 1 << 63, U64_MAX, rng.choice(ex)]:
            cases.append(case(m, "pow", a, d))
    for d in ex:
        cases.append(case(m, "pow", rng.choice(rnd), d))
    for a in inv_operands(rng, m, 2 * nr):
        cases.append(case(m, "inv", a))
        if rng.chance(1, 2):
            cases.append(case(m, rng.choice(["div", "diva"]), rng.choice(rnd + bnd), a))
        if rng.chance(1, 4):
            cases.append(case(m, "inv", clamp_i64(a + m * rng.range(-(1 << 31), 1 << 31))))
    # ---- factors at the product-width boundaries (2^15, 46341, 2^16, 2^24, 2^30, 2^31, 2^32 mod M)
    T = width_factors(m)
    wp = [(a % m, b % m) for cl in CLUSTERS for a in cl for b in cl]
    if n_width is None:
        wp = [(a, b) for a in T for b in T]
    else:
        wp += [(rng.choice(T), rng.choice(T)) for _ in range(n_width)]
    for (a, b) in wp:
        cases.append(case(m, rng.choice(["mul", "mul", "mula"]) if n_width is not None else "mul", a, b))
        if n_width is None:
            cases.append(case(m, "mula", a, b))
    for a in (T if n_width is None else [rng.choice(T) for _ in range(4)]):
        cases.append(case(m, "pow", a, 2))
        cases.append(case(m, "pow", a, 3))
    # ---- products that land next to a multiple of M with a quotient of the order of M: b = +-a^-1, +-a^-1 +- 1
    for _ in range(n_invpairs):
        a = some_unit(rng, m)
        ai = pow(a, -1, m)
        for b in sorted({ai, m - ai, (ai + 1) % m, (ai - 1) % m, (m - ai + 1) % m, (m - ai - 1) % m}):
            cases.append(case(m, rng.choice(["mul", "mul", "mula"]), a, b))
    # ---- multi-step expressions, == on computed values, the constants
    def pool():
        k = rng.below(8)
        if k < 3:
            return rng.choice(bnd)
        if k < 5:
            return rng.choice(rnd)
        if k == 5:
            return rng.choice(T)
        if k == 6:
            return rng.choice(ca)
        return noncanon(rng, m, rng.choice(bnd))
    cases += rpn_shapes(rng, m, pool, n_rpn, cube=cube)
    cases.append(case(m, "rpn", m - 1, m - 1, "+", m - 1, "+"))
    cases.append(case(m, "rpn", m - 1, m - 1, "+=", m - 1, "+=", m - 3, "=="))
    cases.append(case(m, "rpn", 0, 1, "-", 1, "-", m - 2, "=="))
    for _ in range(n_rpn // 2):
        cases.append(rpn_random(rng, m, pool, 8))
    # ---- several values through read_vec / a tuple read; inverse and quotient on a second thread
    for _ in range(max(2, n_rpn // 8)):
        vs = [rng.choice(ca) for _ in range(rng.range(1, 4))]
        cases.append(case(m, "readv", rng.below(len(vs)), *vs))
        cases.append(case(m, "readt", rng.choice([0, 2]), rng.choice(ca), rng.choice(ca), rng.choice(ca)))
        cases.append(case(m, "tinv", rng.choice([rng.below(1024), rng.below(m), rng.choice(bnd)])))
        cases.append(case(m, "tdiv", rng.choice(rnd), rng.choice([rng.below(1024), rng.below(m)])))
    cases += delivery_cases(rng, m, max(2, nr // 3), thorough)
    return cases


KEEP_QUICK_ADDED = {"inv": (1, 1), "tinv": (1, 1), "div": (1, 3), "diva": (1, 3), "tdiv": (1, 1), "pow": (1, 4), "rpn": (1, 1),
                    "mul": (1, 4), "mula": (1, 4), "readv": (1, 1), "readt": (1, 1),
                    "reads": (1, 3), "readvs": (1, 2), "readts": (1, 2), "readfars": (1, 1), "writefar": (1, 2), "writes": (1, 2)}


def generate(rng, tier):
    thorough = tier != "quick"
    cases = []
    # ---- small moduli: exhaustive
    for m in SMALL:
        cases += small_cases(rng, m, thorough, True)
    for m in SMALL2:
        cases += small_cases(rng, m, thorough, thorough)
    # ---- large moduli: boundary and random
    for m in BIG:
        part = big_cases(rng, m, 12 if not thorough else 400, thorough,
                         n_width=(10 if not thorough else None), n_invpairs=(3 if not thorough else 40),
                         n_rpn=(24 if not thorough else 500), cube=(thorough and m > (1 << 31) - 100))
        if m in ALIAS:
            # a share of the cases of the two competition primes goes through the crate's alias types
            for c in part:
                if rng.chance(1, 4):
                    c["alias"] = ALIAS[m]
        cases += part
    for m in BIG2:
        part = big_cases(rng, m, 3 if not thorough else 100, thorough,
                         n_width=(3 if not thorough else None), n_invpairs=(1 if not thorough else 12),
                         n_rpn=(8 if not thorough else 150), cube=(thorough and m > (1 << 31) - 100))
        if not thorough:
            # the added moduli carry a sample of the families above (all inverses, expressions and thread/container
            # cases, a share of the rest); the thorough tier runs everything
            kept = []
            for c in part:
                num, den = KEEP_QUICK_ADDED.get(c["op"], (1, 10))
                if rng.chance(num, den):
                    kept.append(c)
            part = kept
        cases += part
    # one executor process runs all cases in this order: interleave the moduli (state kept between calls - a table, a
    # cache - then meets another modulus next), which also spreads the expensive pow cases evenly over the Coq batches
    rng.shuffle(cases)
    return cases


def shrink(c):
    out = []
    m, args = c["m"], c["args"]

    def put(d):
        d = dict(d)
        if d["m"] not in ALIAS or d["m"] != m:
            d.pop("alias", None)
        out.append(d)

    if c.get("alias"):
        put({k: v for k, v in c.items() if k != "alias"})
    if c["op"] == "rpn":
        # every proper prefix that is a complete program, then smaller literals
        depth = 0
        for i, t in enumerate(args[:-1]):
            t = str(t)
            if is_lit(t) or t in ("Z", "O", "dup"):
                depth += 1
            elif t in RPN_BIN:
                depth -= 1
            if depth == 1 and i >= 0:
                put(dict(c, args=list(args[:i + 1])))
        # the last operation alone, on the canonical residues of its operands
        n = norm(c)
        if n[0] == "bin":
            put(dict(c, op=n[1] + ("a" if n[2] else ""), args=[n[3], n[4]]))
        elif n[0] == "eq":
            put(dict(c, op="eq", args=[n[1], n[2]]))
        elif n[0] in ("neg", "inv"):
            put(dict(c, op=n[0], args=[n[1]]))
        elif n[0] == "pow":
            put(dict(c, op="pow", args=[n[1], n[2]]))
        for i, t in enumerate(args):
            if is_lit(t) and int(t) not in (0, 1):
                for w in (int(t) % m, 1, 0):
                    if w != int(t):
                        n2 = list(args)
                        n2[i] = w
                        try:
                            rpn_eval(m, n2)
                        except Exception:
                            continue
                        put(dict(c, args=n2))
        return out
    if c["op"] in ("readv", "readt"):
        put(dict(c, op="read", args=[norm(c)[1]]))
        return out
    if c["op"] in ("reads", "readfars", "readvs", "readts"):
        # the printed token alone; byte by byte, without flags; a shorter numeral; at last the one-piece read
        tok = str(args[1]) if c["op"] in ("reads", "readfars") else str(args[2 + int(args[1])])
        if c["op"] != "reads":
            put(dict(c, op="reads", args=[args[0] if c["op"] != "readfars" else "/1", tok]))
            if c["op"] == "readfars":
                put(dict(c, op="readfar", args=[int(tok), args[2]]))
            return out
        if ":" in args[0]:
            lens, fl = args[0].split(":")
            put(dict(c, args=[lens, tok]))
            units = re.findall(r"w[0-9]|[a-z]", fl)
            if len(units) > 1:
                for u in units:       # one flag less
                    put(dict(c, args=[lens + ":" + "".join(x for x in units if x != u), tok]))
        if args[0].split(":")[0] != "/1":
            put(dict(c, args=["/1" + args[0][len(args[0].split(":")[0]):], tok]))
        if tok != str(int(tok)):
            put(dict(c, args=[args[0], str(int(tok))]))
        digits = tok.lstrip("-")
        if len(digits) > 1:
            put(dict(c, args=[args[0], tok[:-1]]))
            put(dict(c, args=[args[0], tok[:len(tok) - len(digits)] + digits[1:]]))
        if tok.startswith("-"):
            put(dict(c, args=[args[0], digits]))
        put(dict(c, op="read", args=[int(tok)]))
        return out
    if c["op"] == "writefar":
        put(dict(c, op="new", args=[args[0]]))
        for w in (args[0] % m, args[0] // 10):
            if w != args[0] and abs(w) < abs(args[0]) or (w == args[0] % m and w != args[0]):
                put(dict(c, args=[w, args[1]]))
        return out
    if c["op"] == "writes":
        put(dict(c, op="new", args=[args[1]]))
        if args[0] != "/1":
            put(dict(c, args=["/1", args[1]]))
        for w in (args[1] % m, args[1] // 10):
            if w != args[1] and 0 <= w and (abs(w) < abs(args[1]) or args[1] < 0):
                put(dict(c, args=[args[0], w]))
        return out
    if c["op"] == "tinv":
        put(dict(c, op="inv"))
    if c["op"] == "tdiv":
        put(dict(c, op="div"))
    for i, v in enumerate(args):
        is_exp = (c["op"] == "pow" and i == 1)
        cands = [0, 1, v // 2, v - 1 if v > 0 else v + 1]
        if not is_exp:
            cands += [v % m, v % m - m] + ([-v] if v < 0 else [])
        else:
            cands += [2, 3]
        seen = set()
        for w in cands:
            if w != v and w not in seen and (w >= 0 or not is_exp) and abs(w) <= abs(v):
                seen.add(w)
                n = list(args)
                n[i] = w
                put(dict(c, args=n))
    # a smaller modulus with the same residues, and the operator form instead of the assigning one
    smaller = [m2 for m2 in ALL_MODULI if m2 < m]
    for m2 in smaller[:4] + smaller[-6:]:
        put(dict(c, m=m2))
    if base_op(c["op"]) != c["op"]:
        put(dict(c, op=base_op(c["op"])))
    if c["op"] == "read":
        put(dict(c, op="new"))
    # a failure of / or pow is often a failure of * or inv underneath
    if c["op"] == "div":
        put(dict(c, op="mul"))
        put(dict(c, op="inv", args=[args[1]]))
    if c["op"] == "pow":
        put(dict(c, op="mul", args=[args[0], args[0]]))
    if c["op"] in ("mul", "add", "sub", "neg", "inv"):
        put(dict(c, op="new", args=[args[0]]))
    return out


def py_ok(c, obs):
    """the property, decided with Python integers (independent of the Coq model and of spec_check)"""
    m = c["m"]
    if c["op"] == "rpn":
        n, val, clean = rpn_eval(m, c["args"])
    else:
        n, val, clean = norm(c), None, True
    k = n[0]
    if k == "eq":
        e = "1" if (n[1] - n[2]) % m == 0 else "0"
        return obs == "R %s %s" % (e, e)
    r, d, g, w = parse_value(obs)
    if not (d == g == w == str(r)) or not 0 <= r < m:
        return False
    if c["op"] == "rpn":
        return r == val or not clean
    if k in ("new", "read"):
        return r == n[1] % m
    if k == "neg":
        return r == (-n[1]) % m
    if k == "inv":
        return gcdpy(n[1], m) != 1 or (r * n[1]) % m == 1
    if k == "pow":
        return r == pow(n[1] % m, n[2], m)
    op, a, b = n[1], n[3], n[4]
    if op == "add":
        return r == (a + b) % m
    if op == "sub":
        return r == (a - b) % m
    if op == "mul":
        return r == (a * b) % m
    return gcdpy(b, m) != 1 or (r * b) % m == a % m     # div


# ---- Show::show (rlib/mint/src/lib.rs 152-177): outside the Coq model, compared with a transcription of its loop
def show_ref(m, v, mm, rat):
    maxd = min(mm, m - 1) if rat else 1
    for d in range(1, maxd + 1):
        di = rust_inv(m, d % m)
        for n in range(-mm, mm + 1):
            if (n % m) * di % m == v:
                return str(n) if d == 1 else "%d/%d" % (n, d)
    return str(v) if mm == 0 else "?%d" % v


def show_spec_ok(m, v, mm, rat, s):
    """order-independent reading of what show may print: an integer n = v, |n| <= mint_max; a fraction n/d with
    2 <= d <= min(mint_max, M-1) and n = v*d (d coprime to M); the fallback only when no such pair exists"""
    def box_has_match():
        maxd = min(mm, m - 1) if rat else 1
        for d in range(1, maxd + 1):
            if gcdpy(d, m) != 1:
                continue
            t = v * d % m
            if t <= mm or m - t <= mm:
                return True
        return False
    mt = re.fullmatch(r"(-?[0-9]+)(?:/([0-9]+))?", s)
    if s == ("?%d" % v if mm != 0 else str(v)) and not (mm == 0 and v == 0):
        if not box_has_match():
            return True
    if not mt:
        return False
    n = int(mt.group(1))
    if abs(n) > mm:
        return False
    if mt.group(2) is None:
        return n % m == v
    d = int(mt.group(2))
    if not rat or not 2 <= d <= min(mm, m - 1):
        return False
    return gcdpy(d, m) != 1 or n % m == v * d % m


def show_cases(rng, n):
    cases = []
    mods = [2, 3, 9, 12, 25, 561, 65537, 998244353, 998244353, 1000000007, 1073741823, 2147483647, 2147483645]
    for _ in range(n):
        m = rng.choice(mods)
        mm = rng.choice([100, 100, 100, 0, 1, 2, 5, 17, -1])
        rat = rng.choice([1, 1, 0])
        k = rng.below(7)
        if k == 0:
            a = rng.choice([0, 1, -1, 42, -42, 100, -100, 101, -101, 167239283, m - 1, m // 2])
        elif k in (1, 2):
            # a small fraction n/d
            d = rng.range(1, 110)
            a = (rng.range(-110, 110) * rust_inv(m, d % m)) % m
        elif k == 3:
            a = rng.range(-(1 << 40), 1 << 40)
        else:
            a = rng.below(m)
        c = case(m, "show", a, mm, rat) if not rng.chance(1, 5) else case(m, "showd", a)
        if m in ALIAS and rng.chance(1, 2):
            c["alias"] = ALIAS[m]
        cases.append(c)
    return cases


def show_judge(c, o):
    """None if fine, else (what, nofail)"""
    m, a = c["m"], c["args"]
    mm, rat = (a[1], bool(a[2])) if c["op"] == "show" else (100, True)
    t = o.split(" ")
    if len(t) != 2 or t[0] != "S":
        return ("Show::show panicked or printed nothing: %r" % o, False)
    s = unhex(t[1])
    if s == show_ref(m, a[0] % m, mm, rat):
        return None
    if show_spec_ok(m, a[0] % m, mm, rat, s):
        return ("Show::show prints %r: an admissible reading of the value, but not what the reviewed search loop "
                "returns (%r)" % (s, show_ref(m, a[0] % m, mm, rat)), True)
    return ("Show::show prints %r, which does not denote the value within the settings (the reviewed loop returns %r)"
            % (s, show_ref(m, a[0] % m, mm, rat)), False)


def build_relchk(ctx):
    """third build configuration (profile `relchk` of the executor crate: optimised for size, overflow checks on);
    returns (path or None, note)"""
    import os
    import subprocess
    import _driver
    try:
        tdir = os.path.dirname(os.path.dirname(ctx.bins["release"]))
        hdir = _driver.HARNESS if getattr(ctx, "repo", "/repo") == "/repo" else os.path.join(ctx.work, "harness")
        env = dict(os.environ, CARGO_NET_OFFLINE="true", CARGO_TARGET_DIR=tdir)
        p = subprocess.run(["cargo", "build", "--offline", "-q", "--profile", "relchk", "--manifest-path",
                            os.path.join(hdir, "crates", CRATE, "Cargo.toml")], cwd=hdir, env=env,
                           stdout=subprocess.PIPE, stderr=subprocess.STDOUT, text=True, timeout=3600)
        binp = os.path.join(tdir, "relchk", CRATE)
        if p.returncode == 0 and os.path.exists(binp):
            return binp, "built"
        return None, "build failed: " + p.stdout[-600:]
    except Exception as e:      # the third configuration is an addition: never let it break the check itself
        return None, "not built: %r" % (e,)


def extra(ctx, known):
    """implementation-level search (not a proof): many more random operations than Coq evaluates,
    judged with Python integers, both profiles"""
    from _driver import Rng, run_impl, short_hash
    n = 30000 if ctx.tier == "quick" else 600000
    rng = Rng(ctx.seed * 1000003 + 17).fork("C06-search")
    ops = BINOPS + [o + "a" for o in BINOPS] + ["eq", "new", "read", "neg", "inv", "pow", "rpn", "rpn", "reads", "writes"]
    mods = BIG + BIG + BIG2 + SMALL + SMALL2
    cases = []
    for _ in range(n):
        m = rng.choice(mods)
        op = rng.choice(ops)

        def operand():
            k = rng.below(7)
            if k == 0:
                return rng.choice([0, 1, 2, m - 1, m - 2, m // 2, m // 2 + 1])
            if k == 1:
                return rng.range(I64_MIN, I64_MAX)
            if k == 2:
                return clamp_i64(m * rng.range(-(1 << 32), 1 << 32) + rng.range(-2, 2))
            if k == 3:
                return rng.choice(CLUSTERS[rng.below(3)]) % m
            return rng.below(m)
        if op in ("new", "read", "neg", "inv"):
            c = case(m, op, operand())
        elif op == "reads":
            # a random numeral (sometimes zero-padded) delivered in random pieces / byte by byte / in 2s and 3s
            tok = zpad(operand(), rng.choice([0, 0, 0, 1, 2, rng.range(3, 25)]))
            style = rng.choice([0, 0, 1, 2, 3, 4])
            eof = rng.chance(1, 6)
            text, _sp = layout([tok], style, eof)
            k = rng.below(4)
            if k == 0:
                h, cy = (), (rng.range(1, 4),)
            else:
                h, cy = cuts_to_head([rng.below(len(text) + 1) for _ in range(rng.range(1, 4))]), (() if k < 3 else (rng.range(1, 3),))
            c = case(m, "reads", sched_str(h, cy, random_flags(rng).replace("e", "") + ("e" if eof else "") + ("w%d" % style if style else "")), tok)
        elif op == "writes":
            c = case(m, "writes", sched_str(cuts_to_head([rng.below(14) for _ in range(rng.below(3))]), (rng.range(1, 4),) if rng.chance(1, 2) else (),
                                            random_flags(rng, sink=True)), operand())
        elif op == "pow":
            d = rng.choice([rng.range(0, U64_MAX), rng.range(0, 70), (1 << rng.range(0, 63)) - rng.below(2), U64_MAX - rng.below(3)])
            c = case(m, op, operand(), d)
        elif op == "rpn":
            c = rpn_random(rng, m, operand, 10)
        else:
            c = case(m, op, operand(), operand())
        if m in ALIAS and rng.chance(1, 3):
            c["alias"] = ALIAS[m]
        cases.append(c)
    shows = show_cases(rng, 400 if ctx.tier == "quick" else 6000)
    lines = [harness_line(c) for c in cases + shows]
    violations, bad, bad_show = [], 0, 0
    relchk, relchk_note = build_relchk(ctx)
    bins = dict(ctx.bins)
    if relchk:
        bins["relchk"] = relchk
    for profile in list(PROFILES) + (["relchk"] if relchk else []):
        try:
            outs = run_impl(bins[profile], lines)
        except RuntimeError as e:
            return {"coverage": {"search_evaluations": 0},
                    "violations": [{"name": "search-crash", "kind": "broken-correspondence", "nofail": True,
                                    "payload": {"what": "executor crashed during the search", "log": str(e)[-2000:]}}]}
        for c, o in zip(cases, outs):
            if not py_ok(c, o):
                bad += 1
                if not violations:
                    violations.append({"name": "search-%s" % short_hash(harness_line(c) + profile),
                                       "payload": {"case": c, "profile": profile, "impl_observation": o,
                                                   "what": "implementation-level search: the result violates the property "
                                                           "(judged with Python integers)"}})
        first_show = True
        for c, o in zip(shows, outs[len(cases):]):
            j = show_judge(c, o)
            if j:
                bad_show += 1
                if first_show and not any(v["name"].startswith("show-") for v in violations):
                    first_show = False
                    v = {"name": "show-%s" % short_hash(harness_line(c) + profile), "nofail": j[1],
                         "payload": {"case": c, "profile": profile, "impl_observation": o, "what": j[0]}}
                    if j[1]:
                        v["kind"] = "broken-correspondence"
                        v["payload"]["obligation"] = "Show::show behaves like the reviewed search loop"
                    violations.append(v)
    nprof = len(PROFILES) + (1 if relchk else 0)
    return {"coverage": {"search_evaluations": len(cases) * nprof, "search_failures": bad,
                         "search_profiles": list(PROFILES) + (["relchk (release, opt-level s, overflow-checks on)"] if relchk else []),
                         "relchk_profile": relchk_note,
                         "search_rule": "uniform choice of modulus (31, the seven original big moduli twice) and operation (14 "
                                        "single operations, random multi-step expressions of 3..10 operations twice, a read "
                                        "whose text arrives in random pieces and a write into a sink taking random pieces), operands: "
                                        "boundary residues, width-boundary factors, uniform residues, uniform i64, multiples of M "
                                        "+-2; judged with Python integers",
                         "show_evaluations": len(shows) * nprof, "show_failures": bad_show,
                         "show_rule": "Show::show on 13 moduli (two through the aliases), mint_max in {100,0,1,2,5,17,-1}, "
                                      "mint_rational on/off and the default settings; values: small integers, small fractions, "
                                      "uniform residues; compared with a Python transcription of the search loop"},
            "violations": violations}


MANIFEST = {
    "text": "Theorems (Coq 8.16.1, closed under the global context) about an executable Gallina model of rlib_mint::Modular<M> "
            "over Z in which every cast wraps and every + - * is overflow-checked (i32/u32/i64), for EVERY modulus "
            "2 <= M < 2^31, prime or composite: new v = Some (v mod M) for every i64 v (c06_new, c06_read); + - * neg return "
            "Some of the canonical representative of the integer result, i.e. no intermediate leaves its Rust type "
            "(c06_add/sub/mul/neg); pow = x^d mod M for every d < 2^64 within 64 iterations (c06_pow, c06_pow_64); the i32 loop "
            "of inv never overflows for any fuel (c06_inv_no_overflow), ends within 64 iterations (c06_inv_terminates, "
            "c06_inv_terminates_64) and returns r in [0,M) with r*v = gcd(v,M) mod M, hence a true inverse of every unit "
            "(c06_inv_gcd, c06_inv_correct); (x / y) * y = x for y coprime to M (c06_div); == on representatives decides "
            "congruence (c06_canonical_eq); the u32 digit loop behind Display/Debug/Writable stays in its buffer and its text "
            "denotes the value, so printing is canonical (c06_write, c06_write_canonical); witnesses that both bounds are "
            "needed (c06_bound_needed_refuted_at_2_31, c06_lower_bound_needed_refuted_at_1); and model_check c = true -> "
            "spec_strict c = true (c06_model_implies_spec_strict: range, ring/inverse equations and canonical numeral carried "
            "from the model to every matching case by proof). The model is tied to the code on every run: the executor instantiates "
            "31 moduli (2..12 and the odd composites/prime powers 5, 9, 15, 21, 25 and 10 exhaustively; 65536, 65537, 998244353, "
            "10^9+7, 2^31-1, 2^31-2, 2^31-19 and 341, 561, 46341, 1373653, 2^24, 16777259, 10^9, 2^30-1, 2^30, 2^30+3, 2^31-3 on "
            "boundary/random operands, factors at the 2^15 / 46341 / 2^16 / 2^24 / 2^30 product widths, inverse-derived factor "
            "pairs; the two competition primes also through the aliases Mint998/Mint107), debug and release profile, single "
            "operations and multi-step expressions (chains of + - * / neg inv pow in operator and assigning form, the constants "
            "ZERO/ONE, == applied to computed values; Coq decides the last operation on the residues of its operands), values "
            "read singly, through read_vec and tuples, and the same reads with the text delivered in pieces (byte by byte, chunks, "
            "one / two / three cuts inside a numeral, Interrupted errors, io::Chain, other blanks, end of input after the last "
            "digit, zero-padded numerals, the 64 KiB mark) and the value written next to the end of the Writer's buffer or into a "
            "short-write / interrupting sink - all required to give the observation of the plain read / new; inverses also on a "
            "second thread; the three renderings are compared byte "
            "for byte, and the executor's internal checks (formatter flags, to_string, Writable of Vec/tuples, ZERO/ONE, "
            "value == new(inner())) turn into a failing rendering; Coq proves model = implementation and implementation |= spec on "
            "every case; an implementation-level random search judged with Python integers (single operations, random "
            "expressions, and Show::show against a transcription of its search loop) runs in addition.",
    "level_note": "Trusted: Coq kernel + vm_compute; the Rust executor and the Python case printer; the Rust integer semantics "
                  "written into the model (casts keep the low bits, arithmetic is checked, / and % truncate); Readable is new "
                  "applied to the parsed i64 (the parser is C08; how the text reaches it - short reads, Interrupted errors, delimiters, "
                  "zero padding - is sampled by the delivery cases, not modelled); theorems are about the model, the correspondence is sampled on "
                  "31 moduli; inside a multi-step expression the sub-expressions are evaluated by the Python printer and Coq "
                  "judges the last operation; Show::show is only compared with a Python transcription; spec_check additionally compares every text with the standard library's decimal printer, "
                  "which is evaluated per case (vm_compute), not covered by c06_model_implies_spec_strict.",
    "technique": "Coq proof over Gallina model + vm_compute correspondence batches against the Rust crate (debug and release)",
}
