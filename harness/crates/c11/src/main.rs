//! C11 executor: `<ty> gcd a b | lcm a b | egcd a b c | crt a1 m1 a2 m2`
//! prints `R <value>` / `R none` / `R x y`, or `P` on panic.
use rlib_gcd::{crt, egcd, gcd, lcm};
use vh::p;

macro_rules! common {
    ($t:ty, $toks:expr) => {{
        let t = $toks;
        match t[1] {
            "gcd" => Some(format!("R {}", gcd::<$t>(p(t[2]), p(t[3])))),
            "lcm" => Some(format!("R {}", lcm::<$t>(p(t[2]), p(t[3])))),
            "egcd" => Some(match egcd::<$t>(p(t[2]), p(t[3]), p(t[4])) {
                Some((x, y)) => format!("R {} {}", x, y),
                None => "R none".to_string(),
            }),
            _ => None,
        }
    }};
}
macro_rules! signed {
    ($t:ty, $toks:expr) => {{
        let t = $toks;
        match common!($t, t) {
            Some(s) => s,
            None => match t[1] {
                "crt" => match crt::<$t>(p(t[2]), p(t[3]), p(t[4]), p(t[5])) {
                    Some(x) => format!("R {}", x),
                    None => "R none".to_string(),
                },
                _ => panic!("unknown op"),
            },
        }
    }};
}

fn main() {
    vh::serve(|t| match t[0] {
        "i32" => signed!(i32, t),
        "i64" => signed!(i64, t),
        "i128" => signed!(i128, t),
        "isize" => signed!(isize, t),
        "i8" => signed!(i8, t),
        "i16" => signed!(i16, t),
        "u8" => common!(u8, t).expect("unknown op"),
        "u16" => common!(u16, t).expect("unknown op"),
        "usize" => common!(usize, t).expect("unknown op"),
        "u32" => common!(u32, t).expect("unknown op"),
        "u64" => common!(u64, t).expect("unknown op"),
        "u128" => common!(u128, t).expect("unknown op"),
        other => {
            eprintln!("harness: unknown type {}", other);
            std::process::exit(3)
        }
    });
}
