//! C15 executor.  One case per line:
//!   `sub <ty> <x> <lim>` / `sup <ty> <x> <lim>`   x = bit pattern of the mask as an unsigned decimal; prints
//!                                     `R v v v ...` (each item's bit pattern, unsigned decimal)
//!   `np a b c ...`                    next_permutation on a Vec<i64>; prints `R <0|1> a b c ...`
//!   `ip <lim> a b c ...`              iter_permutations(Vec<i64>); prints `R a b c ; a c b ; ...` (every item closed by `;`)
//!   `n4|n4d|n8 n m i j`               prints `R a b a b ...`
//!   `subck|supck <ty> <x> <lim>`     implementation-level search (checks/c15.py `extra`): runs the iterator without printing
//!                                     the items; prints `K <count> <ok> <first> <last>` where ok = 1 iff every item is a
//!                                     submask (supermask) of x and the items are strictly decreasing (increasing) as
//!                                     unsigned bit patterns
//! Iterators are cut after `lim` items; the generator passes one more than the longest correct output, so a cut
//! output is always a wrong output (a broken iterator that never ends cannot hang or flood the check).
use rlib_iter::*;
use vh::p;

const NB_LIMIT: usize = 9;

macro_rules! masks {
    ($t:ty, $u:ty, $toks:expr) => {{
        let t = $toks;
        // same-width cast: the signed value with the given bit pattern
        let x = p::<$u>(t[2]) as $t;
        let lim: usize = p(t[3]);
        let items: Vec<$t> = match t[0] {
            "sub" => iter_submasks::<$t>(x).take(lim).collect(),
            "sup" => iter_supermasks::<$t>(x).take(lim).collect(),
            _ => unreachable!(),
        };
        let mut s = String::from("R");
        for v in items {
            s.push(' ');
            s.push_str(&(v as $u).to_string());
        }
        s
    }};
}

macro_rules! maskck {
    ($t:ty, $u:ty, $toks:expr) => {{
        let t = $toks;
        let x = p::<$u>(t[2]) as $t;
        let ux = x as $u;
        let lim: usize = p(t[3]);
        let sub = t[0] == "subck";
        let it: Box<dyn Iterator<Item = $t>> =
            if sub { Box::new(iter_submasks::<$t>(x)) } else { Box::new(iter_supermasks::<$t>(x)) };
        let (mut cnt, mut ok) = (0u64, true);
        let (mut first, mut prev): (Option<$u>, Option<$u>) = (None, None);
        for v in it.take(lim) {
            let uv = v as $u;
            if first.is_none() {
                first = Some(uv);
            }
            if sub {
                ok &= uv & ux == uv && prev.map_or(true, |q| uv < q);
            } else {
                ok &= uv & ux == ux && prev.map_or(true, |q| uv > q);
            }
            prev = Some(uv);
            cnt += 1;
        }
        format!("K {} {} {} {}", cnt, ok as u8, first.map_or("-".to_string(), |v| v.to_string()),
                prev.map_or("-".to_string(), |v| v.to_string()))
    }};
}

fn cells<I: Iterator<Item = (usize, usize)>>(it: I) -> String {
    let mut s = String::from("R");
    for (a, b) in it.take(NB_LIMIT) {
        s.push_str(&format!(" {} {}", a, b));
    }
    s
}

fn main() {
    vh::serve(|t| match t[0] {
        "sub" | "sup" => match t[1] {
            "u8" => masks!(u8, u8, t),
            "i8" => masks!(i8, u8, t),
            "u16" => masks!(u16, u16, t),
            "i16" => masks!(i16, u16, t),
            "u32" => masks!(u32, u32, t),
            "i32" => masks!(i32, u32, t),
            "u64" => masks!(u64, u64, t),
            "i64" => masks!(i64, u64, t),
            "u128" => masks!(u128, u128, t),
            "i128" => masks!(i128, u128, t),
            "usize" => masks!(usize, usize, t),
            "isize" => masks!(isize, usize, t),
            other => {
                eprintln!("harness: unknown type {}", other);
                std::process::exit(3)
            }
        },
        "subck" | "supck" => match t[1] {
            "u8" => maskck!(u8, u8, t),
            "i8" => maskck!(i8, u8, t),
            "u16" => maskck!(u16, u16, t),
            "i16" => maskck!(i16, u16, t),
            "u32" => maskck!(u32, u32, t),
            "i32" => maskck!(i32, u32, t),
            "u64" => maskck!(u64, u64, t),
            "i64" => maskck!(i64, u64, t),
            "u128" => maskck!(u128, u128, t),
            "i128" => maskck!(i128, u128, t),
            "usize" => maskck!(usize, usize, t),
            "isize" => maskck!(isize, usize, t),
            other => {
                eprintln!("harness: unknown type {}", other);
                std::process::exit(3)
            }
        },
        "np" => {
            let mut v: Vec<i64> = t[1..].iter().map(|s| p::<i64>(s)).collect();
            let r = next_permutation(&mut v);
            let mut s = format!("R {}", if r { 1 } else { 0 });
            for x in v {
                s.push_str(&format!(" {}", x));
            }
            s
        }
        "ip" => {
            let lim: usize = p(t[1]);
            let v: Vec<i64> = t[2..].iter().map(|s| p::<i64>(s)).collect();
            let mut s = String::from("R");
            for item in iter_permutations(v).take(lim) {
                for x in item {
                    s.push_str(&format!(" {}", x));
                }
                s.push_str(" ;");
            }
            s
        }
        "n4" => cells(iter_neighbours_4(p(t[1]), p(t[2]), p(t[3]), p(t[4]))),
        "n4d" => cells(iter_neighbours_4d(p(t[1]), p(t[2]), p(t[3]), p(t[4]))),
        "n8" => cells(iter_neighbours_8(p(t[1]), p(t[2]), p(t[3]), p(t[4]))),
        other => {
            eprintln!("harness: unknown op {}", other);
            std::process::exit(3)
        }
    });
}
