//! C15 executor.  One case per line:
//!   `sub <ty> <x> <lim>` / `sup <ty> <x> <lim>`   x = bit pattern of the mask as an unsigned decimal; prints
//!                                     `R v v v ...` (each item's bit pattern, unsigned decimal) of `.take(lim)`
//!   `np a b c ...`                    next_permutation on a Vec<i64>; prints `R <0|1> a b c ...`
//!   `ip <lim> a b c ...`              iter_permutations(Vec<i64>).take(lim); prints `R a b c ; a c b ; ...` (every item closed by `;`)
//!   `n4|n4d|n8 n m i j`               prints `R a b a b ...`
//!   `subck|supck <ty> <x> <lim>`     implementation-level search (checks/c15.py `extra`): runs the iterator without printing
//!                                     the items; prints `K <count> <ok> <first> <last>` where ok = 1 iff every item is a
//!                                     submask (supermask) of x and the items are strictly decreasing (increasing) as
//!                                     unsigned bit patterns
//! Iterators are cut after `lim` items; for a full listing the generator passes one more than the longest correct
//! output, so a cut output is always a wrong output (a broken iterator that never ends cannot hang or flood the check).
//!
//! Ops that print the SAME observation line as one of the ops above but obtain it differently, and check the rest of
//! the `Iterator` protocol / independence of several live iterators on the way.  Any internal inconsistency prints
//! `F <what>` instead of `R ...` (never a legal observation):
//!   `subm|supm <ty> <x> <lim> <k>`   = `sub|sup`: items through a `size_hint()`/`next()` loop; size_hint must bracket the
//!                                     number of remaining items; `count`, `last`, `nth(k)`, `fold`, `for_each`, `collect`,
//!                                     `extend`, `skip`, `step_by`, `by_ref` + `take`, `zip` of two instances, a half-used
//!                                     dropped instance, and `fold` / `for_each` / `count` / `last` / `all` / `collect` on an
//!                                     iterator already advanced by `next()` / `nth()` / `skip()` — all compared with the item
//!                                     list
//!   `subnest|supnest <ty> <x> <lim>` = `sub|sup`: `for s in iter(x) { for t in iter(s) {..} }`; the outer items are printed,
//!                                     every inner listing is checked (first = s, strictly monotone, all sub/supermasks
//!                                     of s, 2^free items, last = 0 / all-ones)
//!   `subzip|supzip <ty> <x> <lim> <y> <z>` = `sub|sup` of x while iter_submasks(y) and iter_supermasks(z) are alive and
//!                                     polled in turn (both checked like an inner listing); before that half-used
//!                                     iterators over y and z are dropped
//!   `ipm <lim> <k> d..`              = `ip`: protocol checks as `subm`
//!   `ipzip <lim> <n1> d1.. d2..`     = `ip` of d1 while iter_permutations(d2) is polled in turn (compared with its own
//!                                     listing obtained alone)
//!   `n4m|n4dm|n8m n m i j k`         = `n4|n4d|n8`: protocol checks; a second iterator for the transposed cell is
//!                                     polled in turn
//!   `npg <kind> d..`                 = `np` with another element type: `u8`, `str` (String "%05d"), `tup` ((i32, i32),
//!                                     v = 4a + b), `key` (struct ordered by its key only, carrying a tag; the multiset of
//!                                     (key, tag) objects must be preserved), `unit` (Vec<()>), `drop` (counts clones and
//!                                     drops: nothing leaked, nothing dropped twice), `arr` ([i64; N] for N <= 6 / boxed slice)
//!   `ipg <kind> <lim> d..`           = `ip` with element type `u8|str|tup|drop`, `key` / `keym` (the struct ordered by its key
//!                                     only, every element with its own tag; `keym` through the protocol checks of `ipm`) and
//!                                     `ci` (strings compared case-insensitively, every element spelled with its own
//!                                     capitalisation): every yielded vector must be a rearrangement of the input OBJECTS
//!                                     (same multiset of (key, tag) / exact spellings: objects are moved or cloned as a
//!                                     whole, never rebuilt from an equal element), else `F objects-<n>`
//!   `npsub <a> <b> v..`              = `np` on `v[a..b]` through `next_permutation(&mut v[a..b])`; the elements outside
//!                                     the range must not change; prints `R <0|1> v[a..b]`
use rlib_iter::*;
use std::cell::Cell;
use std::cmp::Ordering;
use std::rc::Rc;
use vh::p;

const NB_LIMIT: usize = 9;

/// The parts of the `Iterator` contract that every implementation must satisfy, checked against the item list
/// obtained by plain `next()` calls.  `mk` creates a fresh iterator over the same input.
fn protocol<T: PartialEq + Clone, I: Iterator<Item = T>>(mk: &dyn Fn() -> I, lim: usize, k: usize) -> Result<Vec<T>, String> {
    let mut it = mk();
    let mut hints = Vec::new();
    let mut items: Vec<T> = Vec::new();
    let mut drained = false;
    while items.len() < lim {
        hints.push(it.size_hint());
        match it.next() {
            Some(v) => items.push(v),
            None => {
                drained = true;
                break;
            }
        }
    }
    drop(it);
    let total = items.len();
    if drained {
        for (i, (lo, hi)) in hints.iter().enumerate() {
            let rem = total - i;
            if *lo > rem || hi.map_or(false, |h| rem > h) {
                return Err(format!("size_hint-{}-of-{}", i, total));
            }
        }
        if mk().count() != total {
            return Err("count".into());
        }
        if mk().last() != items.last().cloned() {
            return Err("last".into());
        }
        if mk().fold(Vec::new(), |mut a, v| { a.push(v); a }) != items {
            return Err("fold".into());
        }
        let mut fe = Vec::new();
        mk().for_each(|v| fe.push(v));
        if fe != items {
            return Err("for_each".into());
        }
        if mk().collect::<Vec<T>>() != items {
            return Err("collect".into());
        }
        let mut ex = Vec::new();
        ex.extend(mk());
        if ex != items {
            return Err("extend".into());
        }
        if mk().step_by(2).collect::<Vec<T>>() != items.iter().step_by(2).cloned().collect::<Vec<T>>() {
            return Err("step_by".into());
        }
        if mk().skip(k).collect::<Vec<T>>() != items.iter().skip(k).cloned().collect::<Vec<T>>() {
            return Err("skip".into());
        }
        if mk().enumerate().any(|(i, v)| items[i] != v) {
            return Err("enumerate".into());
        }
        // internal iteration (fold / try_fold and everything std routes through them) on an iterator that has
        // already been advanced with next() / nth(): the remaining items, each once
        let mut starts = vec![1usize.min(total), k.min(total), total];
        starts.dedup();
        for &n in starts.iter() {
            let adv = || {
                let mut it = mk();
                for _ in 0..n {
                    let _ = it.next();
                }
                it
            };
            let rest: Vec<T> = items[n..].to_vec();
            if adv().fold(Vec::new(), |mut a, v| { a.push(v); a }) != rest {
                return Err(format!("next{}-then-fold", n));
            }
            let mut fe = Vec::new();
            adv().for_each(|v| fe.push(v));
            if fe != rest {
                return Err(format!("next{}-then-for_each", n));
            }
            if adv().count() != rest.len() {
                return Err(format!("next{}-then-count", n));
            }
            if adv().last() != rest.last().cloned() {
                return Err(format!("next{}-then-last", n));
            }
            let mut tf = Vec::new();
            let _ = adv().all(|v| { tf.push(v); true });
            if tf != rest {
                return Err(format!("next{}-then-all", n));
            }
            if adv().map(|v| v).collect::<Vec<T>>() != rest {
                return Err(format!("next{}-then-collect", n));
            }
            if mk().skip(n).count() != rest.len() {
                return Err(format!("skip{}-count", n));
            }
            if mk().skip(n).last() != rest.last().cloned() {
                return Err(format!("skip{}-last", n));
            }
            if mk().skip(n).fold(Vec::new(), |mut a, v| { a.push(v); a }) != rest {
                return Err(format!("skip{}-fold", n));
            }
            if n >= 1 {
                let mut it = mk();
                let _ = it.nth(n - 1);
                if it.fold(Vec::new(), |mut a, v| { a.push(v); a }) != rest {
                    return Err(format!("nth{}-then-fold", n - 1));
                }
            }
        }
    }
    if drained || k < total {
        if mk().nth(k) != items.get(k).cloned() {
            return Err("nth".into());
        }
    }
    // (never poll an iterator again after it returned None: that is unspecified for a non-fused iterator)
    if (drained && k < total) || k + 1 < total {
        let mut it = mk();
        let _ = it.nth(k);
        if it.next() != items.get(k + 1).cloned() {
            return Err("nth-then-next".into());
        }
    }
    {
        // by_ref + take, then the rest from the same iterator
        let mut it = mk();
        let mut a: Vec<T> = it.by_ref().take(k.min(total)).collect();
        let rest = lim - a.len();
        a.extend(it.take(rest));
        if a != items {
            return Err("by_ref".into());
        }
    }
    {
        // two instances in lock step, a third one used for one item and dropped in between
        let mut half = mk();
        let _ = half.next();
        let mut n = 0usize;
        for (a, b) in mk().zip(mk()).take(lim) {
            if n >= total || a != items[n] || b != items[n] {
                return Err("zip".into());
            }
            n += 1;
            if n == 1 {
                drop(std::mem::replace(&mut half, mk()));
            }
        }
        if n != total {
            return Err("zip-len".into());
        }
    }
    Ok(items)
}

macro_rules! mask_line {
    ($u:ty, $res:expr) => {{
        match $res {
            Ok(items) => {
                let mut s = String::from("R");
                for v in items {
                    s.push(' ');
                    s.push_str(&(v as $u).to_string());
                }
                s
            }
            Err(e) => format!("F {}", e),
        }
    }};
}

/// is `l` the complete listing of the submasks (`sub`) / supermasks of `s`?  (strictly monotone + right count => complete)
macro_rules! listing_ok {
    ($t:ty, $u:ty, $sub:expr, $s:expr, $l:expr) => {{
        let s: $u = $s as $u;
        let l: &Vec<$t> = $l;
        let free = if $sub { s.count_ones() } else { s.count_zeros() };
        let mut ok = free < 40 && l.len() as u128 == 1u128 << free && l.first().map(|v| *v as $u) == Some(s);
        let mut prev: Option<$u> = None;
        for v in l.iter() {
            let uv = *v as $u;
            if $sub {
                ok &= uv & s == uv && prev.map_or(true, |q| uv < q);
            } else {
                ok &= uv & s == s && prev.map_or(true, |q| uv > q);
            }
            prev = Some(uv);
        }
        ok && prev == Some(if $sub { 0 } else { <$u>::MAX })
    }};
}

macro_rules! masks {
    ($t:ty, $u:ty, $toks:expr) => {{
        let t = $toks;
        // same-width cast: the signed value with the given bit pattern
        let x = p::<$u>(t[2]) as $t;
        let lim: usize = p(t[3]);
        let res: Result<Vec<$t>, String> = match t[0] {
            "sub" => Ok(iter_submasks::<$t>(x).take(lim).collect()),
            "sup" => Ok(iter_supermasks::<$t>(x).take(lim).collect()),
            "subm" => protocol(&|| iter_submasks::<$t>(x), lim, p(t[4])),
            "supm" => protocol(&|| iter_supermasks::<$t>(x), lim, p(t[4])),
            "subnest" | "supnest" => {
                let sub = t[0] == "subnest";
                let mut outer: Vec<$t> = Vec::new();
                let mut bad: Option<String> = None;
                let it: Box<dyn Iterator<Item = $t>> =
                    if sub { Box::new(iter_submasks::<$t>(x)) } else { Box::new(iter_supermasks::<$t>(x)) };
                for s in it.take(lim) {
                    outer.push(s);
                    let inner: Vec<$t> = if sub {
                        iter_submasks::<$t>(s).take(lim).collect()
                    } else {
                        iter_supermasks::<$t>(s).take(lim).collect()
                    };
                    if bad.is_none() && !listing_ok!($t, $u, sub, s, &inner) {
                        bad = Some(format!("inner-{}", s as $u));
                    }
                }
                match bad {
                    None => Ok(outer),
                    Some(e) => Err(e),
                }
            }
            "subzip" | "supzip" => {
                let y = p::<$u>(t[4]) as $t;
                let z = p::<$u>(t[5]) as $t;
                let lim2: usize = 1 << 20;
                {
                    let mut h1 = iter_submasks::<$t>(y);
                    let mut h2 = iter_supermasks::<$t>(z);
                    let _ = (h1.next(), h2.next(), h1.next());
                }
                let mut a: Box<dyn Iterator<Item = $t>> =
                    if t[0] == "subzip" { Box::new(iter_submasks::<$t>(x)) } else { Box::new(iter_supermasks::<$t>(x)) };
                let mut b = iter_submasks::<$t>(y);
                let mut c = iter_supermasks::<$t>(z);
                let (mut la, mut lb, mut lc): (Vec<$t>, Vec<$t>, Vec<$t>) = (Vec::new(), Vec::new(), Vec::new());
                let (mut da, mut db, mut dc) = (false, false, false);
                while !(da && db && dc) {
                    if !da {
                        match a.next() {
                            Some(v) if la.len() < lim => la.push(v),
                            _ => da = true,
                        }
                    }
                    if !db {
                        match b.next() {
                            Some(v) if lb.len() < lim2 => lb.push(v),
                            _ => db = true,
                        }
                    }
                    if !dc {
                        match c.next() {
                            Some(v) if lc.len() < lim2 => lc.push(v),
                            _ => dc = true,
                        }
                    }
                }
                if !listing_ok!($t, $u, true, y, &lb) {
                    Err("zip-sub-y".to_string())
                } else if !listing_ok!($t, $u, false, z, &lc) {
                    Err("zip-sup-z".to_string())
                } else {
                    Ok(la)
                }
            }
            _ => unreachable!(),
        };
        mask_line!($u, res)
    }};
}

macro_rules! maskck {
    ($t:ty, $u:ty, $toks:expr) => {{
        let t = $toks;
        let x = p::<$u>(t[2]) as $t;
        let ux = x as $u;
        let lim: usize = p(t[3]);
        let sub = t[0] == "subck";
        let it: Box<dyn Iterator<Item = $t>> =
            if sub { Box::new(iter_submasks::<$t>(x)) } else { Box::new(iter_supermasks::<$t>(x)) };
        let (mut cnt, mut ok) = (0u64, true);
        let (mut first, mut prev): (Option<$u>, Option<$u>) = (None, None);
        for v in it.take(lim) {
            let uv = v as $u;
            if first.is_none() {
                first = Some(uv);
            }
            if sub {
                ok &= uv & ux == uv && prev.map_or(true, |q| uv < q);
            } else {
                ok &= uv & ux == ux && prev.map_or(true, |q| uv > q);
            }
            prev = Some(uv);
            cnt += 1;
        }
        format!("K {} {} {} {}", cnt, ok as u8, first.map_or("-".to_string(), |v| v.to_string()),
                prev.map_or("-".to_string(), |v| v.to_string()))
    }};
}

macro_rules! by_type {
    ($m:ident, $t:expr) => {
        match $t[1] {
            "u8" => $m!(u8, u8, $t),
            "i8" => $m!(i8, u8, $t),
            "u16" => $m!(u16, u16, $t),
            "i16" => $m!(i16, u16, $t),
            "u32" => $m!(u32, u32, $t),
            "i32" => $m!(i32, u32, $t),
            "u64" => $m!(u64, u64, $t),
            "i64" => $m!(i64, u64, $t),
            "u128" => $m!(u128, u128, $t),
            "i128" => $m!(i128, u128, $t),
            "usize" => $m!(usize, usize, $t),
            "isize" => $m!(isize, usize, $t),
            other => {
                eprintln!("harness: unknown type {}", other);
                std::process::exit(3)
            }
        }
    };
}

fn cells<I: Iterator<Item = (usize, usize)>>(it: I) -> String {
    let mut s = String::from("R");
    for (a, b) in it.take(NB_LIMIT) {
        s.push_str(&format!(" {} {}", a, b));
    }
    s
}

/// protocol checks for a neighbour iterator; a second iterator (the transposed cell) is polled in turn
fn cells_m<I: Iterator<Item = (usize, usize)>>(mk: &dyn Fn(usize, usize, usize, usize) -> I, t: &[&str]) -> String {
    let (n, m, i, j): (usize, usize, usize, usize) = (p(t[1]), p(t[2]), p(t[3]), p(t[4]));
    let k: usize = p(t[5]);
    let items = match protocol(&|| mk(n, m, i, j), NB_LIMIT, k) {
        Ok(v) => v,
        Err(e) => return format!("F {}", e),
    };
    let other_ref: Vec<(usize, usize)> = mk(m, n, j, i).take(NB_LIMIT).collect();
    let (mut a, mut b) = (mk(n, m, i, j), mk(m, n, j, i));
    let (mut la, mut lb) = (Vec::new(), Vec::new());
    let (mut da, mut db) = (false, false);
    while !(da && db) {
        if !da {
            match a.next() {
                Some(v) if la.len() < NB_LIMIT => la.push(v),
                _ => da = true,
            }
        }
        if !db {
            match b.next() {
                Some(v) if lb.len() < NB_LIMIT => lb.push(v),
                _ => db = true,
            }
        }
    }
    if la != items || lb != other_ref {
        return "F interleave".into();
    }
    let swapped: Vec<(usize, usize)> = items.iter().map(|&(a, b)| (b, a)).collect();
    let mut o2 = other_ref.clone();
    let mut s2 = swapped.clone();
    o2.sort();
    s2.sort();
    if o2 != s2 {
        return "F transpose".into();
    }
    cells(items.into_iter())
}

fn perm_line<T>(items: Vec<Vec<T>>, show: &dyn Fn(&T) -> String) -> String {
    let mut s = String::from("R");
    for item in items {
        for x in item.iter() {
            s.push(' ');
            s.push_str(&show(x));
        }
        s.push_str(" ;");
    }
    s
}

fn np_line<T>(r: bool, v: &[T], show: &dyn Fn(&T) -> String) -> String {
    let mut s = format!("R {}", if r { 1 } else { 0 });
    for x in v {
        s.push(' ');
        s.push_str(&show(x));
    }
    s
}

/// ordered by `key` only; `tag` identifies the object
#[derive(Clone, Debug)]
struct Keyed {
    key: i64,
    tag: u32,
}
impl PartialEq for Keyed {
    fn eq(&self, o: &Self) -> bool {
        self.key == o.key
    }
}
impl Eq for Keyed {}
impl PartialOrd for Keyed {
    fn partial_cmp(&self, o: &Self) -> Option<Ordering> {
        Some(self.cmp(o))
    }
}
impl Ord for Keyed {
    fn cmp(&self, o: &Self) -> Ordering {
        self.key.cmp(&o.key)
    }
}

/// counts creations (incl. clones) and drops
struct Counted {
    v: i64,
    live: Rc<Cell<i64>>,
    drops: Rc<Cell<i64>>,
    pad: String,
}
impl Counted {
    fn new(v: i64, live: &Rc<Cell<i64>>, drops: &Rc<Cell<i64>>) -> Self {
        live.set(live.get() + 1);
        Counted { v, live: live.clone(), drops: drops.clone(), pad: format!("pad-{}", v) }
    }
}
impl Clone for Counted {
    fn clone(&self) -> Self {
        Counted::new(self.v, &self.live, &self.drops)
    }
}
impl Drop for Counted {
    fn drop(&mut self) {
        self.live.set(self.live.get() - 1);
        self.drops.set(self.drops.get() + 1);
    }
}
impl PartialEq for Counted {
    fn eq(&self, o: &Self) -> bool {
        self.v == o.v
    }
}
impl Eq for Counted {}
impl PartialOrd for Counted {
    fn partial_cmp(&self, o: &Self) -> Option<Ordering> {
        Some(self.cmp(o))
    }
}
impl Ord for Counted {
    fn cmp(&self, o: &Self) -> Ordering {
        self.v.cmp(&o.v)
    }
}

/// compared without regard to case; the exact spelling identifies the object
#[derive(Clone, Debug)]
struct Ci(String);
impl Ci {
    /// element number `i` with value `v`: five letters whose capitalisation spells `i` in binary, then the value
    fn new(i: usize, v: i64) -> Self {
        let pre: String = "abcde".chars().enumerate().map(|(b, ch)| if i >> b & 1 == 1 { ch.to_ascii_uppercase() } else { ch }).collect();
        Ci(format!("{}{:05}", pre, v))
    }
    fn value(&self) -> String {
        self.0[5..].parse::<i64>().map_or("?".to_string(), |n| n.to_string())
    }
}
impl PartialEq for Ci {
    fn eq(&self, o: &Self) -> bool {
        self.0.to_lowercase() == o.0.to_lowercase()
    }
}
impl Eq for Ci {}
impl PartialOrd for Ci {
    fn partial_cmp(&self, o: &Self) -> Option<Ordering> {
        Some(self.cmp(o))
    }
}
impl Ord for Ci {
    fn cmp(&self, o: &Self) -> Ordering {
        lower(self).cmp(&lower(o))
    }
}
fn lower(c: &Ci) -> String {
    c.0.to_lowercase()
}

/// every yielded vector holds exactly the input objects (`id` = everything that distinguishes two objects, including
/// what `==` ignores); the index of the first offending item otherwise
fn same_objects<T, K: Ord>(input: &[T], items: &[Vec<T>], id: &dyn Fn(&T) -> K) -> Result<(), String> {
    let mut want: Vec<K> = input.iter().map(|x| id(x)).collect();
    want.sort();
    for (n, item) in items.iter().enumerate() {
        let mut got: Vec<K> = item.iter().map(|x| id(x)).collect();
        got.sort();
        if got != want {
            return Err(format!("objects-{}", n));
        }
    }
    Ok(())
}

fn to_str(v: i64) -> String {
    format!("{:05}", v)
}
fn to_tup(v: i64) -> (i32, i32) {
    (v.div_euclid(4) as i32, v.rem_euclid(4) as i32)
}
fn of_tup(t: &(i32, i32)) -> String {
    (t.0 as i64 * 4 + t.1 as i64).to_string()
}

fn npg(t: &[&str]) -> String {
    let d: Vec<i64> = t[2..].iter().map(|s| p::<i64>(s)).collect();
    match t[1] {
        "u8" => {
            let mut v: Vec<u8> = d.iter().map(|&x| x as u8).collect();
            let r = next_permutation(&mut v);
            np_line(r, &v, &|x| x.to_string())
        }
        "str" => {
            let mut v: Vec<String> = d.iter().map(|&x| to_str(x)).collect();
            let r = next_permutation(&mut v);
            np_line(r, &v, &|x| x.parse::<i64>().map_or("?".to_string(), |n| n.to_string()))
        }
        "tup" => {
            let mut v: Vec<(i32, i32)> = d.iter().map(|&x| to_tup(x)).collect();
            let r = next_permutation(&mut v);
            np_line(r, &v, &of_tup)
        }
        "key" => {
            let mut v: Vec<Keyed> = d.iter().enumerate().map(|(i, &x)| Keyed { key: x, tag: i as u32 }).collect();
            let r = next_permutation(&mut v);
            let mut tags: Vec<u32> = v.iter().map(|k| k.tag).collect();
            tags.sort();
            let same_objects = tags.iter().enumerate().all(|(i, &tg)| tg == i as u32)
                && v.iter().all(|k| d[k.tag as usize] == k.key);
            if !same_objects {
                return "F objects".into();
            }
            np_line(r, &v, &|x| x.key.to_string())
        }
        "unit" => {
            let mut v: Vec<()> = d.iter().map(|_| ()).collect();
            let r = next_permutation(&mut v);
            np_line(r, &v, &|_| "0".to_string())
        }
        "drop" => {
            let live = Rc::new(Cell::new(0i64));
            let drops = Rc::new(Cell::new(0i64));
            let mut v: Vec<Counted> = d.iter().map(|&x| Counted::new(x, &live, &drops)).collect();
            let r = next_permutation(&mut v);
            if live.get() != d.len() as i64 || drops.get() != 0 || v.iter().any(|c| c.pad != format!("pad-{}", c.v)) {
                return "F live-after-call".into();
            }
            let line = np_line(r, &v, &|x| x.v.to_string());
            drop(v);
            if live.get() != 0 || drops.get() != d.len() as i64 {
                return "F drops".into();
            }
            line
        }
        "arr" => {
            macro_rules! arr {
                ($n:expr) => {{
                    let mut a: [i64; $n] = [0; $n];
                    a.copy_from_slice(&d);
                    let r = next_permutation(&mut a);
                    np_line(r, &a, &|x| x.to_string())
                }};
            }
            match d.len() {
                0 => arr!(0),
                1 => arr!(1),
                2 => arr!(2),
                3 => arr!(3),
                4 => arr!(4),
                5 => arr!(5),
                6 => arr!(6),
                _ => {
                    let mut b: Box<[i64]> = d.clone().into_boxed_slice();
                    let r = next_permutation(&mut b);
                    np_line(r, &b, &|x| x.to_string())
                }
            }
        }
        other => {
            eprintln!("harness: unknown element kind {}", other);
            std::process::exit(3)
        }
    }
}

fn ipg(t: &[&str]) -> String {
    let lim: usize = p(t[2]);
    let d: Vec<i64> = t[3..].iter().map(|s| p::<i64>(s)).collect();
    match t[1] {
        "u8" => perm_line(iter_permutations(d.iter().map(|&x| x as u8).collect::<Vec<u8>>()).take(lim).collect(), &|x| x.to_string()),
        "str" => perm_line(iter_permutations(d.iter().map(|&x| to_str(x)).collect::<Vec<String>>()).take(lim).collect(),
                           &|x| x.parse::<i64>().map_or("?".to_string(), |n| n.to_string())),
        "tup" => perm_line(iter_permutations(d.iter().map(|&x| to_tup(x)).collect::<Vec<(i32, i32)>>()).take(lim).collect(), &of_tup),
        "key" | "keym" => {
            let v: Vec<Keyed> = d.iter().enumerate().map(|(i, &x)| Keyed { key: x, tag: i as u32 }).collect();
            let items: Vec<Vec<Keyed>> = if t[1] == "key" {
                iter_permutations(v.clone()).take(lim).collect()
            } else {
                match protocol(&|| iter_permutations(v.clone()), lim, 1) {
                    Ok(items) => items,
                    Err(e) => return format!("F {}", e),
                }
            };
            if let Err(e) = same_objects(&v, &items, &|k| (k.key, k.tag)) {
                return format!("F {}", e);
            }
            // the input vector itself is still what it was (the iterator owns its own copy)
            if v.iter().enumerate().any(|(i, k)| k.key != d[i] || k.tag != i as u32) {
                return "F input-changed".into();
            }
            perm_line(items, &|x| x.key.to_string())
        }
        "ci" => {
            let v: Vec<Ci> = d.iter().enumerate().map(|(i, &x)| Ci::new(i, x)).collect();
            let items: Vec<Vec<Ci>> = iter_permutations(v.clone()).take(lim).collect();
            if let Err(e) = same_objects(&v, &items, &|c| c.0.clone()) {
                return format!("F {}", e);
            }
            perm_line(items, &|x| x.value())
        }
        "drop" => {
            let live = Rc::new(Cell::new(0i64));
            let drops = Rc::new(Cell::new(0i64));
            let v: Vec<Counted> = d.iter().map(|&x| Counted::new(x, &live, &drops)).collect();
            let items: Vec<Vec<Counted>> = iter_permutations(v).take(lim).collect();
            // the iterator (with its own copy of the data) is gone: exactly the yielded items are alive
            if live.get() != (items.len() * d.len()) as i64 {
                return "F live-after-drain".into();
            }
            let line = perm_line(items.iter().map(|it| it.iter().map(|c| c.v).collect::<Vec<i64>>()).collect(), &|x| x.to_string());
            drop(items);
            if live.get() != 0 {
                return "F drops".into();
            }
            line
        }
        other => {
            eprintln!("harness: unknown element kind {}", other);
            std::process::exit(3)
        }
    }
}

fn main() {
    vh::serve(|t| match t[0] {
        "sub" | "sup" | "subm" | "supm" | "subnest" | "supnest" | "subzip" | "supzip" => by_type!(masks, t),
        "subck" | "supck" => by_type!(maskck, t),
        "np" => {
            let mut v: Vec<i64> = t[1..].iter().map(|s| p::<i64>(s)).collect();
            let r = next_permutation(&mut v);
            np_line(r, &v, &|x| x.to_string())
        }
        "npsub" => {
            let (a, b): (usize, usize) = (p(t[1]), p(t[2]));
            let orig: Vec<i64> = t[3..].iter().map(|s| p::<i64>(s)).collect();
            let mut v = orig.clone();
            let r = next_permutation(&mut v[a..b]);
            if v[..a] != orig[..a] || v[b..] != orig[b..] {
                return "F outside-the-range".into();
            }
            np_line(r, &v[a..b], &|x| x.to_string())
        }
        "npg" => npg(t),
        "ip" => {
            let lim: usize = p(t[1]);
            let v: Vec<i64> = t[2..].iter().map(|s| p::<i64>(s)).collect();
            perm_line(iter_permutations(v).take(lim).collect(), &|x| x.to_string())
        }
        "ipg" => ipg(t),
        "ipm" => {
            let lim: usize = p(t[1]);
            let k: usize = p(t[2]);
            let v: Vec<i64> = t[3..].iter().map(|s| p::<i64>(s)).collect();
            match protocol(&|| iter_permutations(v.clone()), lim, k) {
                Ok(items) => perm_line(items, &|x| x.to_string()),
                Err(e) => format!("F {}", e),
            }
        }
        "ipzip" => {
            let lim: usize = p(t[1]);
            let n1: usize = p(t[2]);
            let d1: Vec<i64> = t[3..3 + n1].iter().map(|s| p::<i64>(s)).collect();
            let d2: Vec<i64> = t[3 + n1..].iter().map(|s| p::<i64>(s)).collect();
            let alone: Vec<Vec<i64>> = iter_permutations(d2.clone()).take(lim).collect();
            {
                let mut half = iter_permutations(d2.clone());
                let _ = (half.next(), half.next());
            }
            let mut a = iter_permutations(d1);
            let mut b = iter_permutations(d2);
            let (mut la, mut lb): (Vec<Vec<i64>>, Vec<Vec<i64>>) = (Vec::new(), Vec::new());
            let (mut da, mut db) = (false, false);
            while !(da && db) {
                if !da {
                    match a.next() {
                        Some(v) if la.len() < lim => la.push(v),
                        _ => da = true,
                    }
                }
                if !db {
                    match b.next() {
                        Some(v) if lb.len() < lim => lb.push(v),
                        _ => db = true,
                    }
                }
            }
            if lb != alone {
                "F second-iterator".into()
            } else {
                perm_line(la, &|x| x.to_string())
            }
        }
        "n4" => cells(iter_neighbours_4(p(t[1]), p(t[2]), p(t[3]), p(t[4]))),
        "n4d" => cells(iter_neighbours_4d(p(t[1]), p(t[2]), p(t[3]), p(t[4]))),
        "n8" => cells(iter_neighbours_8(p(t[1]), p(t[2]), p(t[3]), p(t[4]))),
        "n4m" => cells_m(&|n, m, i, j| iter_neighbours_4(n, m, i, j), t),
        "n4dm" => cells_m(&|n, m, i, j| iter_neighbours_4d(n, m, i, j), t),
        "n8m" => cells_m(&|n, m, i, j| iter_neighbours_8(n, m, i, j), t),
        other => {
            eprintln!("harness: unknown op {}", other);
            std::process::exit(3)
        }
    });
}
