//! C19 executor: Tensor<E, D> for E in {i64, i32, u8, String} and D in 0..=6, 8.
//!
//! input line :  D[:ty] d_0..d_{D-1}  ctor  n x_0..x_{n-1}  op*
//!   ty   = i64 (default) | i32 | u8 | str (String holding the decimal text); elements travel as integers
//!   ctor = V (from_vec) | S (from_slice) | N v (new; the data list is still parsed, and ignored)
//!   op   = gi i*D | g i*D | s i*D v | it | dm | w | rt | db | rd r*D text | eq e*D m y*m | im m v*m
//!   text = written bytes with ' ' -> '_' and '\n' -> '/' ("." = empty)
//! output line:  C|P  then one observation per op (nothing after a constructor panic):
//!   gi -> offset|P   g -> value|P   s -> ok|P   it -> n x*n   dm -> d*D   w -> text|P
//!   rt -> P | eqflag n x*n   (write, read back with the same dims, compare with ==, iterate)
//!   rd -> P | d*D n x*n      (Tensor::read from the given text)
//!   eq -> P | 0|1|X          (P: the second tensor cannot be constructed; X: ==/!= not symmetric or not complementary)
//!   db -> Debug string with ' ' (and '"') removed | P
//!   im -> number of items iter_mut() yields (then the j-th item is assigned v_j, as far as both last)
//!
//! Internal consistency checks (a failure replaces the observation by a value the model never predicts):
//!   * every tensor that did not come out of from_vec in front of the model (clone, clone_from target, Tensor::read
//!     result, the tensor itself whatever its constructor) is compared, observer by observer (dims, iter, get_index and
//!     Index at the valid indices, written text, Debug text), with from_vec(dims, iter) -- `it`, `dm`, `rt`, `rd`;
//!   * copies are independent (writing to a clone through IndexMut / iter_mut leaves the original alone) -- `it`, `dm`;
//!   * iter(): count / nth / last / size_hint agree with the collected elements -- `it`;
//!   * one Writer carrying a scalar, the tensor, '\n' and the tensor again -- `w`;
//!   * one Reader delivering the tensor twice and a following scalar -- `rd`.
use rlib_io::{Readable, Reader, Writable, Writer};
use rlib_tensor::Tensor;
use vh::{guarded, p};

const BAD: i64 = -999_999_999_999_999;

trait Elem: Clone + PartialEq + std::fmt::Debug + Readable + Writable + 'static {
    fn of(v: i64) -> Self;
    fn to(&self) -> i64;
}
impl Elem for i64 {
    fn of(v: i64) -> Self {
        v
    }
    fn to(&self) -> i64 {
        *self
    }
}
impl Elem for i32 {
    fn of(v: i64) -> Self {
        i32::try_from(v).unwrap_or_else(|_| {
            eprintln!("harness: {} is not an i32", v);
            std::process::exit(3)
        })
    }
    fn to(&self) -> i64 {
        *self as i64
    }
}
impl Elem for u8 {
    fn of(v: i64) -> Self {
        u8::try_from(v).unwrap_or_else(|_| {
            eprintln!("harness: {} is not a u8", v);
            std::process::exit(3)
        })
    }
    fn to(&self) -> i64 {
        *self as i64
    }
}
impl Elem for String {
    fn of(v: i64) -> Self {
        v.to_string()
    }
    fn to(&self) -> i64 {
        self.parse().unwrap_or(BAD)
    }
}

fn enc(bytes: &[u8]) -> String {
    if bytes.is_empty() {
        return ".".to_string();
    }
    bytes
        .iter()
        .map(|&b| match b {
            b' ' => '_',
            b'\n' => '/',
            b if b.is_ascii_graphic() && b != b'_' && b != b'/' && b != b'.' => b as char,
            _ => '?',
        })
        .collect()
}

fn dec(s: &str) -> Vec<u8> {
    if s == "." {
        return vec![];
    }
    s.bytes()
        .map(|b| match b {
            b'_' => b' ',
            b'/' => b'\n',
            b => b,
        })
        .collect()
}

fn written<E: Elem, const D: usize>(t: &Tensor<E, D>) -> Vec<u8> {
    let mut v = Vec::new();
    {
        let mut w = Writer::new(Box::new(&mut v));
        w.write(t);
    }
    v
}

/// a scalar, the tensor, a newline and the tensor again through ONE writer
fn shared_writer_ok<E: Elem, const D: usize>(t: &Tensor<E, D>, single: &[u8]) -> bool {
    let got = guarded(|| {
        let mut v = Vec::new();
        {
            let mut w = Writer::new(Box::new(&mut v));
            w.write(&E::of(31));
            w.write_char(' ');
            w.write(t);
            w.write_char('\n');
            w.write(t);
        }
        v
    });
    let mut want = b"31 ".to_vec();
    want.extend_from_slice(single);
    want.push(b'\n');
    want.extend_from_slice(single);
    got == Some(want)
}

fn read_from<E: Elem, const D: usize>(dims: [usize; D], bytes: Vec<u8>) -> Tensor<E, D> {
    let mut r = Reader::new(Box::new(std::io::Cursor::new(bytes)));
    Tensor::<E, D>::read(dims, &mut r)
}

/// the text twice and a scalar behind it through ONE reader: two tensors and the scalar, token by token
/// (only called after a read of `text` alone has succeeded, so there are enough tokens)
fn shared_reader_ok<E: Elem, const D: usize>(dims: [usize; D], text: &[u8], n: usize) -> bool {
    let s = String::from_utf8_lossy(text).to_string();
    let one: Option<Vec<i64>> = s.split_ascii_whitespace().map(|x| x.parse::<i64>().ok()).collect();
    let one = match one {
        Some(v) if v.len() >= n => v,
        _ => return true, // tokens that are not integers: nothing to compare against
    };
    let mut all = one.clone();
    all.extend_from_slice(&one);
    all.push(31);
    // the second copy starts on the line on which the first one ends (a read that eats the rest of its last line loses tokens)
    let mut bytes = text.to_vec();
    bytes.push(b' ');
    bytes.extend_from_slice(text);
    bytes.extend_from_slice(b" 31\n");
    let got = guarded(|| {
        let mut r = Reader::new(Box::new(std::io::Cursor::new(bytes)));
        let a = Tensor::<E, D>::read(dims, &mut r);
        let b = Tensor::<E, D>::read(dims, &mut r);
        let z: E = r.read();
        (a, b, z)
    });
    match got {
        Some((a, b, z)) => {
            a.dims() == &dims
                && b.dims() == &dims
                && a.iter().map(|x| x.to()).eq(all[..n].iter().copied())
                && b.iter().map(|x| x.to()).eq(all[n..2 * n].iter().copied())
                && z.to() == all[2 * n]
        }
        None => false,
    }
}

fn arr<const D: usize>(t: &[&str], at: &mut usize) -> [usize; D] {
    let mut a = [0usize; D];
    for x in a.iter_mut() {
        *x = p(t[*at]);
        *at += 1;
    }
    a
}

fn list(out: &mut Vec<String>, it: impl Iterator<Item = i64>) {
    let v: Vec<i64> = it.collect();
    out.push(v.len().to_string());
    out.extend(v.iter().map(|x| x.to_string()));
}

/// the offsets at which a tensor of n elements is probed (all of them for small tensors)
fn probes(n: usize) -> Vec<usize> {
    if n <= 4096 {
        return (0..n).collect();
    }
    let mut v: Vec<usize> = (0..1024).collect();
    v.extend((0..1024).map(|k| 1024 + k * ((n - 2048) / 1024)));
    v.extend(n - 1024..n);
    v
}

/// multi-index of a storage offset (the harness' own mixed-radix digits; only used to enumerate indices)
fn unflatten<const D: usize>(dims: &[usize; D], mut k: usize) -> [usize; D] {
    let mut idx = [0usize; D];
    for i in (0..D).rev() {
        idx[i] = k % dims[i];
        k /= dims[i];
    }
    idx
}

/// everything that can be observed of a tensor, as text
fn fingerprint<E: Elem, const D: usize>(t: &Tensor<E, D>) -> Option<String> {
    guarded(|| {
        let mut s = format!("{:?}|", t.dims());
        let n = t.iter().count();
        for x in t.iter() {
            s.push_str(&x.to().to_string());
            s.push(',');
        }
        s.push('|');
        if t.dims().iter().all(|&d| d > 0) {
            for k in probes(n) {
                let idx = unflatten(t.dims(), k);
                s.push_str(&format!("{}:{},", t.get_index(idx), t[idx].to()));
            }
        }
        // (the texts of long tensors are compared by the caller of the executor, not here)
        if n <= 8192 {
            s.push('|');
            s.push_str(&String::from_utf8_lossy(&written(t)));
            s.push('|');
            s.push_str(&format!("{:?}", t));
        }
        s
    })
}

/// `u` (obtained by clone / clone_from / read / any constructor) behaves like from_vec(u.dims(), u.iter())
fn like_rebuilt<E: Elem, const D: usize>(u: &Tensor<E, D>) -> bool {
    let r = guarded(|| Tensor::<E, D>::from_vec(*u.dims(), u.iter().cloned().collect()));
    match r {
        Some(r) => {
            let f = fingerprint(u);
            f.is_some() && f == fingerprint(&r) && *u == r && r == *u
        }
        None => false,
    }
}

/// clone() and clone_from() (into a tensor that had another shape) give a tensor with the same shape and the same
/// elements that compares equal in both directions, behaves like a freshly built tensor under every observer and
/// is independent of the original
fn copies_agree<E: Elem, const D: usize>(t: &Tensor<E, D>) -> bool {
    let c = t.clone();
    let mut other = *t.dims();
    other.reverse();
    if D > 0 {
        other[0] += 1;
    }
    let mut d = Tensor::<E, D>::new(other, E::of(0));
    d.clone_from(t);
    let before: Vec<i64> = t.iter().map(|x| x.to()).collect();
    let n = before.len();
    let mut ok = like_rebuilt(t);
    for u in [c, d].iter_mut() {
        ok = ok && u.dims() == t.dims() && u.iter().eq(t.iter()) && *u == *t && *t == *u && !(*u != *t) && like_rebuilt(u);
        // independence: write to the copy (IndexMut at the last index, then iter_mut everywhere)
        if n > 0 && t.dims().iter().all(|&x| x > 0) {
            let last = unflatten(t.dims(), n - 1);
            let nv = if before[n - 1] == 1 { 2 } else { 1 };
            ok = ok && guarded(|| u[last] = E::of(nv)).is_some();
            ok = ok && u.iter().map(|x| x.to()).eq(before[..n - 1].iter().copied().chain(std::iter::once(nv)));
            ok = ok && t.iter().map(|x| x.to()).eq(before.iter().copied()) && *u != *t;
            for x in u.iter_mut() {
                *x = E::of(3);
            }
            ok = ok && u.iter().all(|x| x.to() == 3) && u.iter().count() == n;
            ok = ok && t.iter().map(|x| x.to()).eq(before.iter().copied());
        }
    }
    // ... and the consuming iterator yields the elements in storage order
    ok && t.clone().into_iter().map(|x| x.to()).eq(before.iter().copied())
}

/// count / nth / last / size_hint of iter() agree with the collected elements
fn iter_agrees<E: Elem, const D: usize>(t: &Tensor<E, D>) -> bool {
    let v: Vec<i64> = t.iter().map(|x| x.to()).collect();
    let n = v.len();
    let (lo, hi) = t.iter().size_hint();
    let mut ok = t.iter().count() == n && lo <= n && hi.map_or(true, |h| n <= h);
    ok = ok && t.iter().last().map(|x| x.to()) == v.last().copied();
    for k in [0, n / 2, n.saturating_sub(1), n, n + 1] {
        ok = ok && t.iter().nth(k).map(|x| x.to()) == v.get(k).copied();
    }
    ok
}

fn run<E: Elem, const D: usize>(t: &[&str]) -> String {
    let mut at = 1;
    let dims: [usize; D] = arr(t, &mut at);
    let ctor = t[at];
    at += 1;
    let newv: i64 = if ctor == "N" {
        at += 1;
        p(t[at - 1])
    } else {
        0
    };
    let n: usize = p(t[at]);
    at += 1;
    let data: Vec<E> = (0..n).map(|k| E::of(p(t[at + k]))).collect();
    at += n;
    let made = guarded(|| match ctor {
        "V" => Tensor::<E, D>::from_vec(dims, data.clone()),
        "S" => Tensor::<E, D>::from_slice(dims, &data),
        "N" => Tensor::<E, D>::new(dims, E::of(newv)),
        other => {
            eprintln!("harness: unknown constructor {}", other);
            std::process::exit(3)
        }
    });
    let mut tensor = match made {
        Some(x) => x,
        None => return "P".to_string(),
    };
    let mut out = vec!["C".to_string()];
    while at < t.len() {
        let op = t[at];
        at += 1;
        match op {
            "gi" => {
                let idx: [usize; D] = arr(t, &mut at);
                match guarded(|| tensor.get_index(idx)) {
                    Some(k) => out.push(k.to_string()),
                    None => out.push("P".into()),
                }
            }
            "g" => {
                let idx: [usize; D] = arr(t, &mut at);
                match guarded(|| tensor[idx].to()) {
                    Some(x) => out.push(x.to_string()),
                    None => out.push("P".into()),
                }
            }
            "s" => {
                let idx: [usize; D] = arr(t, &mut at);
                let v: i64 = p(t[at]);
                at += 1;
                match guarded(|| tensor[idx] = E::of(v)) {
                    Some(()) => out.push("ok".into()),
                    None => out.push("P".into()),
                }
            }
            // iteration, also through clone() and through clone_from() into a tensor of another shape: a copy
            // that iterates differently, does not compare equal or fails one of the consistency checks above is printed
            // as the empty list (never the iteration of a constructed tensor: extents are positive)
            "it" => {
                if copies_agree(&tensor) && iter_agrees(&tensor) {
                    list(&mut out, tensor.iter().map(|x| x.to()))
                } else {
                    out.push("0".into())
                }
            }
            // dims() and dim(i) must tell the same story: a disagreement is printed as 0 (never a valid extent)
            "dm" => {
                let same = copies_agree(&tensor);
                out.extend(tensor.dims().iter().enumerate()
                    .map(|(i, d)| if same && tensor.dim(i) == *d { d.to_string() } else { "0".to_string() }))
            }
            "w" => match guarded(|| written(&tensor)) {
                Some(b) => out.push(if shared_writer_ok(&tensor, &b) { enc(&b) } else { "BADW2".into() }),
                None => out.push("P".into()),
            },
            "rt" => {
                let r = guarded(|| {
                    let bytes = written(&tensor);
                    read_from::<E, D>(*tensor.dims(), bytes)
                });
                match r {
                    Some(t2) => {
                        let fine = t2 == tensor && tensor == t2 && !(t2 != tensor) && like_rebuilt(&t2)
                            && fingerprint(&t2) == fingerprint(&tensor);
                        out.push(if fine { "1" } else { "0" }.into());
                        list(&mut out, t2.iter().map(|x| x.to()));
                    }
                    None => out.push("P".into()),
                }
            }
            "rd" => {
                let rdims: [usize; D] = arr(t, &mut at);
                let bytes = dec(t[at]);
                at += 1;
                match guarded(|| read_from::<E, D>(rdims, bytes.clone())) {
                    Some(t2) => {
                        out.extend(t2.dims().iter().map(|d| d.to_string()));
                        let n2 = t2.iter().count();
                        if like_rebuilt(&t2) && shared_reader_ok::<E, D>(rdims, &bytes, n2) {
                            list(&mut out, t2.iter().map(|x| x.to()));
                        } else {
                            out.push("0".into())
                        }
                    }
                    None => out.push("P".into()),
                }
            }
            "eq" => {
                let edims: [usize; D] = arr(t, &mut at);
                let m: usize = p(t[at]);
                at += 1;
                let y: Vec<E> = (0..m).map(|k| E::of(p(t[at + k]))).collect();
                at += m;
                match guarded(|| Tensor::<E, D>::from_vec(edims, y)) {
                    Some(u) => {
                        let a = tensor == u;
                        let b = u == tensor;
                        let na = tensor != u;
                        let nb = u != tensor;
                        // both directions are printed: 0/1, or X if == is not symmetric or != is not its negation
                        out.push(if a != b || na == a || nb == b { "X" } else if a { "1" } else { "0" }.into());
                    }
                    None => out.push("P".into()),
                }
            }
            "db" => match guarded(|| format!("{:?}", tensor)) {
                Some(s) => out.push(enc(s.replace([' ', '"'], "").as_bytes())),
                None => out.push("P".into()),
            },
            "im" => {
                let m: usize = p(t[at]);
                at += 1;
                let vs: Vec<i64> = (0..m).map(|k| p(t[at + k])).collect();
                at += m;
                let cnt = tensor.iter_mut().count();
                for (x, v) in tensor.iter_mut().zip(vs) {
                    *x = E::of(v);
                }
                out.push(cnt.to_string());
            }
            other => {
                eprintln!("harness: unknown op {}", other);
                std::process::exit(3)
            }
        }
    }
    out.join(" ")
}

fn by_rank<E: Elem>(rank: &str, t: &[&str]) -> String {
    match rank {
        "0" => run::<E, 0>(t),
        "1" => run::<E, 1>(t),
        "2" => run::<E, 2>(t),
        "3" => run::<E, 3>(t),
        "4" => run::<E, 4>(t),
        "5" => run::<E, 5>(t),
        "6" => run::<E, 6>(t),
        "8" => run::<E, 8>(t),
        other => {
            eprintln!("harness: unsupported rank {}", other);
            std::process::exit(3)
        }
    }
}

fn main() {
    vh::serve(|t| {
        let (rank, ty) = t[0].split_once(':').unwrap_or((t[0], "i64"));
        match ty {
            "i64" => by_rank::<i64>(rank, t),
            "i32" => by_rank::<i32>(rank, t),
            "u8" => by_rank::<u8>(rank, t),
            "str" => by_rank::<String>(rank, t),
            other => {
                eprintln!("harness: unsupported element type {}", other);
                std::process::exit(3)
            }
        }
    });
}
