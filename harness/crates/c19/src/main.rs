//! C19 executor: Tensor<E, D> for E in {i64, i32, u8, String} and D in 0..=6, 8, and for every other element type
//! rlib_io can read (i8, i16, u16, u32, u64, i128, u128, isize, usize, char, the tuples (i64, u8), (u8, i64, u16),
//! (char, u32)) and D in 0..=3.
//!
//! input line :  D[:ty] d_0..d_{D-1}  ctor  n x_0..x_{n-1}  op*
//!   ty   = i64 (default) | i32 | u8 | str (String holding the decimal text) | i8 | i16 | u16 | u32 | u64 | i128 | u128 |
//!          isize | usize | char | t2 = (i64, u8) | t3 = (u8, i64, u16) | tc = (char, u32).
//!          Elements travel in their protocol spelling: the decimal text std's `to_string` gives for an integer (never
//!          rlib_io's rendering), the code point in decimal for a char, the components joined by ',' for a tuple.
//!          char and tc are Readable but not Writable: `w` / `rt` are not available for them.
//!          unit = (), zst = a zero-sized struct, f64 (integers, "-0", "nan"), tri = No / Yes / Unknown ("nan", never equal):
//!          see `run_lite` (ranks 0..4; ops gi g s it dm eq im sq; data of a zero-sized type may be `*L`).
//!   ctor = V (from_vec) | S (from_slice) | N v (new; the data list is still parsed, and ignored)
//!   op   = gi i*D | g i*D | s i*D v | it | dm | w | rt | db | rd r*D text | eq e*D m y*m | im m v*m
//!   text = written bytes with ' ' -> '_', '\n' -> '/', '\r' -> '\\', '\t' -> '~' ("." = empty)
//! output line:  C|P  then one observation per op (nothing after a constructor panic):
//!   gi -> offset|P   g -> value|P   s -> ok|P   it -> n x*n   dm -> d*D   w -> text|P
//!   rt -> P | eqflag n x*n   (write, read back with the same dims, compare with ==, iterate)
//!   rd -> P | d*D n x*n      (Tensor::read from the given text)
//!   eq -> P | 0|1|X          (P: the second tensor cannot be constructed; X: ==/!= not symmetric or not complementary)
//!   db -> Debug string with ' ' (and '"') removed | P
//!   im -> number of items iter_mut() yields (then the j-th item is assigned v_j, as far as both last)
//!
//! Internal consistency checks (a failure replaces the observation by a value the model never predicts):
//!   * every tensor that did not come out of from_vec in front of the model (clone, clone_from target, Tensor::read
//!     result, the tensor itself whatever its constructor) is compared, observer by observer (dims, iter, get_index and
//!     Index at the valid indices, written text, Debug text), with from_vec(dims, iter) -- `it`, `dm`, `rt`, `rd`;
//!   * copies are independent (writing to a clone through IndexMut / iter_mut leaves the original alone) -- `it`, `dm`;
//!   * iter(): count / nth / last / size_hint agree with the collected elements -- `it`;
//!   * one Writer carrying a scalar, the tensor, '\n' and the tensor again; the tensor inside a Vec, inside a tuple
//!     between scalars, and a pair of tensors, through `Writable for Vec<T>` / for tuples -- `w`;
//!   * one Reader delivering a scalar, the tensor twice (the first one starting on the scalar's line, the second one on
//!     the line on which the first one ends), a scalar and a pair of scalars read as a tuple; the expected elements are
//!     taken from the text with the standard library's parsing, element type by element type -- `rd` (a plain read
//!     that already differs from std's parsing is printed as read: the model rejects it and the replay shows it).
use rlib_io::{Readable, Reader, Writable, Writer};
use rlib_tensor::Tensor;
use vh::{guarded, p};

/// protocol spelling of an element the plugin maps to a value no model predicts
const BAD: &str = "-999999999999999";

fn skip_ws(s: &mut &[u8]) {
    while let [c, rest @ ..] = *s {
        if c.is_ascii_whitespace() {
            *s = rest;
        } else {
            break;
        }
    }
}

/// one maximal run of non-whitespace bytes off the front of an input text
fn token<'a>(s: &mut &'a [u8]) -> Option<&'a str> {
    skip_ws(s);
    let b: &'a [u8] = *s;
    let n = b.iter().position(|c| c.is_ascii_whitespace()).unwrap_or(b.len());
    if n == 0 {
        return None;
    }
    let (tok, rest) = b.split_at(n);
    *s = rest;
    std::str::from_utf8(tok).ok()
}

fn not_writable() -> ! {
    eprintln!("harness: this element type is not Writable");
    std::process::exit(3)
}

/// An element type of the tensors under test.  Everything here goes through the standard library (parse / to_string),
/// never through rlib_io, except `put` / `put_one`, which are the calls under test.
trait Elem: Clone + PartialEq + std::fmt::Debug + Readable + 'static {
    const WRITABLE: bool;
    /// from the protocol spelling
    fn of(s: &str) -> Self;
    /// protocol spelling
    fn to(&self) -> String;
    /// spelling inside an input text / expected spelling inside a written text
    fn spell(&self) -> String {
        self.to()
    }
    /// small distinct values for the executor's own checks
    fn small(k: u8) -> Self {
        Self::of(&k.to_string())
    }
    /// one element off the front of an input text (None: no further element, or not parsable by std)
    fn take(s: &mut &[u8]) -> Option<Self>;
    /// `writer.write(tensor)`
    fn put<const D: usize>(t: &Tensor<Self, D>, w: &mut Writer);
    /// `writer.write(element)`
    fn put_one(&self, w: &mut Writer);
    /// the tensor inside the containers rlib_io can write
    fn nested_ok<const D: usize>(t: &Tensor<Self, D>, single: &[u8]) -> bool;
}

macro_rules! writable {
    () => {
        const WRITABLE: bool = true;
        fn put<const D: usize>(t: &Tensor<Self, D>, w: &mut Writer) {
            w.write(t)
        }
        fn put_one(&self, w: &mut Writer) {
            w.write(self)
        }
        fn nested_ok<const D: usize>(t: &Tensor<Self, D>, single: &[u8]) -> bool {
            nested_ok(t, single)
        }
    };
}

macro_rules! readonly {
    () => {
        const WRITABLE: bool = false;
        fn put<const D: usize>(_: &Tensor<Self, D>, _: &mut Writer) {
            not_writable()
        }
        fn put_one(&self, _: &mut Writer) {
            not_writable()
        }
        fn nested_ok<const D: usize>(_: &Tensor<Self, D>, _: &[u8]) -> bool {
            true
        }
    };
}

macro_rules! int_elem {
    ($($t:ty),*) => {$(
        impl Elem for $t {
            writable!();
            fn of(s: &str) -> Self {
                p(s)
            }
            fn to(&self) -> String {
                self.to_string()
            }
            fn take(s: &mut &[u8]) -> Option<Self> {
                token(s)?.parse().ok()
            }
        }
    )*};
}
int_elem!(i8, i16, i32, i64, i128, isize, u8, u16, u32, u64, u128, usize);

impl Elem for String {
    writable!();
    fn of(s: &str) -> Self {
        s.to_string()
    }
    fn to(&self) -> String {
        // (a read at the end of the input of a release build yields the empty string)
        if !self.is_empty() && self.bytes().all(|b| b.is_ascii_graphic() && b != b',') {
            self.clone()
        } else {
            BAD.to_string()
        }
    }
    fn take(s: &mut &[u8]) -> Option<Self> {
        token(s).map(|x| x.to_string())
    }
}

impl Elem for char {
    readonly!();
    fn of(s: &str) -> Self {
        char::from_u32(p(s)).unwrap_or_else(|| {
            eprintln!("harness: {} is not a char", s);
            std::process::exit(3)
        })
    }
    fn to(&self) -> String {
        (*self as u32).to_string()
    }
    fn spell(&self) -> String {
        self.to_string()
    }
    fn small(k: u8) -> Self {
        (b'a' + k % 26) as char
    }
    fn take(s: &mut &[u8]) -> Option<Self> {
        skip_ws(s);
        let (c, rest) = s.split_first()?;
        *s = rest;
        Some(*c as char)
    }
}

macro_rules! tuple_elem {
    ($body:ident; $($t:ident . $i:tt),+) => {
        impl Elem for ($($t,)+) {
            $body!();
            fn of(s: &str) -> Self {
                let mut it = s.split(',');
                let r = ($(<$t as Elem>::of(it.next().unwrap_or("missing-component")),)+);
                if it.next().is_some() {
                    eprintln!("harness: too many components in {}", s);
                    std::process::exit(3)
                }
                r
            }
            fn to(&self) -> String {
                [$(self.$i.to()),+].join(",")
            }
            fn spell(&self) -> String {
                [$(self.$i.spell()),+].join(" ")
            }
            fn small(k: u8) -> Self {
                ($(<$t as Elem>::small(k),)+)
            }
            fn take(s: &mut &[u8]) -> Option<Self> {
                Some(($(<$t as Elem>::take(s)?,)+))
            }
        }
    };
}
tuple_elem!(writable; i64.0, u8.1);
tuple_elem!(writable; u8.0, i64.1, u16.2);
tuple_elem!(readonly; char.0, u32.1);

/// every element of an input text, in order (None: some part of it is not an element for std's parsing)
fn lex_all<E: Elem>(text: &[u8]) -> Option<Vec<E>> {
    let mut s = text;
    let mut v = Vec::new();
    loop {
        skip_ws(&mut s);
        if s.is_empty() {
            return Some(v);
        }
        v.push(E::take(&mut s)?);
    }
}

fn enc(bytes: &[u8]) -> String {
    if bytes.is_empty() {
        return ".".to_string();
    }
    bytes
        .iter()
        .map(|&b| match b {
            b' ' => '_',
            b'\n' => '/',
            b if b.is_ascii_graphic() && !b"_/.\\~".contains(&b) => b as char,
            _ => '?',
        })
        .collect()
}

fn dec(s: &str) -> Vec<u8> {
    if s == "." {
        return vec![];
    }
    s.bytes()
        .map(|b| match b {
            b'_' => b' ',
            b'/' => b'\n',
            b'\\' => b'\r',
            b'~' => b'\t',
            b => b,
        })
        .collect()
}

fn written<E: Elem, const D: usize>(t: &Tensor<E, D>) -> Vec<u8> {
    let mut v = Vec::new();
    {
        let mut w = Writer::new(Box::new(&mut v));
        E::put(t, &mut w);
    }
    v
}

/// a scalar, the tensor, a newline and the tensor again through ONE writer
fn shared_writer_ok<E: Elem, const D: usize>(t: &Tensor<E, D>, single: &[u8]) -> bool {
    let got = guarded(|| {
        let mut v = Vec::new();
        {
            let mut w = Writer::new(Box::new(&mut v));
            E::small(31).put_one(&mut w);
            w.write_char(' ');
            E::put(t, &mut w);
            w.write_char('\n');
            E::put(t, &mut w);
        }
        v
    });
    let mut want = E::small(31).spell().into_bytes();
    want.push(b' ');
    want.extend_from_slice(single);
    want.push(b'\n');
    want.extend_from_slice(single);
    got == Some(want)
}

/// the tensor as an item of `Writable for Vec<T>` and as a component of `Writable for (A, B, ..)`: the text of the
/// tensor alone, joined by single blanks with its neighbours
fn nested_ok<E: Elem + Writable, const D: usize>(t: &Tensor<E, D>, single: &[u8]) -> bool {
    fn one(f: impl FnOnce(&mut Writer)) -> Vec<u8> {
        let mut v = Vec::new();
        {
            let mut w = Writer::new(Box::new(&mut v));
            f(&mut w);
        }
        v
    }
    let got = guarded(|| {
        [
            one(|w| w.write(&vec![t.clone(), t.clone(), t.clone()])),
            one(|w| w.write(&(E::small(31), t.clone(), 7u32))),
            one(|w| w.write(&(t.clone(), t.clone()))),
            one(|w| w.write(&vec![(t.clone(), E::small(5)), (t.clone(), E::small(6))])),
        ]
    });
    let s31 = E::small(31).spell().into_bytes();
    let (s5, s6) = (E::small(5).spell().into_bytes(), E::small(6).spell().into_bytes());
    let sp: &[u8] = b" ";
    let want = [
        [single, sp, single, sp, single].concat(),
        [&s31[..], sp, single, sp, b"7"].concat(),
        [single, sp, single].concat(),
        [single, sp, &s5[..], sp, single, sp, &s6[..]].concat(),
    ];
    got == Some(want)
}

fn read_from<E: Elem, const D: usize>(dims: [usize; D], bytes: Vec<u8>) -> Tensor<E, D> {
    let mut r = Reader::new(Box::new(std::io::Cursor::new(bytes)));
    Tensor::<E, D>::read(dims, &mut r)
}

/// a scalar, the text twice, a scalar and a pair of scalars through ONE reader: element by element what std's parsing
/// finds in the text (only called after a read of `text` alone has succeeded, so there are enough elements)
fn shared_reader_ok<E: Elem, const D: usize>(dims: [usize; D], text: &[u8], n: usize) -> bool {
    let one: Vec<E> = match lex_all::<E>(text) {
        Some(v) if v.len() >= n => v,
        _ => return true, // not elements for the standard library: nothing to compare against
    };
    let mut all = vec![E::small(9)];
    all.extend_from_slice(&one);
    all.extend_from_slice(&one);
    all.extend([E::small(31), E::small(32), E::small(33)]);
    // the first copy starts on the line of the scalar in front of it, the second copy on the line on which the first
    // one ends (a read that eats the rest of its last line, or starts on a fresh line, loses elements)
    let mut bytes = E::small(9).spell().into_bytes();
    bytes.push(b' ');
    bytes.extend_from_slice(text);
    bytes.push(b' ');
    bytes.extend_from_slice(text);
    for k in [31, 32, 33] {
        bytes.push(b' ');
        bytes.extend_from_slice(E::small(k).spell().as_bytes());
    }
    bytes.push(b'\n');
    let got = guarded(|| {
        let mut r = Reader::new(Box::new(std::io::Cursor::new(bytes)));
        let z0: E = r.read();
        let a = Tensor::<E, D>::read(dims, &mut r);
        let b = Tensor::<E, D>::read(dims, &mut r);
        let z: E = r.read();
        let zz: (E, E) = r.read();
        (z0, a, b, z, zz)
    });
    match got {
        Some((z0, a, b, z, zz)) => {
            a.dims() == &dims
                && b.dims() == &dims
                && z0 == all[0]
                && a.iter().eq(all[1..1 + n].iter())
                && b.iter().eq(all[1 + n..1 + 2 * n].iter())
                && z == all[1 + 2 * n]
                && zz.0 == all[2 + 2 * n]
                && zz.1 == all[3 + 2 * n]
        }
        None => false,
    }
}

fn arr<const D: usize>(t: &[&str], at: &mut usize) -> [usize; D] {
    let mut a = [0usize; D];
    for x in a.iter_mut() {
        *x = p(t[*at]);
        *at += 1;
    }
    a
}

fn list(out: &mut Vec<String>, it: impl Iterator<Item = String>) {
    let v: Vec<String> = it.collect();
    out.push(v.len().to_string());
    out.extend(v);
}

/// the offsets at which a tensor of n elements is probed (all of them for small tensors)
fn probes(n: usize) -> Vec<usize> {
    if n <= 4096 {
        return (0..n).collect();
    }
    let mut v: Vec<usize> = (0..1024).collect();
    v.extend((0..1024).map(|k| 1024 + k * ((n - 2048) / 1024)));
    v.extend(n - 1024..n);
    v
}

/// multi-index of a storage offset (the harness' own mixed-radix digits; only used to enumerate indices)
fn unflatten<const D: usize>(dims: &[usize; D], mut k: usize) -> [usize; D] {
    let mut idx = [0usize; D];
    for i in (0..D).rev() {
        idx[i] = k % dims[i];
        k /= dims[i];
    }
    idx
}

/// everything that can be observed of a tensor, as text
fn fingerprint<E: Elem, const D: usize>(t: &Tensor<E, D>) -> Option<String> {
    guarded(|| {
        let mut s = format!("{:?}|", t.dims());
        let n = t.iter().count();
        for x in t.iter() {
            s.push_str(&x.to());
            s.push(';');
        }
        s.push('|');
        if t.dims().iter().all(|&d| d > 0) {
            for k in probes(n) {
                let idx = unflatten(t.dims(), k);
                s.push_str(&format!("{}:{};", t.get_index(idx), t[idx].to()));
            }
        }
        // (the texts of long tensors are compared by the caller of the executor, not here)
        if n <= 8192 {
            s.push('|');
            if E::WRITABLE {
                s.push_str(&String::from_utf8_lossy(&written(t)));
            }
            s.push('|');
            s.push_str(&format!("{:?}", t));
        }
        s
    })
}

/// `u` (obtained by clone / clone_from / read / any constructor) behaves like from_vec(u.dims(), u.iter())
fn like_rebuilt<E: Elem, const D: usize>(u: &Tensor<E, D>) -> bool {
    let r = guarded(|| Tensor::<E, D>::from_vec(*u.dims(), u.iter().cloned().collect()));
    match r {
        Some(r) => {
            let f = fingerprint(u);
            f.is_some() && f == fingerprint(&r) && *u == r && r == *u
        }
        None => false,
    }
}

/// clone() and clone_from() (into a tensor that had another shape) give a tensor with the same shape and the same
/// elements that compares equal in both directions, behaves like a freshly built tensor under every observer and
/// is independent of the original
fn copies_agree<E: Elem, const D: usize>(t: &Tensor<E, D>) -> bool {
    let c = t.clone();
    let mut other = *t.dims();
    other.reverse();
    if D > 0 {
        other[0] += 1;
    }
    let mut d = Tensor::<E, D>::new(other, E::small(0));
    d.clone_from(t);
    let before: Vec<E> = t.iter().cloned().collect();
    let n = before.len();
    let mut ok = like_rebuilt(t);
    for u in [c, d].iter_mut() {
        ok = ok && u.dims() == t.dims() && u.iter().eq(t.iter()) && *u == *t && *t == *u && !(*u != *t) && like_rebuilt(u);
        // independence: write to the copy (IndexMut at the last index, then iter_mut everywhere)
        if n > 0 && t.dims().iter().all(|&x| x > 0) {
            let last = unflatten(t.dims(), n - 1);
            let nv = if before[n - 1] == E::small(1) { E::small(2) } else { E::small(1) };
            ok = ok && guarded(|| u[last] = nv.clone()).is_some();
            ok = ok && u.iter().eq(before[..n - 1].iter().chain(std::iter::once(&nv)));
            ok = ok && t.iter().eq(before.iter()) && *u != *t;
            for x in u.iter_mut() {
                *x = E::small(3);
            }
            ok = ok && u.iter().all(|x| *x == E::small(3)) && u.iter().count() == n;
            ok = ok && t.iter().eq(before.iter());
        }
    }
    // ... and the consuming iterator yields the elements in storage order
    ok && t.clone().into_iter().eq(before.iter().cloned())
}

/// count / nth / last / size_hint of iter() agree with the collected elements
fn iter_agrees<E: Elem, const D: usize>(t: &Tensor<E, D>) -> bool {
    let v: Vec<&E> = t.iter().collect();
    let n = v.len();
    let (lo, hi) = t.iter().size_hint();
    let mut ok = t.iter().count() == n && lo <= n && hi.map_or(true, |h| n <= h);
    ok = ok && t.iter().last() == v.last().copied();
    for k in [0, n / 2, n.saturating_sub(1), n, n + 1] {
        ok = ok && t.iter().nth(k) == v.get(k).copied();
    }
    ok
}

fn run<E: Elem, const D: usize>(t: &[&str]) -> String {
    let mut at = 1;
    let dims: [usize; D] = arr(t, &mut at);
    let ctor = t[at];
    at += 1;
    let newv: &str = if ctor == "N" {
        at += 1;
        t[at - 1]
    } else {
        "0"
    };
    let n: usize = p(t[at]);
    at += 1;
    let data: Vec<E> = (0..n).map(|k| E::of(t[at + k])).collect();
    at += n;
    let made = guarded(|| match ctor {
        "V" => Tensor::<E, D>::from_vec(dims, data.clone()),
        "S" => Tensor::<E, D>::from_slice(dims, &data),
        "N" => Tensor::<E, D>::new(dims, E::of(newv)),
        other => {
            eprintln!("harness: unknown constructor {}", other);
            std::process::exit(3)
        }
    });
    let mut tensor = match made {
        Some(x) => x,
        None => return "P".to_string(),
    };
    let mut out = vec!["C".to_string()];
    while at < t.len() {
        let op = t[at];
        at += 1;
        match op {
            "gi" => {
                let idx: [usize; D] = arr(t, &mut at);
                match guarded(|| tensor.get_index(idx)) {
                    Some(k) => out.push(k.to_string()),
                    None => out.push("P".into()),
                }
            }
            "g" => {
                let idx: [usize; D] = arr(t, &mut at);
                match guarded(|| tensor[idx].to()) {
                    Some(x) => out.push(x),
                    None => out.push("P".into()),
                }
            }
            "s" => {
                let idx: [usize; D] = arr(t, &mut at);
                let v = E::of(t[at]);
                at += 1;
                match guarded(|| tensor[idx] = v) {
                    Some(()) => out.push("ok".into()),
                    None => out.push("P".into()),
                }
            }
            // iteration, also through clone() and through clone_from() into a tensor of another shape: a copy
            // that iterates differently, does not compare equal or fails one of the consistency checks above is printed
            // as the empty list (never the iteration of a constructed tensor: extents are positive)
            "it" => {
                if copies_agree(&tensor) && iter_agrees(&tensor) {
                    list(&mut out, tensor.iter().map(|x| x.to()))
                } else {
                    out.push("0".into())
                }
            }
            // dims() and dim(i) must tell the same story: a disagreement is printed as 0 (never a valid extent)
            "dm" => {
                let same = copies_agree(&tensor);
                out.extend(tensor.dims().iter().enumerate()
                    .map(|(i, d)| if same && tensor.dim(i) == *d { d.to_string() } else { "0".to_string() }))
            }
            "w" => match guarded(|| written(&tensor)) {
                Some(b) => out.push(if !shared_writer_ok(&tensor, &b) {
                    "BADW2".into()
                } else if !E::nested_ok(&tensor, &b) {
                    "BADW3".into()
                } else {
                    enc(&b)
                }),
                None => out.push("P".into()),
            },
            "rt" => {
                let r = guarded(|| {
                    let bytes = written(&tensor);
                    read_from::<E, D>(*tensor.dims(), bytes)
                });
                match r {
                    Some(t2) => {
                        let fine = t2 == tensor && tensor == t2 && !(t2 != tensor) && like_rebuilt(&t2)
                            && fingerprint(&t2) == fingerprint(&tensor);
                        out.push(if fine { "1" } else { "0" }.into());
                        list(&mut out, t2.iter().map(|x| x.to()));
                    }
                    None => out.push("P".into()),
                }
            }
            "rd" => {
                let rdims: [usize; D] = arr(t, &mut at);
                let bytes = dec(t[at]);
                at += 1;
                match guarded(|| read_from::<E, D>(rdims, bytes.clone())) {
                    Some(t2) => {
                        out.extend(t2.dims().iter().map(|d| d.to_string()));
                        let n2 = t2.iter().count();
                        // (a read that already disagrees with std's parsing of the text is printed as it is: the model
                        // rejects it, and the replay shows what was read)
                        let plain = lex_all::<E>(&bytes).map_or(true, |v| v.len() >= n2 && t2.iter().eq(v[..n2].iter()));
                        if !plain || (like_rebuilt(&t2) && shared_reader_ok::<E, D>(rdims, &bytes, n2)) {
                            list(&mut out, t2.iter().map(|x| x.to()));
                        } else {
                            out.push("0".into())
                        }
                    }
                    None => out.push("P".into()),
                }
            }
            "eq" => {
                let edims: [usize; D] = arr(t, &mut at);
                let m: usize = p(t[at]);
                at += 1;
                let y: Vec<E> = (0..m).map(|k| E::of(t[at + k])).collect();
                at += m;
                match guarded(|| Tensor::<E, D>::from_vec(edims, y)) {
                    Some(u) => {
                        let a = tensor == u;
                        let b = u == tensor;
                        let na = tensor != u;
                        let nb = u != tensor;
                        // both directions are printed: 0/1, or X if == is not symmetric or != is not its negation
                        out.push(if a != b || na == a || nb == b { "X" } else if a { "1" } else { "0" }.into());
                    }
                    None => out.push("P".into()),
                }
            }
            "db" => match guarded(|| format!("{:?}", tensor)) {
                Some(s) => out.push(enc(s.replace([' ', '"'], "").as_bytes())),
                None => out.push("P".into()),
            },
            "im" => {
                let m: usize = p(t[at]);
                at += 1;
                let vs: Vec<E> = (0..m).map(|k| E::of(t[at + k])).collect();
                at += m;
                let cnt = tensor.iter_mut().count();
                for (x, v) in tensor.iter_mut().zip(vs) {
                    *x = v;
                }
                out.push(cnt.to_string());
            }
            other => {
                eprintln!("harness: unknown op {}", other);
                std::process::exit(3)
            }
        }
    }
    out.join(" ")
}

fn by_rank<E: Elem>(rank: &str, t: &[&str]) -> String {
    match rank {
        "4" => run::<E, 4>(t),
        "5" => run::<E, 5>(t),
        "6" => run::<E, 6>(t),
        "8" => run::<E, 8>(t),
        _ => low_rank::<E>(rank, t),
    }
}

/// the element types added for the io round trip: the shape logic is rank-generic and already run at ranks 0..6, 8
fn low_rank<E: Elem>(rank: &str, t: &[&str]) -> String {
    match rank {
        "0" => run::<E, 0>(t),
        "1" => run::<E, 1>(t),
        "2" => run::<E, 2>(t),
        "3" => run::<E, 3>(t),
        other => {
            eprintln!("harness: unsupported rank {}", other);
            std::process::exit(3)
        }
    }
}

// ------------------------------------------------------------------------------------------------------------------
// Element types outside rlib_io ("lite": Clone + PartialEq + Debug only): the zero-sized `()` and `Zst` (the only
// element types for which a data vector / slice of ANY length up to usize::MAX exists) and two types whose PartialEq
// is not reflexive (f64 holding NaN, `Tri` whose `Unknown` is never equal to anything).
//   data of a zero-sized type may be given as `*L` (L elements, built without a loop);
//   ops: gi g s it dm eq im as above, and
//   sq m y*m -> P | 0|1|X : y is what the generator expects the tensor to hold now; the tensor is compared (== and !=)
//        with from_vec(dims, y) in both directions, with ITSELF through two references to the same object, with its
//        clone in both directions, with from_vec(dims, iter().cloned()) in both directions and element by element under
//        the element's own PartialEq; X unless all of these give the same answer (and != its negation everywhere).
trait Lite: Clone + PartialEq + std::fmt::Debug + 'static {
    fn of(s: &str) -> Self;
    fn to(&self) -> String;
}

impl Lite for () {
    fn of(_: &str) -> Self {}
    fn to(&self) -> String {
        "0".into()
    }
}

#[derive(Clone, Copy, PartialEq, Debug)]
struct Zst;

impl Lite for Zst {
    fn of(_: &str) -> Self {
        Zst
    }
    fn to(&self) -> String {
        "0".into()
    }
}

impl Lite for f64 {
    fn of(s: &str) -> Self {
        match s {
            "nan" => f64::NAN,
            "-0" => -0.0,
            _ => p::<i64>(s) as f64,
        }
    }
    fn to(&self) -> String {
        if self.is_nan() {
            "nan".into()
        } else {
            (*self as i64).to_string()
        }
    }
}

/// three-valued logic: `Unknown` is not equal to anything, itself included
#[derive(Clone, Copy, Debug)]
enum Tri {
    No,
    Yes,
    Unknown,
}

impl PartialEq for Tri {
    fn eq(&self, other: &Self) -> bool {
        matches!((self, other), (Tri::No, Tri::No) | (Tri::Yes, Tri::Yes))
    }
}

impl Lite for Tri {
    fn of(s: &str) -> Self {
        match s {
            "0" => Tri::No,
            "1" => Tri::Yes,
            _ => Tri::Unknown,
        }
    }
    fn to(&self) -> String {
        match self {
            Tri::No => "0".into(),
            Tri::Yes => "1".into(),
            Tri::Unknown => "nan".into(),
        }
    }
}

/// (a == b, a != b) for two references that may point to the same object
fn cmp2<T: PartialEq>(a: &T, b: &T) -> (bool, bool) {
    (a == b, a != b)
}

fn run_lite<E: Lite, const D: usize>(t: &[&str]) -> String {
    let mut at = 1;
    let dims: [usize; D] = arr(t, &mut at);
    let ctor = t[at];
    at += 1;
    let newv: &str = if ctor == "N" {
        at += 1;
        t[at - 1]
    } else {
        "0"
    };
    let data: Vec<E> = if let Some(len) = t[at].strip_prefix('*') {
        at += 1;
        assert!(std::mem::size_of::<E>() == 0 && !std::mem::needs_drop::<E>(), "harness: *L needs a zero-sized type");
        let mut v: Vec<E> = Vec::new();
        // a Vec of a zero-sized type has capacity usize::MAX and never touches memory
        unsafe { v.set_len(p(len)) };
        v
    } else {
        let n: usize = p(t[at]);
        at += 1;
        let v = (0..n).map(|k| E::of(t[at + k])).collect();
        at += n;
        v
    };
    let made = guarded(|| match ctor {
        "V" => Tensor::<E, D>::from_vec(dims, data.clone()),
        "S" => Tensor::<E, D>::from_slice(dims, &data[..]),
        "N" => Tensor::<E, D>::new(dims, E::of(newv)),
        other => {
            eprintln!("harness: unknown constructor {}", other);
            std::process::exit(3)
        }
    });
    let mut tensor = match made {
        Some(x) => x,
        None => return "P".to_string(),
    };
    let mut out = vec!["C".to_string()];
    while at < t.len() {
        let op = t[at];
        at += 1;
        match op {
            "gi" => {
                let idx: [usize; D] = arr(t, &mut at);
                match guarded(|| tensor.get_index(idx)) {
                    Some(k) => out.push(k.to_string()),
                    None => out.push("P".into()),
                }
            }
            "g" => {
                let idx: [usize; D] = arr(t, &mut at);
                match guarded(|| tensor[idx].to()) {
                    Some(x) => out.push(x),
                    None => out.push("P".into()),
                }
            }
            "s" => {
                let idx: [usize; D] = arr(t, &mut at);
                let v = E::of(t[at]);
                at += 1;
                match guarded(|| tensor[idx] = v) {
                    Some(()) => out.push("ok".into()),
                    None => out.push("P".into()),
                }
            }
            "it" => {
                let v: Vec<String> = tensor.iter().map(|x| x.to()).collect();
                let c = tensor.clone();
                let same = c.dims() == tensor.dims()
                    && c.iter().map(|x| x.to()).eq(v.iter().cloned())
                    && c.into_iter().map(|x| x.to()).eq(v.iter().cloned())
                    && tensor.iter().count() == v.len();
                if same {
                    list(&mut out, v.into_iter())
                } else {
                    out.push("0".into())
                }
            }
            "dm" => out.extend(tensor.dims().iter().enumerate()
                .map(|(i, d)| if tensor.dim(i) == *d { d.to_string() } else { "0".to_string() })),
            "eq" | "sq" => {
                let edims: [usize; D] = if op == "eq" { arr(t, &mut at) } else { *tensor.dims() };
                let m: usize = p(t[at]);
                at += 1;
                let y: Vec<E> = (0..m).map(|k| E::of(t[at + k])).collect();
                at += m;
                let expected_content = tensor.iter().map(|x| x.to()).eq(y.iter().map(|x| x.to()));
                match guarded(|| Tensor::<E, D>::from_vec(edims, y)) {
                    Some(u) => {
                        let mut pairs = vec![cmp2(&tensor, &u), cmp2(&u, &tensor)];
                        let mut fine = true;
                        if op == "sq" {
                            let c = tensor.clone();
                            let layers = [&tensor, &tensor];
                            pairs.extend([cmp2(&tensor, &tensor), cmp2(layers[0], layers[1]), cmp2(&c, &c), cmp2(&u, &u),
                                          cmp2(&tensor, &c), cmp2(&c, &tensor)]);
                            match guarded(|| Tensor::<E, D>::from_vec(*tensor.dims(), tensor.iter().cloned().collect())) {
                                Some(r) => pairs.extend([cmp2(&tensor, &r), cmp2(&r, &tensor)]),
                                None => fine = false,
                            }
                            // the comparison the property speaks about: same shape, and the elements agree one by one
                            let ew = tensor.iter().zip(tensor.iter()).all(|(a, b)| a == b);
                            pairs.push((ew, !ew));
                            fine = fine && expected_content;
                        }
                        let v = pairs[0].0;
                        fine = fine && pairs.iter().all(|&(e, n)| e == v && n != v);
                        out.push(if !fine { "X" } else if v { "1" } else { "0" }.into());
                    }
                    None => out.push("P".into()),
                }
            }
            "im" => {
                let m: usize = p(t[at]);
                at += 1;
                let vs: Vec<E> = (0..m).map(|k| E::of(t[at + k])).collect();
                at += m;
                let cnt = tensor.iter_mut().count();
                for (x, v) in tensor.iter_mut().zip(vs) {
                    *x = v;
                }
                out.push(cnt.to_string());
            }
            other => {
                eprintln!("harness: unknown op {} for this element type", other);
                std::process::exit(3)
            }
        }
    }
    out.join(" ")
}

fn lite_rank<E: Lite>(rank: &str, t: &[&str]) -> String {
    match rank {
        "0" => run_lite::<E, 0>(t),
        "1" => run_lite::<E, 1>(t),
        "2" => run_lite::<E, 2>(t),
        "3" => run_lite::<E, 3>(t),
        "4" => run_lite::<E, 4>(t),
        other => {
            eprintln!("harness: unsupported rank {}", other);
            std::process::exit(3)
        }
    }
}

fn main() {
    vh::serve(|t| {
        let (rank, ty) = t[0].split_once(':').unwrap_or((t[0], "i64"));
        match ty {
            "i64" => by_rank::<i64>(rank, t),
            "i32" => by_rank::<i32>(rank, t),
            "u8" => by_rank::<u8>(rank, t),
            "str" => by_rank::<String>(rank, t),
            "i8" => low_rank::<i8>(rank, t),
            "i16" => low_rank::<i16>(rank, t),
            "u16" => low_rank::<u16>(rank, t),
            "u32" => low_rank::<u32>(rank, t),
            "u64" => low_rank::<u64>(rank, t),
            "i128" => low_rank::<i128>(rank, t),
            "u128" => low_rank::<u128>(rank, t),
            "isize" => low_rank::<isize>(rank, t),
            "usize" => low_rank::<usize>(rank, t),
            "char" => low_rank::<char>(rank, t),
            "t2" => low_rank::<(i64, u8)>(rank, t),
            "t3" => low_rank::<(u8, i64, u16)>(rank, t),
            "tc" => low_rank::<(char, u32)>(rank, t),
            "unit" => lite_rank::<()>(rank, t),
            "zst" => lite_rank::<Zst>(rank, t),
            "f64" => lite_rank::<f64>(rank, t),
            "tri" => lite_rank::<Tri>(rank, t),
            other => {
                eprintln!("harness: unsupported element type {}", other);
                std::process::exit(3)
            }
        }
    });
}
