//! C19 executor: Tensor<i64, D> for D in 0..=4.
//!
//! input line :  D d_0..d_{D-1}  ctor  n x_0..x_{n-1}  op*
//!   ctor = V (from_vec) | S (from_slice) | N v (new; the data list is still parsed, and ignored)
//!   op   = gi i*D | g i*D | s i*D v | it | dm | w | rt | db | rd r*D text | eq e*D m y*m
//!   text = written bytes with ' ' -> '_' and '\n' -> '/' ("." = empty)
//! output line:  C|P  then one observation per op (nothing after a constructor panic):
//!   gi -> offset|P   g -> value|P   s -> ok|P   it -> n x*n   dm -> d*D   w -> text|P
//!   rt -> P | eqflag n x*n   (write, read back with the same dims, compare with ==, iterate)
//!   rd -> P | d*D n x*n      (Tensor::read from the given text)
//!   eq -> P | 0|1            (P: the second tensor cannot be constructed)
//!   db -> Debug string with ' ' removed | P
use rlib_io::{Reader, Writer};
use rlib_tensor::Tensor;
use vh::{guarded, p};

fn enc(bytes: &[u8]) -> String {
    if bytes.is_empty() {
        return ".".to_string();
    }
    bytes
        .iter()
        .map(|&b| match b {
            b' ' => '_',
            b'\n' => '/',
            b if b.is_ascii_graphic() && b != b'_' && b != b'/' && b != b'.' => b as char,
            _ => '?',
        })
        .collect()
}

fn dec(s: &str) -> Vec<u8> {
    if s == "." {
        return vec![];
    }
    s.bytes()
        .map(|b| match b {
            b'_' => b' ',
            b'/' => b'\n',
            b => b,
        })
        .collect()
}

fn written<const D: usize>(t: &Tensor<i64, D>) -> Vec<u8> {
    let mut v = Vec::new();
    {
        let mut w = Writer::new(Box::new(&mut v));
        w.write(t);
    }
    v
}

fn read_from<const D: usize>(dims: [usize; D], bytes: Vec<u8>) -> Tensor<i64, D> {
    let mut r = Reader::new(Box::new(std::io::Cursor::new(bytes)));
    Tensor::<i64, D>::read(dims, &mut r)
}

fn arr<const D: usize>(t: &[&str], at: &mut usize) -> [usize; D] {
    let mut a = [0usize; D];
    for x in a.iter_mut() {
        *x = p(t[*at]);
        *at += 1;
    }
    a
}

fn list(out: &mut Vec<String>, it: impl Iterator<Item = i64>) {
    let v: Vec<i64> = it.collect();
    out.push(v.len().to_string());
    out.extend(v.iter().map(|x| x.to_string()));
}

/// clone() and clone_from() (into a tensor that had another shape) give a tensor with the same shape and the same
/// elements that compares equal in both directions
fn copies_agree<const D: usize>(t: &Tensor<i64, D>) -> bool {
    let c = t.clone();
    let mut other = *t.dims();
    other.reverse();
    if D > 0 {
        other[0] += 1;
    }
    let mut d = Tensor::<i64, D>::new(other, 0);
    d.clone_from(t);
    let same = [c, d].iter().all(|u| u.dims() == t.dims() && u.iter().eq(t.iter()) && u == t && t == u);
    // ... and the consuming iterator yields the elements in storage order
    same && t.clone().into_iter().eq(t.iter().copied())
}

fn run<const D: usize>(t: &[&str]) -> String {
    let mut at = 1;
    let dims: [usize; D] = arr(t, &mut at);
    let ctor = t[at];
    at += 1;
    let newv: i64 = if ctor == "N" {
        at += 1;
        p(t[at - 1])
    } else {
        0
    };
    let n: usize = p(t[at]);
    at += 1;
    let data: Vec<i64> = (0..n).map(|k| p(t[at + k])).collect();
    at += n;
    let made = guarded(|| match ctor {
        "V" => Tensor::<i64, D>::from_vec(dims, data.clone()),
        "S" => Tensor::<i64, D>::from_slice(dims, &data),
        "N" => Tensor::<i64, D>::new(dims, newv),
        other => {
            eprintln!("harness: unknown constructor {}", other);
            std::process::exit(3)
        }
    });
    let mut tensor = match made {
        Some(x) => x,
        None => return "P".to_string(),
    };
    let mut out = vec!["C".to_string()];
    while at < t.len() {
        let op = t[at];
        at += 1;
        match op {
            "gi" => {
                let idx: [usize; D] = arr(t, &mut at);
                match guarded(|| tensor.get_index(idx)) {
                    Some(k) => out.push(k.to_string()),
                    None => out.push("P".into()),
                }
            }
            "g" => {
                let idx: [usize; D] = arr(t, &mut at);
                match guarded(|| tensor[idx]) {
                    Some(x) => out.push(x.to_string()),
                    None => out.push("P".into()),
                }
            }
            "s" => {
                let idx: [usize; D] = arr(t, &mut at);
                let v: i64 = p(t[at]);
                at += 1;
                match guarded(|| tensor[idx] = v) {
                    Some(()) => out.push("ok".into()),
                    None => out.push("P".into()),
                }
            }
            // iteration, also through clone() and through clone_from() into a tensor of another shape: a copy
            // that iterates differently or does not compare equal is printed as the empty list (never the iteration of a
            // constructed tensor: extents are positive)
            "it" => {
                if copies_agree(&tensor) {
                    list(&mut out, tensor.iter().copied())
                } else {
                    out.push("0".into())
                }
            }
            // dims() and dim(i) must tell the same story: a disagreement is printed as 0 (never a valid extent)
            "dm" => {
                let same = copies_agree(&tensor);
                out.extend(tensor.dims().iter().enumerate()
                    .map(|(i, d)| if same && tensor.dim(i) == *d { d.to_string() } else { "0".to_string() }))
            }
            "w" => match guarded(|| written(&tensor)) {
                Some(b) => out.push(enc(&b)),
                None => out.push("P".into()),
            },
            "rt" => {
                let r = guarded(|| {
                    let bytes = written(&tensor);
                    read_from(*tensor.dims(), bytes)
                });
                match r {
                    Some(t2) => {
                        out.push(if t2 == tensor { "1" } else { "0" }.into());
                        list(&mut out, t2.iter().copied());
                    }
                    None => out.push("P".into()),
                }
            }
            "rd" => {
                let rdims: [usize; D] = arr(t, &mut at);
                let bytes = dec(t[at]);
                at += 1;
                match guarded(|| read_from(rdims, bytes)) {
                    Some(t2) => {
                        out.extend(t2.dims().iter().map(|d| d.to_string()));
                        list(&mut out, t2.iter().copied());
                    }
                    None => out.push("P".into()),
                }
            }
            "eq" => {
                let edims: [usize; D] = arr(t, &mut at);
                let m: usize = p(t[at]);
                at += 1;
                let y: Vec<i64> = (0..m).map(|k| p(t[at + k])).collect();
                at += m;
                match guarded(|| Tensor::<i64, D>::from_vec(edims, y)) {
                    Some(u) => {
                        let a = tensor == u;
                        let b = u == tensor;
                        // both directions are printed: 0/1, or X if == is not symmetric
                        out.push(if a != b { "X" } else if a { "1" } else { "0" }.into());
                    }
                    None => out.push("P".into()),
                }
            }
            "db" => match guarded(|| format!("{:?}", tensor)) {
                Some(s) => out.push(enc(s.replace(' ', "").as_bytes())),
                None => out.push("P".into()),
            },
            other => {
                eprintln!("harness: unknown op {}", other);
                std::process::exit(3)
            }
        }
    }
    out.join(" ")
}

fn main() {
    vh::serve(|t| match t[0] {
        "0" => run::<0>(t),
        "1" => run::<1>(t),
        "2" => run::<2>(t),
        "3" => run::<3>(t),
        "4" => run::<4>(t),
        other => {
            eprintln!("harness: unsupported rank {}", other);
            std::process::exit(3)
        }
    });
}
