//! C07 executor: `<ty> <op> <form> a b c d` with x = Rational::new(a, b), y = Rational::new(c, d).
//! ops: new newint add sub mul div neg cmp eqhash floor ceil show
//! forms (binary arithmetic ops only): val (x op y), ref (x op &y), asgval (x op= y), asgref (x op= &y)
//! prints `R a b` (fields of the result), `C <cmp> <partial_cmp>`, `E <x==y> <hash(x)==hash(y)>`,
//! `S <Display text>`, or `P` when the call panics.
use rlib_rational::Rational;
use std::cmp::Ordering;
use std::collections::hash_map::DefaultHasher;
use std::hash::{Hash, Hasher};
use vh::p;

fn h<T: Hash>(x: &T) -> u64 {
    // DefaultHasher::new() is SipHash with fixed zero keys: deterministic across runs
    let mut s = DefaultHasher::new();
    x.hash(&mut s);
    s.finish()
}

fn ord(o: Ordering) -> &'static str {
    match o {
        Ordering::Less => "lt",
        Ordering::Equal => "eq",
        Ordering::Greater => "gt",
    }
}

macro_rules! binop {
    ($form:expr, $x:expr, $y:expr, $op:tt, $opa:tt) => {{
        let x = $x;
        let y = $y;
        match $form {
            "val" => x $op y,
            "ref" => x $op &y,
            "asgval" => {
                let mut z = x;
                z $opa y;
                z
            }
            "asgref" => {
                let mut z = x;
                z $opa &y;
                z
            }
            other => {
                eprintln!("harness: unknown form {}", other);
                std::process::exit(3)
            }
        }
    }};
}

macro_rules! run {
    ($t:ty, $toks:expr) => {{
        let t = $toks;
        let (op, form) = (t[1], t[2]);
        let (a, b, c, d): ($t, $t, $t, $t) = (p(t[3]), p(t[4]), p(t[5]), p(t[6]));
        let rat = |r: Rational<$t>| format!("R {} {}", r.a, r.b);
        match op {
            "new" => rat(Rational::<$t>::new(a, b)),
            "newint" => rat(Rational::<$t>::new_int(a)),
            "add" => rat(binop!(form, Rational::<$t>::new(a, b), Rational::<$t>::new(c, d), +, +=)),
            "sub" => rat(binop!(form, Rational::<$t>::new(a, b), Rational::<$t>::new(c, d), -, -=)),
            "mul" => rat(binop!(form, Rational::<$t>::new(a, b), Rational::<$t>::new(c, d), *, *=)),
            "div" => rat(binop!(form, Rational::<$t>::new(a, b), Rational::<$t>::new(c, d), /, /=)),
            "neg" => rat(-Rational::<$t>::new(a, b)),
            "cmp" => {
                let (x, y) = (Rational::<$t>::new(a, b), Rational::<$t>::new(c, d));
                let pc = x.partial_cmp(&y).expect("partial_cmp returned None");
                // the relational operators and max/min (provided methods that an impl may override) must tell the
                // same story as cmp; if they do not, the second field shows the reverse of cmp, which no
                // specification accepts together with the first
                let o = x.cmp(&y);
                let consistent = (x < y) == (o == Ordering::Less)
                    && (x <= y) == (o != Ordering::Greater)
                    && (x > y) == (o == Ordering::Greater)
                    && (x >= y) == (o != Ordering::Less)
                    && (x != y) == (o != Ordering::Equal)
                    && std::cmp::max(x, y) == (if o == Ordering::Greater { x } else { y })
                    && std::cmp::min(x, y) == (if o == Ordering::Greater { y } else { x })
                    && y.cmp(&x) == o.reverse();
                format!("C {} {}", ord(o), ord(if consistent { pc } else if o == Ordering::Equal { Ordering::Less } else { o.reverse() }))
            }
            "eqhash" => {
                let (x, y) = (Rational::<$t>::new(a, b), Rational::<$t>::new(c, d));
                format!("E {} {}", (x == y) as u8, (h(&x) == h(&y)) as u8)
            }
            "floor" => rat(Rational::<$t>::new(a, b).floor()),
            "ceil" => rat(Rational::<$t>::new(a, b).ceil()),
            "show" => format!("S {}", Rational::<$t>::new(a, b)),
            other => {
                eprintln!("harness: unknown op {}", other);
                std::process::exit(3)
            }
        }
    }};
}

fn main() {
    vh::serve(|t| match t[0] {
        "i32" => run!(i32, t),
        "i64" => run!(i64, t),
        "i128" => run!(i128, t),
        "i8" => run!(i8, t),
        "i16" => run!(i16, t),
        "isize" => run!(isize, t),
        other => {
            eprintln!("harness: unknown type {}", other);
            std::process::exit(3)
        }
    });
}
