//! C07 executor: `<ty> <op> <form> a b c d [x=<kind>] [y=<kind>] [pre=<history>]`
//! ops: new newint add sub mul div neg cmp eqhash floor ceil show
//! forms (binary arithmetic ops only): val (x op y), ref (x op &y), asgval (x op= y), asgref (x op= &y),
//!   all (the four forms are run one after the other and must return the same fields / all panic)
//! operand kinds (how the operand with the VALUE a/b resp. c/d is built):
//!   n  Rational::new(a, b)                     (default)
//!   l  struct literal Rational { a, b }        (public fields; b > 0, not necessarily in lowest terms)
//!   i  Rational::new_int(a)                    (b must be 1)
//!   z  <Rational<T> as ZeroOne>::ZERO          (a b must be 0 1)
//!   o  <Rational<T> as ZeroOne>::ONE           (a b must be 1 1)
//! pre=a0,b0;op,form,c,d;...  x is the result of a history: Rational::new(a0, b0) folded through the listed
//!   operations (add sub mul div with a fresh Rational::new(c, d); neg floor ceil); the generator computed the
//!   exact value and passes its canonical fields as a b: anything else is reported as `X pre ...`.
//! prints `R a b` (fields of the result), `C <cmp> <partial_cmp>`, `E <x==y> <hash(x)==hash(y)>`,
//! `S <Display text>`, `P` when the call panics, or `X <what>` when one of the executor's own consistency
//! checks fails (a result that is not ==, not hashed like, or not ordered Equal to Rational::new of its own
//! fields; a clone that differs; operator forms that disagree; a history that went somewhere else).
use rlib_num_traits::ZeroOne;
use rlib_rational::Rational;
use std::cmp::Ordering;
use std::collections::hash_map::DefaultHasher;
use std::hash::{Hash, Hasher};
use vh::p;

fn h<T: Hash>(x: &T) -> u64 {
    // DefaultHasher::new() is SipHash with fixed zero keys: deterministic across runs
    let mut s = DefaultHasher::new();
    x.hash(&mut s);
    s.finish()
}

fn ord(o: Ordering) -> &'static str {
    match o {
        Ordering::Less => "lt",
        Ordering::Equal => "eq",
        Ordering::Greater => "gt",
    }
}

fn die(msg: String) -> ! {
    eprintln!("harness: {}", msg);
    std::process::exit(3)
}

macro_rules! one_form {
    ($form:expr, $x:expr, $y:expr, $op:tt, $opa:tt) => {{
        let x = $x;
        let y = $y;
        match $form {
            "val" => x $op y,
            "ref" => x $op &y,
            "asgval" => {
                let mut z = x;
                z $opa y;
                z
            }
            "asgref" => {
                let mut z = x;
                z $opa &y;
                z
            }
            other => die(format!("unknown form {}", other)),
        }
    }};
}

/// Ok(result) / Err(X-line).  A panic propagates (form `all`: only when every form panics).
macro_rules! binop {
    ($form:expr, $x:expr, $y:expr, $op:tt, $opa:tt) => {{
        let x = $x;
        let y = $y;
        if $form == "all" {
            let rs: Vec<Option<_>> = ["val", "ref", "asgval", "asgref"]
                .iter()
                .map(|f| vh::guarded(|| one_form!(*f, x, y, $op, $opa)))
                .collect();
            let show = |r: &Option<_>| match r {
                Some(z) => fields(z),
                None => "P".to_string(),
            };
            if rs.iter().all(|r| show(r) == show(&rs[0])) {
                match rs[0] {
                    Some(z) => Ok(z),
                    None => panic!("all four forms panic"),
                }
            } else {
                Err(format!(
                    "X forms-differ val={} ref={} asgval={} asgref={}",
                    show(&rs[0]).replace(' ', "/"),
                    show(&rs[1]).replace(' ', "/"),
                    show(&rs[2]).replace(' ', "/"),
                    show(&rs[3]).replace(' ', "/")
                ))
            }
        } else {
            Ok(one_form!($form, x, y, $op, $opa))
        }
    }};
}

macro_rules! run {
    ($t:ty, $toks:expr) => {{
        type R = Rational<$t>;
        fn fields(r: &R) -> String {
            format!("{} {}", r.a, r.b)
        }
        /// 2 * max(|a|, |b|)^2 fits in T: every intermediate of a binary operator / cmp on operands of this size fits
        fn fits_binary(r: &R) -> bool {
            if r.a == <$t>::MIN || r.b == <$t>::MIN {
                return false;
            }
            let m = std::cmp::max(r.a.abs(), r.b.abs());
            m.checked_mul(m).and_then(|v| v.checked_mul(2)).is_some()
        }
        /// a value z whose fields are what Rational::new makes of them must be indistinguishable from that fresh
        /// value: ==, Hash, clone, clone_from, and (where the subtraction inside cmp fits) the whole order interface
        fn route(z: &R) -> Option<String> {
            if z.b == 0 || z.a == <$t>::MIN || z.b == <$t>::MIN {
                return None;
            }
            let w = R::new(z.a, z.b);
            if w.a != z.a || w.b != z.b {
                return None; // not canonical: that is for the specification to judge from the printed fields
            }
            let z = *z;
            if !(z == w) || !(w == z) || z != w || w != z {
                return Some(format!("route-eq {}/{} is not == Rational::new of its fields", z.a, z.b));
            }
            if h(&z) != h(&w) {
                return Some(format!("route-hash {}/{} hashes unlike Rational::new of its fields", z.a, z.b));
            }
            #[allow(clippy::clone_on_copy)]
            let c = z.clone();
            if c != z || c.a != z.a || c.b != z.b || h(&c) != h(&z) {
                return Some(format!("route-clone {}/{}", z.a, z.b));
            }
            let mut c2 = R::new(1, 1);
            c2.clone_from(&z);
            if c2 != z || c2.a != z.a || c2.b != z.b || h(&c2) != h(&w) {
                return Some(format!("route-clone_from {}/{}", z.a, z.b));
            }
            if fits_binary(&z) {
                let ok = z.cmp(&w) == Ordering::Equal
                    && w.cmp(&z) == Ordering::Equal
                    && z.partial_cmp(&w) == Some(Ordering::Equal)
                    && !(z < w)
                    && !(z > w)
                    && z <= w
                    && z >= w
                    && std::cmp::max(z, w) == w
                    && std::cmp::min(w, z) == w;
                if !ok {
                    return Some(format!("route-cmp {}/{} is not ordered Equal to Rational::new of its fields", z.a, z.b));
                }
            }
            None
        }
        fn rat(r: R) -> String {
            match route(&r) {
                Some(m) => format!("X {}", m),
                None => format!("R {}", fields(&r)),
            }
        }
        fn rres(r: Result<R, String>) -> String {
            match r {
                Ok(z) => rat(z),
                Err(m) => m,
            }
        }
        fn mk(kind: &str, a: $t, b: $t) -> R {
            match kind {
                "n" => R::new(a, b),
                // struct update syntax: still builds if the struct grows further public fields (they come from a
                // Rational::new value); a and b are exactly the given ones
                #[allow(clippy::needless_update)]
                "l" => R { a, b, ..R::new(1, 1) },
                "i" => {
                    if b != 1 {
                        die(format!("kind i needs b = 1, got {}", b))
                    }
                    R::new_int(a)
                }
                "z" => {
                    if a != 0 || b != 1 {
                        die(format!("kind z needs 0 1, got {} {}", a, b))
                    }
                    <R as ZeroOne>::ZERO
                }
                "o" => {
                    if a != 1 || b != 1 {
                        die(format!("kind o needs 1 1, got {} {}", a, b))
                    }
                    <R as ZeroOne>::ONE
                }
                other => die(format!("unknown operand kind {}", other)),
            }
        }
        /// Ok(x) after the history, Err(X-line) when a step's result fails its route check
        fn history(spec: &str) -> Result<R, String> {
            let mut parts = spec.split(';');
            let first: Vec<&str> = parts.next().unwrap().split(',').collect();
            if first.len() != 2 {
                die(format!("bad history start {:?}", first))
            }
            let mut x = R::new(p(first[0]), p(first[1]));
            for (i, st) in parts.enumerate() {
                let s: Vec<&str> = st.split(',').collect();
                if s.len() != 4 {
                    die(format!("bad history step {:?}", s))
                }
                let (c, d): ($t, $t) = (p(s[2]), p(s[3]));
                let r: Result<R, String> = match s[0] {
                    "add" => binop!(s[1], x, R::new(c, d), +, +=),
                    "sub" => binop!(s[1], x, R::new(c, d), -, -=),
                    "mul" => binop!(s[1], x, R::new(c, d), *, *=),
                    "div" => binop!(s[1], x, R::new(c, d), /, /=),
                    "neg" => Ok(-x),
                    "floor" => Ok(x.floor()),
                    "ceil" => Ok(x.ceil()),
                    other => die(format!("unknown history op {}", other)),
                };
                x = match r {
                    Ok(z) => z,
                    Err(m) => return Err(format!("{} in-history-step-{}", m, i)),
                };
                if let Some(m) = route(&x) {
                    return Err(format!("X {} in-history-step-{}", m, i));
                }
            }
            Ok(x)
        }

        let t = $toks;
        if t.len() < 7 {
            die(format!("short line {:?}", t))
        }
        let (op, form) = (t[1], t[2]);
        let (a, b, c, d): ($t, $t, $t, $t) = (p(t[3]), p(t[4]), p(t[5]), p(t[6]));
        let (mut xk, mut yk, mut pre) = ("n", "n", None);
        for tok in &t[7..] {
            if let Some(v) = tok.strip_prefix("x=") {
                xk = v;
            } else if let Some(v) = tok.strip_prefix("y=") {
                yk = v;
            } else if let Some(v) = tok.strip_prefix("pre=") {
                pre = Some(v);
            } else {
                die(format!("unknown token {}", tok))
            }
        }
        let lit = xk == "l" || yk == "l";
        // a broken history is not a panic of the operation under test: it is reported, never printed as `P`
        let hist: Option<Result<R, String>> = pre.map(|spec| match vh::guarded(|| history(spec)) {
            None => Err("X pre the history panicked".to_string()),
            Some(Err(m)) => Err(m),
            Some(Ok(x)) => {
                if x.a != a || x.b != b {
                    Err(format!("X pre history ended in {}/{} instead of {}/{}", x.a, x.b, a, b))
                } else {
                    Ok(x)
                }
            }
        });
        if let Some(Err(m)) = &hist {
            return m.clone();
        }
        let getx = || match &hist {
            Some(Ok(x)) => *x,
            _ => mk(xk, a, b),
        };
        let gety = || mk(yk, c, d);
        match op {
            "new" => rat(getx()),
            "newint" => rat(R::new_int(a)),
            "add" => rres(binop!(form, getx(), gety(), +, +=)),
            "sub" => rres(binop!(form, getx(), gety(), -, -=)),
            "mul" => rres(binop!(form, getx(), gety(), *, *=)),
            "div" => rres(binop!(form, getx(), gety(), /, /=)),
            "neg" => rat(-getx()),
            "cmp" => {
                let (x, y) = (getx(), gety());
                let pc = x.partial_cmp(&y).expect("partial_cmp returned None");
                // the relational operators and max/min/clamp (provided methods that an impl may override) must tell
                // the same story as cmp; if they do not, the second field shows the reverse of cmp, which no
                // specification accepts together with the first
                let o = x.cmp(&y);
                let (lo, hi) = if o == Ordering::Greater { (y, x) } else { (x, y) };
                let consistent = (x < y) == (o == Ordering::Less)
                    && (x <= y) == (o != Ordering::Greater)
                    && (x > y) == (o == Ordering::Greater)
                    && (x >= y) == (o != Ordering::Less)
                    // == is structural: a literal operand that is not in lowest terms is != its reduced form
                    && (lit || (x != y) == (o != Ordering::Equal))
                    && std::cmp::max(x, y) == (if o == Ordering::Greater { x } else { y })
                    && std::cmp::min(x, y) == (if o == Ordering::Greater { y } else { x })
                    && x.max(y) == hi
                    && x.min(y) == lo
                    && x.clamp(lo, hi) == x
                    && y.clamp(lo, hi) == y
                    && y.cmp(&x) == o.reverse()
                    && y.partial_cmp(&x) == Some(o.reverse());
                format!("C {} {}", ord(o), ord(if consistent { pc } else if o == Ordering::Equal { Ordering::Less } else { o.reverse() }))
            }
            "eqhash" => {
                let (x, y) = (getx(), gety());
                if (x == y) != (y == x) || (x != y) == (x == y) {
                    return "X eq is not symmetric / != is not its negation".to_string();
                }
                format!("E {} {}", (x == y) as u8, (h(&x) == h(&y)) as u8)
            }
            "floor" => rat(getx().floor()),
            "ceil" => rat(getx().ceil()),
            "show" => format!("S {}", getx()),
            other => die(format!("unknown op {}", other)),
        }
    }};
}

fn main() {
    vh::serve(|t| match t[0] {
        "i32" => (|| run!(i32, t))(),
        "i64" => (|| run!(i64, t))(),
        "i128" => (|| run!(i128, t))(),
        "i8" => (|| run!(i8, t))(),
        "i16" => (|| run!(i16, t))(),
        "isize" => (|| run!(isize, t))(),
        other => die(format!("unknown type {}", other)),
    });
}
