//! C20 executor.  One stdin line per invocation shape of `rec_lambda!`:
//!     `<caps: string over S/M or -> <tys: string over V/U or -> <nargs> <ret 0|1> <trailing 0|1> [<families> [<atys> <ctys> <rty> [<form>]]]`
//! `<form>` is the invocation form of the library macro (u p r x m, see fam.rs; default u); the generated programs have no
//! crate-level import of the macro, every macro version imports / spells it in the form of its shape.
//! `<families>` is `-` or a comma separated list of program families (see fam.rs): T L E A Y D<depth> R G N K X.
//! One output line per shape (same order):
//!     `<OK|CE|CR> ## <numbers printed by the macro version> ## <numbers printed by the hand-written version> ## <expansion>`
//! where <expansion> is the whitespace-collapsed text of the function containing the macro invocation as
//! printed by `rustc +nightly -Zunpretty=expanded` (or `XE` if the expansion failed, `XE release-expansion-differs` if
//! the expansion obtained with `-C debug-assertions=off` is not the same text).
//!
//! The numbers: base variant, `-7` + nested variant (shapes with a return type), then for every requested family
//! `-(20+k)` + what that family printed (k = index of the family in FAMS), all of that for the DEBUG build
//! (plain rustc) and, after the separator `-8`, once more for the RELEASE build (`-C opt-level=3 -C debug-assertions=off`,
//! library built with the same flags).  A missing line (crash, abort, timeout, does not compile) is a negative code that
//! differs between the two versions, so it never compares equal.  `CE` = some program of the shape does not compile in
//! the debug build, `CR` = only the release build fails.
//!
//! Every shape needs a compilation, so the shapes of a run are grouped into a few programs (one function pair per
//! shape and family, one output line per function; panics are caught per function); if such a program does not compile
//! or crashes, every shape of it is compiled and run on its own so that the failing shapes are known exactly.
//! The library under test is compiled from `$C20_REPO/rlib/lambda` (default /repo; `[lib] path` and `edition` are read
//! from its Cargo.toml) with plain rustc (stable for the runs, nightly for the expansion); all files live under
//! `$C20_WORK` (default /verif/harness/target/c20-work), never in the repo.
mod fam;

use std::fmt::Write as _;
use std::io::{BufRead, Write};
use std::path::{Path, PathBuf};
use std::process::Command;
use std::sync::Mutex;

#[derive(Clone)]
pub struct Shape {
    pub caps: Vec<(bool, bool)>, // (mutable, scalar u64 instead of Vec<u64>)
    pub nargs: usize,
    pub ret: bool,
    pub trailing: bool,
    pub fams: Vec<String>,
    pub atys: String,
    pub ctys: String,
    pub rty: char,
    pub form: char, // invocation form (fam::FORMS), 'u' = `use rlib_lambda::rec_lambda;` + `rec_lambda!(..)`
}

fn parse(line: &str) -> Shape {
    let t: Vec<&str> = line.split_whitespace().collect();
    if t.len() != 5 && t.len() != 6 && t.len() != 9 && t.len() != 10 {
        eprintln!("c20: bad case line {:?}", line);
        std::process::exit(3);
    }
    let caps: Vec<(bool, bool)> = if t[0] == "-" {
        vec![]
    } else {
        t[0].chars().zip(t[1].chars()).map(|(k, ty)| (k == 'M', ty == 'U')).collect()
    };
    let fams: Vec<String> = if t.len() >= 6 && t[5] != "-" { t[5].split(',').map(|x| x.to_string()).collect() } else { vec![] };
    for f in &fams {
        if fam::index(f).is_none() {
            eprintln!("c20: unknown family {:?} in {:?}", f, line);
            std::process::exit(3);
        }
    }
    let dash = |x: &str| if x == "-" { String::new() } else { x.to_string() };
    let form = if t.len() == 10 { t[9].chars().next().unwrap_or('u') } else { 'u' };
    if !fam::FORMS.contains(form) {
        eprintln!("c20: unknown invocation form {:?} in {:?}", form, line);
        std::process::exit(3);
    }
    let (atys, ctys, rty) = if t.len() >= 9 { (dash(t[6]), dash(t[7]), t[8].chars().next().unwrap_or('-')) } else { (String::new(), String::new(), '-') };
    Shape { caps, nargs: t[2].parse().unwrap(), ret: t[3] == "1", trailing: t[4] == "1", fams, atys, ctys, rty, form }
}

pub fn ty(scalar: bool) -> &'static str {
    if scalar { "u64" } else { "Vec<u64>" }
}

/// expressions passed in a recursive call: x0 - 1, then the other arguments rotated and shifted
pub fn call_exprs(n: usize) -> Vec<String> {
    let mut v = vec!["x0 - 1".to_string()];
    for i in 1..n {
        v.push(format!("x{}.wrapping_add({})", (i % (n - 1)) + 1, i));
    }
    v
}

/// reads every shared capture into `sh`, mutates every mutable capture
pub fn prelude(s: &Shape) -> String {
    let mut b = String::new();
    let n = s.nargs;
    b.push_str("            let mut sh: u64 = 1;\n");
    for (i, &(m, sc)) in s.caps.iter().enumerate() {
        if !m {
            if sc {
                writeln!(b, "            sh = sh.wrapping_mul(3).wrapping_add(*v{});", i).unwrap();
            } else {
                writeln!(b, "            sh = sh.wrapping_mul(3).wrapping_add(v{}[(x0 % 2) as usize]);", i).unwrap();
            }
        }
    }
    for (i, &(m, sc)) in s.caps.iter().enumerate() {
        if m {
            if sc {
                writeln!(b, "            *v{i} = v{i}.wrapping_mul(31).wrapping_add(sh).wrapping_add(x{a});", i = i, a = i % n).unwrap();
            } else {
                writeln!(b, "            v{i}.push(sh.wrapping_mul(5).wrapping_add(x{a}).wrapping_add({i}));", i = i, a = i % n).unwrap();
            }
        }
    }
    b
}

/// the body; `rec` renders one recursive call from its argument expressions
fn body(s: &Shape, rec: &dyn Fn(&[String]) -> String, nested: bool) -> String {
    let mut b = prelude(s);
    let n = s.nargs;
    let es = call_exprs(n);
    let call = rec(&es);
    if s.ret && nested {
        // a recursive call whose first argument is itself a recursive call (Ackermann / McCarthy-91 style);
        // the outer call gets x0 in {0, 1}, so the recursion stays shallow
        let mut es2 = es.clone();
        es2[0] = format!("({}) % 2", call);
        let call2 = rec(&es2);
        writeln!(b, "            if x0 == 0 {{ sh.wrapping_add(x{}) }} else {{", n - 1).unwrap();
        writeln!(b, "                let r1 = {};", call).unwrap();
        writeln!(b, "                let r2 = if x0 >= 2 {{ {} }} else {{ 5 }};", call2).unwrap();
        writeln!(b, "                r1.wrapping_mul(3).wrapping_add(r2).wrapping_add(x{})", n - 1).unwrap();
        b.push_str("            }\n");
    } else if s.ret {
        writeln!(b, "            if x0 == 0 {{ sh.wrapping_add(x{}) }} else {{", n - 1).unwrap();
        writeln!(b, "                let r1 = {};", call).unwrap();
        writeln!(b, "                let r2 = if x0 % 2 == 1 {{ {} }} else {{ 7 }};", call).unwrap();
        writeln!(b, "                r1.wrapping_mul(3).wrapping_add(r2).wrapping_add(x{})", n - 1).unwrap();
        b.push_str("            }\n");
    } else {
        b.push_str("            if x0 != 0 {\n");
        writeln!(b, "                {};", call).unwrap();
        writeln!(b, "                if x0 % 2 == 1 {{ {}; }}", call).unwrap();
        b.push_str("            }\n");
    }
    b
}

pub fn setup(s: &Shape) -> String {
    let mut o = String::new();
    for (i, &(m, sc)) in s.caps.iter().enumerate() {
        let init = match (m, sc) {
            (false, false) => format!("vec![{}, {}]", 10 * i + 1, 10 * i + 2),
            (false, true) => format!("{}", 20 + i + 3),
            (true, false) => "vec![]".to_string(),
            (true, true) => format!("{}", i + 1),
        };
        writeln!(o, "    let {}v{}: {} = {};", if m { "mut " } else { "" }, i, ty(sc), init).unwrap();
    }
    o
}

pub fn top_args(n: usize, first: u64) -> String {
    let mut v = vec![first.to_string()];
    for i in 1..n {
        v.push((first * 2 + 3 * i as u64).to_string());
    }
    v.join(", ")
}

fn report(s: &Shape, tag: &str, idx: usize) -> String {
    let mut o = String::new();
    writeln!(o, "    let mut out = String::new();").unwrap();
    if s.ret {
        o.push_str("    out.push_str(&format!(\" {} {}\", r1, r2));\n");
    }
    for (i, &(m, sc)) in s.caps.iter().enumerate() {
        if m {
            if sc {
                writeln!(o, "    out.push_str(&format!(\" -1 {{}}\", v{}));", i).unwrap();
            } else {
                writeln!(o, "    out.push_str(\" -1\"); for z in v{}.iter() {{ out.push_str(&format!(\" {{}}\", z)); }}", i).unwrap();
            }
        }
    }
    writeln!(o, "    println!(\"{} {}{{}}\", out);", tag, idx).unwrap();
    o
}

fn gen_macro_fn(s: &Shape, idx: usize, nested: bool) -> String {
    let mut o = String::new();
    writeln!(o, "fn shape_{}_m{}() {{", idx, if nested { "n" } else { "" }).unwrap();
    let (import, mac) = fam::inv(s.form);
    o.push_str(import);
    o.push_str(&setup(s));
    let caps: Vec<String> = s.caps.iter().enumerate()
        .map(|(i, &(m, sc))| format!("v{}: &{}{}", i, if m { "mut " } else { "" }, ty(sc))).collect();
    let args: Vec<String> = (0..s.nargs).map(|i| format!("x{}: u64", i)).collect();
    let trailing = s.trailing;
    let rec = move |es: &[String]| format!("f!({}{})", es.join(", "), if trailing { "," } else { "" });
    o.push_str("    let (r1, r2);\n    {\n");
    writeln!(o, "        let mut clo = {}!(f, |{}| {{", mac, caps.join(", ")).unwrap();
    writeln!(o, "            |{}|{} {{", args.join(", "), if s.ret { " -> u64" } else { "" }).unwrap();
    o.push_str(&body(s, &rec, nested));
    o.push_str("            }\n        });\n");
    writeln!(o, "        r1 = clo({});", top_args(s.nargs, 3)).unwrap();
    writeln!(o, "        r2 = clo({});", top_args(s.nargs, 2)).unwrap();
    o.push_str("    }\n    let _ = (&r1, &r2);\n");
    o.push_str(&report(s, if nested { "N" } else { "M" }, idx));
    o.push_str("}\n");
    o
}

fn gen_hand_fn(s: &Shape, idx: usize, nested: bool) -> String {
    let mut o = String::new();
    writeln!(o, "fn shape_{}_h{}() {{", idx, if nested { "n" } else { "" }).unwrap();
    o.push_str(&setup(s));
    let mut params: Vec<String> = (0..s.nargs).map(|i| format!("x{}: u64", i)).collect();
    for (i, &(m, sc)) in s.caps.iter().enumerate() {
        params.push(format!("v{}: &{}{}", i, if m { "mut " } else { "" }, ty(sc)));
    }
    let capnames: Vec<String> = (0..s.caps.len()).map(|i| format!("v{}", i)).collect();
    let cn = capnames.clone();
    let rec = move |es: &[String]| {
        let mut a: Vec<String> = es.to_vec();
        a.extend(cn.iter().cloned());
        format!("rec({})", a.join(", "))
    };
    writeln!(o, "    fn rec({}){} {{", params.join(", "), if s.ret { " -> u64" } else { "" }).unwrap();
    o.push_str(&body(s, &rec, nested));
    o.push_str("    }\n");
    let outer: Vec<String> = s.caps.iter().enumerate()
        .map(|(i, &(m, _))| format!("&{}v{}", if m { "mut " } else { "" }, i)).collect();
    for (k, first) in [(1, 3u64), (2, 2u64)] {
        let mut a = vec![top_args(s.nargs, first)];
        a.extend(outer.iter().cloned());
        writeln!(o, "    let r{} = rec({});", k, a.join(", ")).unwrap();
    }
    o.push_str("    let _ = (&r1, &r2);\n");
    o.push_str(&report(s, if nested { "G" } else { "H" }, idx));
    o.push_str("}\n");
    o
}

const PROGRAM_HEAD: &str = "#![allow(warnings)]\nuse std::collections::HashMap;\nuse std::cell::Cell;\n\
fn emit(tag: &str, idx: usize, out: &[u64]) {\n    let mut s = String::new();\n    for z in out { s.push_str(&format!(\" {}\", z)); }\n    println!(\"{} {}{}\", tag, idx, s);\n}\n\
fn vh(v: &[u64]) -> u64 { v.iter().fold(7u64, |a, b| a.wrapping_mul(1000003).wrapping_add(*b)) }\n\
fn guard(tag: &str, idx: usize, code: i64, f: fn()) {\n    if std::panic::catch_unwind(f).is_err() { println!(\"{} {} {}\", tag, idx, code); }\n}\n";

/// families of a shape that are rendered as function pairs inside the generated program
fn prog_fams(s: &Shape) -> Vec<(usize, &str)> {
    s.fams.iter().filter_map(|f| fam::index(f).map(|k| (k, f.as_str()))).filter(|(k, _)| fam::in_program(*k)).collect()
}

fn program(shapes: &[(usize, &Shape)]) -> String {
    let mut o = String::from(PROGRAM_HEAD);
    o.push_str(fam::FORM_ITEMS);
    o.push_str(fam::Y_HELPERS);
    for (idx, s) in shapes {
        o.push_str(&gen_macro_fn(s, *idx, false));
        o.push_str(&gen_hand_fn(s, *idx, false));
        if s.ret {
            o.push_str(&gen_macro_fn(s, *idx, true));
            o.push_str(&gen_hand_fn(s, *idx, true));
        }
        for (_, f) in prog_fams(s) {
            o.push_str(&fam::items(s, *idx, f));
            o.push_str(&fam::gen(s, *idx, f, true));
            o.push_str(&fam::gen(s, *idx, f, false));
        }
    }
    o.push_str("fn real_main() {\n    std::panic::set_hook(Box::new(|_| {}));\n");
    for (idx, _) in shapes {
        writeln!(o, "    guard(\"H\", {i}, -996, shape_{i}_h);\n    guard(\"M\", {i}, -997, shape_{i}_m);", i = idx).unwrap();
    }
    for (idx, s) in shapes {
        if s.ret {
            writeln!(o, "    guard(\"G\", {i}, -994, shape_{i}_hn);\n    guard(\"N\", {i}, -995, shape_{i}_mn);", i = idx).unwrap();
        }
    }
    for (idx, s) in shapes {
        for (k, f) in prog_fams(s) {
            let l = fam::letter(f);
            writeln!(o, "    guard(\"h{l}\", {i}, {ch}, shape_{i}_h{l});\n    guard(\"m{l}\", {i}, {cm}, shape_{i}_m{l});",
                     i = idx, l = l, ch = -941 - 2 * k as i64, cm = -940 - 2 * k as i64).unwrap();
        }
    }
    o.push_str("}\nfn main() {\n    let t = std::thread::Builder::new().stack_size(1 << 30).spawn(real_main).unwrap();\n    \
                if t.join().is_err() { std::process::exit(101); }\n}\n");
    o
}

/// only what the expansion comparison looks at: the non-nested macro version of every shape
fn expansion_program(shapes: &[(usize, &Shape)]) -> String {
    let mut o = String::from("#![allow(warnings)]\n");
    o.push_str(fam::FORM_ITEMS);
    for (idx, s) in shapes {
        o.push_str(&gen_macro_fn(s, *idx, false));
    }
    o.push_str("fn main() {}\n");
    o
}

#[derive(Clone, Copy, PartialEq)]
enum Prof { Debug, Release }

impl Prof {
    fn flags(self) -> &'static [&'static str] {
        match self { Prof::Debug => &[], Prof::Release => &["-C", "opt-level=3", "-C", "debug-assertions=off"] }
    }
    fn dir(self) -> &'static str {
        match self { Prof::Debug => "st", Prof::Release => "sr" }
    }
    fn tag(self) -> &'static str {
        match self { Prof::Debug => "d", Prof::Release => "r" }
    }
}

fn rustc(nightly: bool, edition: &str, args: &[&str], cwd: &Path) -> (bool, String) {
    let mut c = Command::new("rustc");
    if nightly {
        c.arg("+nightly");
    }
    c.args(["--edition", edition, "--cap-lints", "allow"]).args(args).current_dir(cwd);
    match c.output() {
        Ok(o) => (o.status.success(), String::from_utf8_lossy(if o.status.success() { &o.stdout } else { &o.stderr }).into_owned()),
        Err(e) => (false, format!("cannot run rustc: {}", e)),
    }
}

#[derive(Clone, Default)]
struct Run {
    compiled: bool,
    lines: std::collections::HashMap<String, String>, // tag -> numbers
    editions: Option<(bool, bool)>,                  // family X: type checks as an edition 2018 / 2024 crate
}

#[derive(Clone, Default)]
struct Res {
    d: Run,
    r: Run,
    x: String,
}

/// compile + run the given shapes as one program; false if it does not compile or crashes
fn run_group(work: &Path, name: &str, prof: Prof, shapes: &[(usize, &Shape)], res: &mut [Run]) -> bool {
    let src = work.join(format!("{}.rs", name));
    if !src.exists() {
        std::fs::write(&src, program(shapes)).unwrap();
    }
    let bin = work.join(format!("{}_{}", name, prof.tag()));
    let ext = format!("rlib_lambda={}/librlib_lambda.rlib", prof.dir());
    let mut args: Vec<&str> = vec!["--extern", &ext, "-C", "debuginfo=0"];
    args.extend_from_slice(prof.flags());
    args.extend_from_slice(&[src.to_str().unwrap(), "-o", bin.to_str().unwrap()]);
    let (ok, err) = rustc(false, "2021", &args, work);
    if !ok {
        if shapes.len() == 1 && std::env::var("C20_VERBOSE").is_ok() {
            eprintln!("c20: {} ({}) does not compile:\n{}", name, prof.tag(), err);
        }
        return false;
    }
    let deep = shapes.iter().any(|(_, s)| s.fams.iter().any(|f| f.starts_with('D')));
    let (clean, out) = run_with_timeout(&bin, if shapes.len() == 1 && !deep { 30 } else { 300 });
    if !clean && shapes.len() > 1 {
        return false; // crashed (stack overflow, abort, timeout): run every shape on its own
    }
    for (idx, _) in shapes {
        res[*idx].compiled = true;
    }
    for line in out.lines() {
        let mut it = line.splitn(3, ' ');
        let tag = it.next().unwrap_or("");
        let idx: usize = match it.next().and_then(|x| x.parse().ok()) { Some(i) => i, None => continue };
        let rest = it.next().unwrap_or("").trim().to_string();
        if idx < res.len() {
            res[idx].lines.insert(tag.to_string(), rest);
        }
    }
    // family X: the same program must type check as a crate of the other editions (macro hygiene / fragment rules differ)
    if prof == Prof::Debug && shapes.iter().any(|(_, s)| s.fams.iter().any(|f| f == "X")) {
        let mut oks = [false, false];
        for (k, ed) in ["2018", "2024"].iter().enumerate() {
            let meta = work.join(format!("{}_{}.rmeta", name, ed));
            let a: Vec<&str> = vec!["--extern", &ext, "--emit=metadata", src.to_str().unwrap(), "-o", meta.to_str().unwrap()];
            oks[k] = rustc(false, ed, &a, work).0;
        }
        if shapes.len() > 1 && !(oks[0] && oks[1]) {
            return false; // find out which shape
        }
        for (idx, s) in shapes {
            if s.fams.iter().any(|f| f == "X") {
                res[*idx].editions = Some((oks[0], oks[1]));
            }
        }
    }
    true
}

/// run a generated program; (exited normally with status 0, stdout)
fn run_with_timeout(bin: &Path, secs: u64) -> (bool, String) {
    use std::io::Read;
    let mut child = match Command::new(bin).stdout(std::process::Stdio::piped()).stderr(std::process::Stdio::null()).spawn() {
        Ok(c) => c,
        Err(_) => return (false, String::new()),
    };
    let mut so = child.stdout.take().unwrap();
    let reader = std::thread::spawn(move || {
        let mut s = String::new();
        let _ = so.read_to_string(&mut s);
        s
    });
    let t0 = std::time::Instant::now();
    let clean = loop {
        match child.try_wait() {
            Ok(Some(st)) => break st.success(),
            Ok(None) => {
                if t0.elapsed().as_secs() >= secs {
                    let _ = child.kill();
                    let _ = child.wait();
                    break false;
                }
                std::thread::sleep(std::time::Duration::from_millis(5));
            }
            Err(_) => break false,
        }
    };
    (clean, reader.join().unwrap_or_default())
}

fn collapse(s: &str) -> String {
    s.split_whitespace().collect::<Vec<_>>().join(" ")
}

/// expansion of the given shapes as one program; None if rustc refuses
fn expand_group(work: &Path, name: &str, release: bool, shapes: &[(usize, &Shape)]) -> Option<Vec<(usize, String)>> {
    let src = work.join(format!("{}.rs", name));
    if !src.exists() {
        std::fs::write(&src, expansion_program(shapes)).unwrap();
    }
    let ext = format!("rlib_lambda={}/librlib_lambda.rlib", if release { "nr" } else { "ni" });
    let mut args: Vec<&str> = vec!["-Zunpretty=expanded", "--extern", &ext];
    if release {
        args.extend_from_slice(Prof::Release.flags());
    }
    args.push(src.to_str().unwrap());
    let (ok, out) = rustc(true, "2021", &args, work);
    if !ok {
        return None;
    }
    let mut v = vec![];
    for (idx, _) in shapes {
        let start = format!("\nfn shape_{}_m() {{", idx);
        if let Some(p) = out.find(&start) {
            let rest = &out[p + 1..];
            let end = rest[1..].find("\nfn ").map(|e| e + 1).unwrap_or(rest.len());
            v.push((*idx, collapse(&rest[..end])));
        }
    }
    Some(v)
}

/// `[lib] path` and `edition` of rlib/lambda/Cargo.toml (defaults src/lib.rs, 2021)
fn lib_config(repo: &str) -> (String, String) {
    let mut path = "src/lib.rs".to_string();
    let mut edition = "2021".to_string();
    if let Ok(t) = std::fs::read_to_string(format!("{}/rlib/lambda/Cargo.toml", repo)) {
        let mut section = String::new();
        for line in t.lines() {
            let l = line.split('#').next().unwrap_or("").trim();
            if l.starts_with('[') {
                section = l.to_string();
            } else if let Some((k, v)) = l.split_once('=') {
                let (k, v) = (k.trim(), v.trim().trim_matches('"').to_string());
                if section == "[package]" && k == "edition" && ["2015", "2018", "2021", "2024"].contains(&v.as_str()) {
                    edition = v;
                } else if section == "[lib]" && k == "path" {
                    path = v;
                }
            }
        }
    }
    (format!("{}/rlib/lambda/{}", repo, path), edition)
}

/// family K: the programs of the crate's own documentation and test file.  Returns (number of programs, their results)
fn docs_program(repo: &str) -> (Vec<String>, String) {
    let mut names = vec![];
    let mut o = String::from("#![allow(warnings)]\n");
    if let Ok(t) = std::fs::read_to_string(format!("{}/rlib/lambda/README.md", repo)) {
        let mut inside = false;
        let mut k = 0;
        for line in t.lines() {
            let l = line.trim_start();
            if !inside && l.starts_with("```") {
                let info = l.trim_start_matches('`').trim();
                // rustdoc: a block without a language, or `rust`, is a doc test unless ignored
                let is_rust = info.is_empty() || info.split(',').any(|w| w.trim() == "rust");
                let skipped = info.split(',').any(|w| ["ignore", "text", "compile_fail"].contains(&w.trim()));
                inside = true;
                if is_rust && !skipped {
                    names.push(format!("readme_{}", k));
                    writeln!(o, "fn readme_{}() {{", k).unwrap();
                    k += 1;
                } else {
                    o.push_str("#[cfg(any())] fn skipped() {\n");
                }
            } else if inside && l.starts_with("```") {
                inside = false;
                o.push_str("}\n");
            } else if inside {
                // rustdoc hides lines starting with `# ` but compiles them
                let code = if let Some(r) = l.strip_prefix("# ") { r } else if l == "#" { "" } else { line };
                o.push_str(code);
                o.push('\n');
            }
        }
        if inside {
            o.push_str("}\n");
        }
    }
    if let Ok(t) = std::fs::read_to_string(format!("{}/rlib/lambda/tests/tests.rs", repo)) {
        o.push_str("mod tests_rs {\n");
        let mut pending = false;
        for line in t.lines() {
            let l = line.trim();
            if l == "#[test]" {
                pending = true;
                continue;
            }
            if pending && l.starts_with("fn ") {
                if let Some(n) = l[3..].split('(').next() {
                    names.push(format!("tests_rs::{}", n.trim()));
                }
                pending = false;
                o.push_str("pub ");
            }
            o.push_str(line);
            o.push('\n');
        }
        o.push_str("}\n");
    }
    o.push_str("fn main() {\n    std::panic::set_hook(Box::new(|_| {}));\n    let t = std::thread::Builder::new().stack_size(1 << 29).spawn(|| {\n");
    for (k, n) in names.iter().enumerate() {
        writeln!(o, "        println!(\"K {} {{}}\", if std::panic::catch_unwind(|| {}()).is_ok() {{ 1 }} else {{ 0 }});", k, n).unwrap();
    }
    o.push_str("    }).unwrap();\n    let _ = t.join();\n}\n");
    (names, o)
}

fn run_docs(work: &Path, repo: &str, prof: Prof) -> (usize, Vec<i64>) {
    let (names, text) = docs_program(repo);
    let src = work.join(format!("docs_{}.rs", prof.tag()));
    std::fs::write(&src, text).unwrap();
    let bin = work.join(format!("docs_{}", prof.tag()));
    let ext = format!("rlib_lambda={}/librlib_lambda.rlib", prof.dir());
    let mut args: Vec<&str> = vec!["--extern", &ext, "-C", "debuginfo=0"];
    args.extend_from_slice(prof.flags());
    args.extend_from_slice(&[src.to_str().unwrap(), "-o", bin.to_str().unwrap()]);
    let (ok, err) = rustc(false, "2021", &args, work);
    if !ok {
        if std::env::var("C20_VERBOSE").is_ok() {
            eprintln!("c20: documentation/test programs do not compile ({}):\n{}", prof.tag(), err);
        }
        return (names.len(), vec![-980; names.len()]);
    }
    let (_, out) = run_with_timeout(&bin, 120);
    let mut v = vec![-981i64; names.len()];
    for line in out.lines() {
        let t: Vec<&str> = line.split_whitespace().collect();
        if t.len() == 3 && t[0] == "K" {
            if let (Ok(k), Ok(r)) = (t[1].parse::<usize>(), t[2].parse::<i64>()) {
                if k < v.len() {
                    v[k] = r;
                }
            }
        }
    }
    (names.len(), v)
}

fn main() {
    let stdin = std::io::stdin();
    let shapes: Vec<Shape> = stdin.lock().lines().map(|l| l.unwrap()).filter(|l| !l.trim().is_empty()).map(|l| parse(&l)).collect();
    let repo = std::env::var("C20_REPO").unwrap_or_else(|_| "/repo".to_string());
    let base = std::env::var("C20_WORK").unwrap_or_else(|_| "/verif/harness/target/c20-work".to_string());
    let work: PathBuf = Path::new(&base).join(format!("run-{}", std::process::id()));
    let _ = std::fs::remove_dir_all(&work);
    for d in ["st", "sr", "ni", "nr"] {
        std::fs::create_dir_all(work.join(d)).unwrap();
    }
    let (lib, lib_edition) = lib_config(&repo);
    let all: Vec<(usize, &Shape)> = shapes.iter().enumerate().collect();
    let n = shapes.len();

    // the library itself (macro definitions are only checked superficially here), once per tool chain and profile
    let mut lib_ok = [false; 4];
    std::thread::scope(|sc| {
        let hs: Vec<_> = [("st", false, false), ("sr", false, true), ("ni", true, false), ("nr", true, true)].iter().map(|&(dir, nightly, rel)| {
            let (lib, work, ed) = (lib.clone(), work.clone(), lib_edition.clone());
            sc.spawn(move || {
                let mut a: Vec<&str> = vec!["--crate-type", "rlib", "--crate-name", "rlib_lambda", &lib, "--out-dir", dir];
                if rel {
                    a.extend_from_slice(Prof::Release.flags());
                }
                let (ok, e) = rustc(nightly, &ed, &a, &work);
                if !ok {
                    eprintln!("c20: rlib_lambda does not compile ({}): {}", dir, e);
                }
                ok
            })
        }).collect();
        for (k, h) in hs.into_iter().enumerate() {
            lib_ok[k] = h.join().unwrap();
        }
    });

    // jobs: (profile, chunk of shapes); a failing chunk is split into single shapes by the same worker
    let weight = |s: &Shape| 1 + s.ret as usize + 2 * s.fams.len();
    let total: usize = shapes.iter().map(weight).sum();
    let nchunks = ((total + 149) / 150).max(6).min(n.max(1));
    let mut chunks: Vec<Vec<(usize, &Shape)>> = vec![vec![]; nchunks];
    {
        // greedy balancing by weight, keeping the order inside a chunk
        let mut load = vec![0usize; nchunks];
        for (i, s) in all.iter() {
            let k = (0..nchunks).min_by_key(|&k| load[k]).unwrap();
            load[k] += weight(s);
            chunks[k].push((*i, *s));
        }
    }
    let res_d: Mutex<Vec<Run>> = Mutex::new(vec![Run::default(); n]);
    let res_r: Mutex<Vec<Run>> = Mutex::new(vec![Run::default(); n]);
    let xs: Mutex<Vec<String>> = Mutex::new(vec![String::new(); n]);
    let xr: Mutex<Vec<Option<String>>> = Mutex::new(vec![None; n]);
    let docs: Mutex<[Option<(usize, Vec<i64>)>; 2]> = Mutex::new([None, None]);
    let want_docs = shapes.iter().any(|s| s.fams.iter().any(|f| f == "K"));

    enum Job<'a> { Run(Prof, usize, &'a [(usize, &'a Shape)]), Expand(bool), Docs(Prof) }
    let mut jobs: Vec<Job> = vec![];
    if !all.is_empty() {
        if lib_ok[2] { jobs.push(Job::Expand(false)); }
        if lib_ok[3] { jobs.push(Job::Expand(true)); }
        for (k, ch) in chunks.iter().enumerate() {
            if ch.is_empty() { continue; }
            if lib_ok[1] { jobs.push(Job::Run(Prof::Release, k, ch)); }
            if lib_ok[0] { jobs.push(Job::Run(Prof::Debug, k, ch)); }
        }
        if want_docs {
            if lib_ok[0] { jobs.push(Job::Docs(Prof::Debug)); }
            if lib_ok[1] { jobs.push(Job::Docs(Prof::Release)); }
        }
    }
    let queue: Mutex<Vec<Job>> = Mutex::new(jobs.into_iter().rev().collect());
    let workers: usize = std::env::var("C20_JOBS").ok().and_then(|x| x.parse().ok()).unwrap_or(6);
    std::thread::scope(|sc| {
        for _ in 0..workers {
            sc.spawn(|| loop {
                let job = match queue.lock().unwrap().pop() { Some(j) => j, None => break };
                match job {
                    Job::Run(prof, k, ch) => {
                        let mut local = vec![Run::default(); n];
                        if !run_group(&work, &format!("chunk{}", k), prof, ch, &mut local) {
                            for (idx, s) in ch.iter() {
                                local[*idx] = Run::default();
                                run_group(&work, &format!("one_{}", idx), prof, &[(*idx, *s)], &mut local);
                            }
                        }
                        let mut g = if prof == Prof::Debug { res_d.lock().unwrap() } else { res_r.lock().unwrap() };
                        for (idx, _) in ch.iter() {
                            g[*idx] = local[*idx].clone();
                        }
                    }
                    Job::Expand(release) => {
                        let name = if release { "xall_r" } else { "xall" };
                        let got = match expand_group(&work, name, release, &all) {
                            Some(v) => v,
                            None => {
                                let mut v = vec![];
                                for (idx, s) in all.iter() {
                                    if let Some(mut one) = expand_group(&work, &format!("xone_{}{}", idx, if release { "_r" } else { "" }), release, &[(*idx, *s)]) {
                                        v.append(&mut one);
                                    }
                                }
                                v
                            }
                        };
                        if release {
                            let mut g = xr.lock().unwrap();
                            for (idx, x) in got { g[idx] = Some(x); }
                        } else {
                            let mut g = xs.lock().unwrap();
                            for (idx, x) in got { g[idx] = x; }
                        }
                    }
                    Job::Docs(prof) => {
                        let r = run_docs(&work, &repo, prof);
                        docs.lock().unwrap()[if prof == Prof::Debug { 0 } else { 1 }] = Some(r);
                    }
                }
            });
        }
    });
    let (res_d, res_r, xs, xr, docs) = (res_d.into_inner().unwrap(), res_r.into_inner().unwrap(), xs.into_inner().unwrap(),
                                        xr.into_inner().unwrap(), docs.into_inner().unwrap());
    let res: Vec<Res> = (0..n).map(|i| {
        let x = if xs[i].is_empty() { String::new() }
                else if xr[i].as_deref() != Some(xs[i].as_str()) { "XE release-expansion-differs".to_string() }
                else { xs[i].clone() };
        Res { d: res_d[i].clone(), r: res_r[i].clone(), x }
    }).collect();

    let stdout = std::io::stdout();
    let mut out = std::io::BufWriter::new(stdout.lock());
    for (r, s) in res.iter().zip(shapes.iter()) {
        let (mut m, mut h) = (String::new(), String::new());
        for (pi, run) in [&r.d, &r.r].iter().enumerate() {
            if pi == 1 {
                m.push_str(" -8 ");
                h.push_str(" -8 ");
            }
            // a missing line (crash, abort, timeout) must never compare equal to anything
            let get = |tag: &str, missing: i64| run.lines.get(tag).cloned().unwrap_or_else(|| missing.to_string());
            m.push_str(&get("M", -999));
            h.push_str(&get("H", -998));
            if s.ret {
                // the nested-call variant: its numbers follow the separator -7
                write!(m, " -7 {}", get("N", -993)).unwrap();
                write!(h, " -7 {}", get("G", -992)).unwrap();
            }
            for f in &s.fams {
                let k = fam::index(f).unwrap();
                let l = fam::letter(f);
                let sep = -20 - k as i64;
                if fam::in_program(k) {
                    write!(m, " {} {}", sep, get(&format!("m{}", l), -970 - 2 * k as i64)).unwrap();
                    write!(h, " {} {}", sep, get(&format!("h{}", l), -971 - 2 * k as i64)).unwrap();
                } else if l == 'K' {
                    // documentation and test programs of the crate: every one must compile and pass
                    let (cnt, v) = docs[pi].clone().unwrap_or((1, vec![-982]));
                    write!(m, " {} {}", sep, cnt).unwrap();
                    write!(h, " {} {}", sep, cnt).unwrap();
                    for z in v { write!(m, " {}", z).unwrap(); }
                    for _ in 0..cnt { h.push_str(" 1"); }
                } else if l == 'X' && pi == 0 {
                    let (a, b) = run.editions.unwrap_or((false, false));
                    write!(m, " {} {} {}", sep, if a { 1 } else { -983 }, if b { 1 } else { -984 }).unwrap();
                    write!(h, " {} 1 1", sep).unwrap();
                }
            }
        }
        let status = if !r.d.compiled { "CE" } else if !r.r.compiled { "CR" } else { "OK" };
        writeln!(out, "{} ## {} ## {} ## {}", status, m, h, if r.x.is_empty() { "XE" } else { &r.x }).unwrap();
    }
    out.flush().unwrap();
    if std::env::var("C20_KEEP").is_err() {
        let _ = std::fs::remove_dir_all(&work);
    }
}
