//! C20 executor.  One stdin line per invocation shape of `rec_lambda!`:
//!     `<caps: string over S/M or -> <tys: string over V/U or -> <nargs> <ret 0|1> <trailing 0|1>`
//! One output line per shape (same order):
//!     `<OK|CE> ## <numbers printed by the macro version> ## <numbers printed by the hand-written version> ## <expansion>`
//! where <expansion> is the whitespace-collapsed text of the function containing the macro invocation as
//! printed by `rustc +nightly -Zunpretty=expanded` (or `XE` if the expansion failed).
//!
//! Every shape needs a compilation, so ALL shapes of a run go into ONE generated program (one function pair
//! per shape, one output line per function; the hand-written version runs first, panics are caught per
//! function); if that program does not compile or crashes (stack overflow, abort, timeout), every shape is
//! compiled and run on its own so that the failing shapes are known exactly.  A missing output line is
//! reported as `-999` (macro version) / `-998` (hand-written version) so that it never compares equal.  The library under test is compiled from
//! `$C20_REPO/rlib/lambda/src/lib.rs` (default /repo) with plain rustc (stable for the run, nightly for the
//! expansion); all files live under `$C20_WORK` (default /verif/harness/target/c20-work), never in the repo.
use std::fmt::Write as _;
use std::io::{BufRead, Write};
use std::path::{Path, PathBuf};
use std::process::Command;

#[derive(Clone)]
struct Shape {
    caps: Vec<(bool, bool)>, // (mutable, scalar u64 instead of Vec<u64>)
    nargs: usize,
    ret: bool,
    trailing: bool,
}

fn parse(line: &str) -> Shape {
    let t: Vec<&str> = line.split_whitespace().collect();
    if t.len() != 5 {
        eprintln!("c20: bad case line {:?}", line);
        std::process::exit(3);
    }
    let caps: Vec<(bool, bool)> = if t[0] == "-" {
        vec![]
    } else {
        t[0].chars().zip(t[1].chars()).map(|(k, ty)| (k == 'M', ty == 'U')).collect()
    };
    Shape { caps, nargs: t[2].parse().unwrap(), ret: t[3] == "1", trailing: t[4] == "1" }
}

fn ty(scalar: bool) -> &'static str {
    if scalar { "u64" } else { "Vec<u64>" }
}

/// expressions passed in a recursive call: x0 - 1, then the other arguments rotated and shifted
fn call_exprs(n: usize) -> Vec<String> {
    let mut v = vec!["x0 - 1".to_string()];
    for i in 1..n {
        v.push(format!("x{}.wrapping_add({})", (i % (n - 1)) + 1, i));
    }
    v
}

/// the body; `rec` renders one recursive call from its argument expressions
fn body(s: &Shape, rec: &dyn Fn(&[String]) -> String, nested: bool) -> String {
    let mut b = String::new();
    let n = s.nargs;
    b.push_str("            let mut sh: u64 = 1;\n");
    for (i, &(m, sc)) in s.caps.iter().enumerate() {
        if !m {
            if sc {
                writeln!(b, "            sh = sh.wrapping_mul(3).wrapping_add(*v{});", i).unwrap();
            } else {
                writeln!(b, "            sh = sh.wrapping_mul(3).wrapping_add(v{}[(x0 % 2) as usize]);", i).unwrap();
            }
        }
    }
    for (i, &(m, sc)) in s.caps.iter().enumerate() {
        if m {
            if sc {
                writeln!(b, "            *v{i} = v{i}.wrapping_mul(31).wrapping_add(sh).wrapping_add(x{a});", i = i, a = i % n).unwrap();
            } else {
                writeln!(b, "            v{i}.push(sh.wrapping_mul(5).wrapping_add(x{a}).wrapping_add({i}));", i = i, a = i % n).unwrap();
            }
        }
    }
    let es = call_exprs(n);
    let call = rec(&es);
    if s.ret && nested {
        // a recursive call whose first argument is itself a recursive call (Ackermann / McCarthy-91 style);
        // the outer call gets x0 in {0, 1}, so the recursion stays shallow
        let mut es2 = es.clone();
        es2[0] = format!("({}) % 2", call);
        let call2 = rec(&es2);
        writeln!(b, "            if x0 == 0 {{ sh.wrapping_add(x{}) }} else {{", n - 1).unwrap();
        writeln!(b, "                let r1 = {};", call).unwrap();
        writeln!(b, "                let r2 = if x0 >= 2 {{ {} }} else {{ 5 }};", call2).unwrap();
        writeln!(b, "                r1.wrapping_mul(3).wrapping_add(r2).wrapping_add(x{})", n - 1).unwrap();
        b.push_str("            }\n");
    } else if s.ret {
        writeln!(b, "            if x0 == 0 {{ sh.wrapping_add(x{}) }} else {{", n - 1).unwrap();
        writeln!(b, "                let r1 = {};", call).unwrap();
        writeln!(b, "                let r2 = if x0 % 2 == 1 {{ {} }} else {{ 7 }};", call).unwrap();
        writeln!(b, "                r1.wrapping_mul(3).wrapping_add(r2).wrapping_add(x{})", n - 1).unwrap();
        b.push_str("            }\n");
    } else {
        b.push_str("            if x0 != 0 {\n");
        writeln!(b, "                {};", call).unwrap();
        writeln!(b, "                if x0 % 2 == 1 {{ {}; }}", call).unwrap();
        b.push_str("            }\n");
    }
    b
}

fn setup(s: &Shape) -> String {
    let mut o = String::new();
    for (i, &(m, sc)) in s.caps.iter().enumerate() {
        let init = match (m, sc) {
            (false, false) => format!("vec![{}, {}]", 10 * i + 1, 10 * i + 2),
            (false, true) => format!("{}", 20 + i + 3),
            (true, false) => "vec![]".to_string(),
            (true, true) => format!("{}", i + 1),
        };
        writeln!(o, "    let {}v{}: {} = {};", if m { "mut " } else { "" }, i, ty(sc), init).unwrap();
    }
    o
}

fn top_args(n: usize, first: u64) -> String {
    let mut v = vec![first.to_string()];
    for i in 1..n {
        v.push((first * 2 + 3 * i as u64).to_string());
    }
    v.join(", ")
}

fn report(s: &Shape, tag: &str, idx: usize) -> String {
    let mut o = String::new();
    writeln!(o, "    let mut out = String::new();").unwrap();
    if s.ret {
        o.push_str("    out.push_str(&format!(\" {} {}\", r1, r2));\n");
    }
    for (i, &(m, sc)) in s.caps.iter().enumerate() {
        if m {
            if sc {
                writeln!(o, "    out.push_str(&format!(\" -1 {{}}\", v{}));", i).unwrap();
            } else {
                writeln!(o, "    out.push_str(\" -1\"); for z in v{}.iter() {{ out.push_str(&format!(\" {{}}\", z)); }}", i).unwrap();
            }
        }
    }
    writeln!(o, "    println!(\"{} {}{{}}\", out);", tag, idx).unwrap();
    o
}

fn gen_macro_fn(s: &Shape, idx: usize, nested: bool) -> String {
    let mut o = String::new();
    writeln!(o, "fn shape_{}_m{}() {{", idx, if nested { "n" } else { "" }).unwrap();
    o.push_str(&setup(s));
    let caps: Vec<String> = s.caps.iter().enumerate()
        .map(|(i, &(m, sc))| format!("v{}: &{}{}", i, if m { "mut " } else { "" }, ty(sc))).collect();
    let args: Vec<String> = (0..s.nargs).map(|i| format!("x{}: u64", i)).collect();
    let trailing = s.trailing;
    let rec = move |es: &[String]| format!("f!({}{})", es.join(", "), if trailing { "," } else { "" });
    o.push_str("    let (r1, r2);\n    {\n");
    writeln!(o, "        let mut clo = rec_lambda!(f, |{}| {{", caps.join(", ")).unwrap();
    writeln!(o, "            |{}|{} {{", args.join(", "), if s.ret { " -> u64" } else { "" }).unwrap();
    o.push_str(&body(s, &rec, nested));
    o.push_str("            }\n        });\n");
    writeln!(o, "        r1 = clo({});", top_args(s.nargs, 3)).unwrap();
    writeln!(o, "        r2 = clo({});", top_args(s.nargs, 2)).unwrap();
    o.push_str("    }\n    let _ = (&r1, &r2);\n");
    o.push_str(&report(s, if nested { "N" } else { "M" }, idx));
    o.push_str("}\n");
    o
}

fn gen_hand_fn(s: &Shape, idx: usize, nested: bool) -> String {
    let mut o = String::new();
    writeln!(o, "fn shape_{}_h{}() {{", idx, if nested { "n" } else { "" }).unwrap();
    o.push_str(&setup(s));
    let mut params: Vec<String> = (0..s.nargs).map(|i| format!("x{}: u64", i)).collect();
    for (i, &(m, sc)) in s.caps.iter().enumerate() {
        params.push(format!("v{}: &{}{}", i, if m { "mut " } else { "" }, ty(sc)));
    }
    let capnames: Vec<String> = (0..s.caps.len()).map(|i| format!("v{}", i)).collect();
    let cn = capnames.clone();
    let rec = move |es: &[String]| {
        let mut a: Vec<String> = es.to_vec();
        a.extend(cn.iter().cloned());
        format!("rec({})", a.join(", "))
    };
    writeln!(o, "    fn rec({}){} {{", params.join(", "), if s.ret { " -> u64" } else { "" }).unwrap();
    o.push_str(&body(s, &rec, nested));
    o.push_str("    }\n");
    let outer: Vec<String> = s.caps.iter().enumerate()
        .map(|(i, &(m, _))| format!("&{}v{}", if m { "mut " } else { "" }, i)).collect();
    for (k, first) in [(1, 3u64), (2, 2u64)] {
        let mut a = vec![top_args(s.nargs, first)];
        a.extend(outer.iter().cloned());
        writeln!(o, "    let r{} = rec({});", k, a.join(", ")).unwrap();
    }
    o.push_str("    let _ = (&r1, &r2);\n");
    o.push_str(&report(s, if nested { "G" } else { "H" }, idx));
    o.push_str("}\n");
    o
}

fn program(shapes: &[(usize, &Shape)]) -> String {
    let mut o = String::from("#![allow(warnings)]\nuse rlib_lambda::rec_lambda;\n");
    for (idx, s) in shapes {
        o.push_str(&gen_macro_fn(s, *idx, false));
        o.push_str(&gen_hand_fn(s, *idx, false));
        if s.ret {
            o.push_str(&gen_macro_fn(s, *idx, true));
            o.push_str(&gen_hand_fn(s, *idx, true));
        }
    }
    o.push_str("fn main() {\n    std::panic::set_hook(Box::new(|_| {}));\n");
    for (idx, _) in shapes {
        writeln!(o, "    if std::panic::catch_unwind(|| shape_{i}_h()).is_err() {{ println!(\"H {i} -996\"); }}", i = idx).unwrap();
        writeln!(o, "    if std::panic::catch_unwind(|| shape_{i}_m()).is_err() {{ println!(\"M {i} -997\"); }}", i = idx).unwrap();
    }
    for (idx, s) in shapes {
        if s.ret {
            writeln!(o, "    if std::panic::catch_unwind(|| shape_{i}_hn()).is_err() {{ println!(\"G {i} -994\"); }}", i = idx).unwrap();
            writeln!(o, "    if std::panic::catch_unwind(|| shape_{i}_mn()).is_err() {{ println!(\"N {i} -995\"); }}", i = idx).unwrap();
        }
    }
    o.push_str("}\n");
    o
}

fn rustc(nightly: bool, args: &[&str], cwd: &Path) -> (bool, String) {
    let mut c = Command::new("rustc");
    if nightly {
        c.arg("+nightly");
    }
    c.args(["--edition", "2021", "--cap-lints", "allow"]).args(args).current_dir(cwd);
    match c.output() {
        Ok(o) => (o.status.success(), String::from_utf8_lossy(if o.status.success() { &o.stdout } else { &o.stderr }).into_owned()),
        Err(e) => (false, format!("cannot run rustc: {}", e)),
    }
}

#[derive(Clone, Default)]
struct Res {
    compiled: bool,
    m: Option<String>,
    h: Option<String>,
    mn: Option<String>, // the variant with a nested recursive call (shapes with a return type)
    hn: Option<String>,
    x: String,
}

/// compile + run the given shapes as one program; false if it does not compile or crashes
fn run_group(work: &Path, name: &str, shapes: &[(usize, &Shape)], res: &mut [Res]) -> bool {
    let src = work.join(format!("{}.rs", name));
    std::fs::write(&src, program(shapes)).unwrap();
    let bin = work.join(name);
    let (ok, _err) = rustc(false, &["--extern", "rlib_lambda=st/librlib_lambda.rlib", "-C", "debuginfo=0",
                                    src.to_str().unwrap(), "-o", bin.to_str().unwrap()], work);
    if !ok {
        return false;
    }
    let (clean, out) = run_with_timeout(&bin, if shapes.len() == 1 { 20 } else { 180 });
    if !clean && shapes.len() > 1 {
        return false; // crashed (stack overflow, abort, timeout): run every shape on its own
    }
    for (idx, _) in shapes {
        res[*idx].compiled = true;
    }
    for line in out.lines() {
        let mut it = line.splitn(3, ' ');
        let tag = it.next().unwrap_or("");
        let idx: usize = match it.next().and_then(|x| x.parse().ok()) { Some(i) => i, None => continue };
        let rest = it.next().unwrap_or("").trim().to_string();
        if idx < res.len() {
            if tag == "M" { res[idx].m = Some(rest); } else if tag == "H" { res[idx].h = Some(rest); }
            else if tag == "N" { res[idx].mn = Some(rest); } else if tag == "G" { res[idx].hn = Some(rest); }
        }
    }
    true
}

/// run a generated program; (exited normally with status 0, stdout)
fn run_with_timeout(bin: &Path, secs: u64) -> (bool, String) {
    use std::io::Read;
    let mut child = match Command::new(bin).stdout(std::process::Stdio::piped()).stderr(std::process::Stdio::null()).spawn() {
        Ok(c) => c,
        Err(_) => return (false, String::new()),
    };
    let mut so = child.stdout.take().unwrap();
    let reader = std::thread::spawn(move || {
        let mut s = String::new();
        let _ = so.read_to_string(&mut s);
        s
    });
    let t0 = std::time::Instant::now();
    let clean = loop {
        match child.try_wait() {
            Ok(Some(st)) => break st.success(),
            Ok(None) => {
                if t0.elapsed().as_secs() >= secs {
                    let _ = child.kill();
                    let _ = child.wait();
                    break false;
                }
                std::thread::sleep(std::time::Duration::from_millis(5));
            }
            Err(_) => break false,
        }
    };
    (clean, reader.join().unwrap_or_default())
}

fn collapse(s: &str) -> String {
    s.split_whitespace().collect::<Vec<_>>().join(" ")
}

/// expansion of the given shapes as one program; false if rustc refuses
fn expand_group(work: &Path, name: &str, shapes: &[(usize, &Shape)], res: &mut [Res]) -> bool {
    let src = work.join(format!("{}.rs", name));
    if !src.exists() {
        std::fs::write(&src, program(shapes)).unwrap();
    }
    let (ok, out) = rustc(true, &["-Zunpretty=expanded", "--extern", "rlib_lambda=ni/librlib_lambda.rlib",
                                  src.to_str().unwrap()], work);
    if !ok {
        return false;
    }
    for (idx, _) in shapes {
        let start = format!("\nfn shape_{}_m() {{", idx);
        if let Some(p) = out.find(&start) {
            let rest = &out[p + 1..];
            let end = rest[1..].find("\nfn ").map(|e| e + 1).unwrap_or(rest.len());
            res[*idx].x = collapse(&rest[..end]);
        }
    }
    true
}

fn main() {
    let stdin = std::io::stdin();
    let shapes: Vec<Shape> = stdin.lock().lines().map(|l| l.unwrap()).filter(|l| !l.trim().is_empty()).map(|l| parse(&l)).collect();
    let repo = std::env::var("C20_REPO").unwrap_or_else(|_| "/repo".to_string());
    let base = std::env::var("C20_WORK").unwrap_or_else(|_| "/verif/harness/target/c20-work".to_string());
    let work: PathBuf = Path::new(&base).join(format!("run-{}", std::process::id()));
    let _ = std::fs::remove_dir_all(&work);
    std::fs::create_dir_all(work.join("st")).unwrap();
    std::fs::create_dir_all(work.join("ni")).unwrap();
    let lib = format!("{}/rlib/lambda/src/lib.rs", repo);
    let mut res: Vec<Res> = vec![Res::default(); shapes.len()];
    let all: Vec<(usize, &Shape)> = shapes.iter().enumerate().collect();

    // the library itself (macro definitions are only checked superficially here)
    let (lib_st, e1) = rustc(false, &["--crate-type", "rlib", "--crate-name", "rlib_lambda", &lib, "--out-dir", "st"], &work);
    let (lib_ni, e2) = rustc(true, &["--crate-type", "rlib", "--crate-name", "rlib_lambda", &lib, "--out-dir", "ni"], &work);
    if !lib_st { eprintln!("c20: rlib_lambda does not compile (stable): {}", e1); }
    if !lib_ni { eprintln!("c20: rlib_lambda does not compile (nightly): {}", e2); }

    let workers = 6usize;
    if lib_st && !all.is_empty() && !run_group(&work, "all", &all, &mut res) {
        // some shape does not compile: find out which, one program per shape
        let chunks: Vec<Vec<(usize, &Shape)>> = (0..workers).map(|w| all.iter().cloned().filter(|(i, _)| i % workers == w).collect()).collect();
        let parts: Vec<Vec<(usize, Res)>> = std::thread::scope(|sc| {
            let hs: Vec<_> = chunks.iter().map(|ch| {
                let work = work.clone();
                let n = shapes.len();
                sc.spawn(move || {
                    let mut out = vec![];
                    for (idx, s) in ch {
                        let mut local = vec![Res::default(); n];
                        run_group(&work, &format!("one_{}", idx), &[(*idx, *s)], &mut local);
                        out.push((*idx, local[*idx].clone()));
                    }
                    out
                })
            }).collect();
            hs.into_iter().map(|h| h.join().unwrap()).collect()
        });
        for p in parts { for (idx, r) in p { res[idx] = r; } }
    }
    if lib_ni && !all.is_empty() && !expand_group(&work, "all", &all, &mut res) {
        let chunks: Vec<Vec<(usize, &Shape)>> = (0..workers).map(|w| all.iter().cloned().filter(|(i, _)| i % workers == w).collect()).collect();
        let parts: Vec<Vec<(usize, String)>> = std::thread::scope(|sc| {
            let hs: Vec<_> = chunks.iter().map(|ch| {
                let work = work.clone();
                let n = shapes.len();
                sc.spawn(move || {
                    let mut out = vec![];
                    for (idx, s) in ch {
                        let mut local = vec![Res::default(); n];
                        expand_group(&work, &format!("one_{}", idx), &[(*idx, *s)], &mut local);
                        out.push((*idx, local[*idx].x.clone()));
                    }
                    out
                })
            }).collect();
            hs.into_iter().map(|h| h.join().unwrap()).collect()
        });
        for p in parts { for (idx, x) in p { res[idx].x = x; } }
    }

    let stdout = std::io::stdout();
    let mut out = std::io::BufWriter::new(stdout.lock());
    for (r, s) in res.iter().zip(shapes.iter()) {
        // a missing line (crash, abort, timeout) must never compare equal to anything
        let mut m = r.m.clone().unwrap_or_else(|| "-999".to_string());
        let mut h = r.h.clone().unwrap_or_else(|| "-998".to_string());
        if s.ret {
            // the nested-call variant: its numbers follow the separator -7
            m = format!("{} -7 {}", m, r.mn.clone().unwrap_or_else(|| "-993".to_string()));
            h = format!("{} -7 {}", h, r.hn.clone().unwrap_or_else(|| "-992".to_string()));
        }
        writeln!(out, "{} ## {} ## {} ## {}", if r.compiled { "OK" } else { "CE" }, m, h,
                 if r.x.is_empty() { "XE" } else { &r.x }).unwrap();
    }
    out.flush().unwrap();
    if std::env::var("C20_KEEP").is_err() {
        let _ = std::fs::remove_dir_all(&work);
    }
}
