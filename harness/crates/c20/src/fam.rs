//! Program families: further uses of `rec_lambda!` on the same invocation shape, each rendered twice (macro version /
//! hand-written recursive fn with a hand-written wrapper closure) from ONE body template, so the two versions differ in
//! nothing but the way the closure is defined and the syntax of the recursive calls.
//!
//!   T  the base body with the recursive calls written in other layouts (vertical multi-line, no spaces)
//!   L  call sites in for / while / match arms / inner closures / vec! / format! / method receivers / operands / ...
//!   E  early exits: `return`, `break` with value out of labelled loops, `?` inside an inner closure
//!   A  argument expressions of recursive calls that read or MUTATE captures (also nested, also without return value)
//!   Y  other argument / capture / return types (references, tuples, arrays, maps, cells, boxed closures, ...)
//!   D<n> linear recursion of depth n
//!   R  the macro site executed in a loop, the closure called repeatedly with repeated arguments, a panic at depth 2
//!      caught by the caller followed by further calls
//!   G  usage contexts: site in a generic fn / a method / a closure, two lambdas with the same recursion name alive,
//!      the closure passed to Fn/FnMut/Copy consumers, boxed, called from an iterator adaptor
//!   N  recursion name equal to a capture / argument / binding name, to a std macro
//!   F  recursion name equal to the name of a free fn (same parameters as the lambda) that the body calls as a function
//!   H<n> history: a body with early returns, the closure invoked n times in a loop (state hidden in the expansion
//!      that accumulates over invocations)
//!   K  (not a program family) the crate's README examples and tests/tests.rs compiled and run
//!   X  (not a program family) the generated program type checks as an edition 2018 and an edition 2024 crate
//!
//! INVOCATION FORM (`Shape::form`, orthogonal to the families: every macro version of the shape, base program included,
//! spells the invocation of the library macro in that form; the generated program has NO crate-level import of it):
//!   u  `use rlib_lambda::rec_lambda;` (inside the function) + `rec_lambda!(..)`
//!   p  full path, nothing imported: `rlib_lambda::rec_lambda!(..)`
//!   r  renamed import: `use rlib_lambda::rec_lambda as rl;` + `rl!(..)`
//!   x  through a `pub use` re-export in a nested module of the program: `crate::inv_forms::nested::rec_lambda!(..)`
//!   m  from inside a macro_rules! of the program: `via_local_macro!(..)` (which hands its tokens to the library macro)
//! In the forms p, r, x, m no macro called `rec_lambda` is in scope at the invocation site.
//!
//! In every macro version the layout of the recursive calls rotates (inline, vertical, compact); with `trailing` every
//! one of them ends with a comma.
use crate::{call_exprs, prelude, setup, top_args, ty, Shape};
use std::cell::Cell;
use std::fmt::Write as _;

pub const FAMS: &str = "TLEAYDRGNFHKX";

pub fn letter(f: &str) -> char {
    f.chars().next().unwrap_or('?')
}

pub fn index(f: &str) -> Option<usize> {
    let l = letter(f);
    let k = FAMS.find(l)?;
    let rest = &f[1..];
    if l == 'D' || l == 'H' {
        if rest.is_empty() || rest.parse::<u64>().is_err() { return None; }
    } else if !rest.is_empty() {
        return None;
    }
    Some(k)
}

pub fn in_program(k: usize) -> bool {
    k < 11
}

// ------------------------------------------------------------------------------------------------ invocation forms
pub const FORMS: &str = "uprxm";

/// crate-level items of every generated program that the forms x and m refer to
pub const FORM_ITEMS: &str = "macro_rules! via_local_macro { ($($t:tt)*) => { rlib_lambda::rec_lambda!($($t)*) }; }\n\
pub mod inv_forms { pub mod nested { pub use rlib_lambda::rec_lambda; } }\n";

/// (import written at the top of the function that contains the invocation, spelling of the macro)
pub fn inv(form: char) -> (&'static str, &'static str) {
    match form {
        'p' => ("", "rlib_lambda::rec_lambda"),
        'r' => ("    use rlib_lambda::rec_lambda as rl;\n", "rl"),
        'x' => ("", "crate::inv_forms::nested::rec_lambda"),
        'm' => ("", "via_local_macro"),
        _ => ("    use rlib_lambda::rec_lambda;\n", "rec_lambda"),
    }
}

/// the import line of the macro version (nothing for the hand-written version)
fn imp(s: &Shape, macro_side: bool) -> &'static str {
    if macro_side { inv(s.form).0 } else { "" }
}

// ------------------------------------------------------------------------------------------------ rendering
pub struct Rend {
    mac: Option<String>, // Some(recursion name) = macro version
    hand: String,        // name of the hand-written fn
    capnames: Vec<String>,
    trailing: bool,
    site: Cell<usize>,
}

impl Rend {
    fn new(s: &Shape, mac: Option<&str>, hand: &str) -> Rend {
        Rend { mac: mac.map(|x| x.to_string()), hand: hand.to_string(), capnames: (0..s.caps.len()).map(|i| format!("v{}", i)).collect(),
               trailing: s.trailing, site: Cell::new(0) }
    }

    pub fn call(&self, es: &[String]) -> String {
        match &self.mac {
            Some(name) => {
                let k = self.site.get();
                self.site.set(k + 1);
                let t = if self.trailing { "," } else { "" };
                match k % 3 {
                    0 => format!("{}!({}{})", name, es.join(", "), t),
                    1 => format!("{}!(\n                    {}{}\n                )", name, es.join(",\n                    "), t),
                    _ => format!("{} ! ({}{})", name, es.join(","), t),
                }
            }
            None => {
                let mut a: Vec<String> = es.to_vec();
                a.extend(self.capnames.iter().cloned());
                format!("{}({})", self.hand, a.join(", "))
            }
        }
    }
}

/// `@C@` = recursive call with the default argument expressions, `@C[e]@` = the same with first argument `e`
/// (`e` may itself contain `@C@`), `@XL@` = last argument, `@PRE@` = prelude
fn fill(tpl: &str, r: &Rend, es: &[String], s: &Shape, pre: &str) -> String {
    let t = tpl.replace("@PRE@", pre).replace("@XL@", &format!("x{}", s.nargs - 1));
    fill_calls(&t, r, es)
}

fn fill_calls(t: &str, r: &Rend, es: &[String]) -> String {
    let mut out = String::new();
    let b = t.as_bytes();
    let mut i = 0;
    while i < b.len() {
        if t[i..].starts_with("@C@") {
            out.push_str(&r.call(es));
            i += 3;
        } else if t[i..].starts_with("@C[") {
            // find the matching `]@`, allowing nested @C[..]@
            let mut depth = 0;
            let mut j = i;
            let mut end = None;
            while j < b.len() {
                if t[j..].starts_with("@C[") {
                    depth += 1;
                    j += 3;
                } else if t[j..].starts_with("]@") {
                    depth -= 1;
                    if depth == 0 {
                        end = Some(j);
                        break;
                    }
                    j += 2;
                } else {
                    j += 1;
                }
            }
            let end = end.expect("unbalanced @C[");
            let inner = fill_calls(&t[i + 3..end], r, es);
            let mut e2 = es.to_vec();
            e2[0] = inner;
            out.push_str(&r.call(&e2));
            i = end + 2;
        } else {
            let ch = t[i..].chars().next().unwrap();
            out.push(ch);
            i += ch.len_utf8();
        }
    }
    out
}

/// renames whole identifiers
fn rename(text: &str, map: &[(String, String)]) -> String {
    let mut out = String::new();
    let cs: Vec<char> = text.chars().collect();
    let mut i = 0;
    while i < cs.len() {
        let c = cs[i];
        if c.is_alphanumeric() || c == '_' {
            let mut j = i;
            while j < cs.len() && (cs[j].is_alphanumeric() || cs[j] == '_') {
                j += 1;
            }
            let w: String = cs[i..j].iter().collect();
            match map.iter().find(|(a, _)| *a == w) {
                Some((_, b)) if !c.is_ascii_digit() => out.push_str(b),
                _ => out.push_str(&w),
            }
            i = j;
        } else {
            out.push(c);
            i += 1;
        }
    }
    out
}

// ------------------------------------------------------------------------------------------------ pieces (base types)
fn caps_decl(s: &Shape) -> String {
    s.caps.iter().enumerate().map(|(i, &(m, sc))| format!("v{}: &{}{}", i, if m { "mut " } else { "" }, ty(sc))).collect::<Vec<_>>().join(", ")
}

fn args_decl(s: &Shape) -> String {
    (0..s.nargs).map(|i| format!("x{}: u64", i)).collect::<Vec<_>>().join(", ")
}

fn ret_decl(s: &Shape) -> &'static str {
    if s.ret { " -> u64" } else { "" }
}

/// definition of `clo`: the macro invocation, or the hand-written recursive fn + wrapper closure
fn clo_def(s: &Shape, macro_side: bool, name: &str, body: &str) -> String {
    clo_def_with(s.form, macro_side, name, "rec", "clo", &caps_decl(s), &args_decl(s), ret_decl(s), ret_decl(s), body,
                 &(0..s.nargs).map(|i| format!("x{}", i)).collect::<Vec<_>>(),
                 &s.caps.iter().enumerate().map(|(i, &(m, _))| format!("&{}v{}", if m { "mut " } else { "" }, i)).collect::<Vec<_>>())
}

#[allow(clippy::too_many_arguments)]
/// `ret` = the declared return type (macro invocation and hand-written fn), `clo_ret` = what the hand-written wrapper
/// closure declares (nothing where a closure cannot repeat the type: `impl Trait`, elided reference lifetimes)
fn clo_def_with(form: char, macro_side: bool, name: &str, hand: &str, binding: &str, caps: &str, args: &str, ret: &str, clo_ret: &str, body: &str,
                argnames: &[String], caprefs: &[String]) -> String {
    let mut o = String::new();
    if macro_side {
        writeln!(o, "        let mut {} = {}!({}, |{}| {{", binding, inv(form).1, name, caps).unwrap();
        writeln!(o, "            |{}|{} {{", args, ret).unwrap();
        o.push_str(body);
        o.push_str("            }\n        });\n");
    } else {
        let mut params = vec![];
        if !args.is_empty() { params.push(args.to_string()); }
        if !caps.is_empty() { params.push(caps.to_string()); }
        writeln!(o, "        fn {}({}){} {{", hand, params.join(", "), ret).unwrap();
        o.push_str(body);
        o.push_str("        }\n");
        let mut a: Vec<String> = argnames.to_vec();
        a.extend(caprefs.iter().cloned());
        writeln!(o, "        let mut {} = |{}|{} {{ {}({}) }};", binding, args, clo_ret, hand, a.join(", ")).unwrap();
    }
    o
}

/// pushes the final state of the mutable captures
fn dump(s: &Shape) -> String {
    let mut o = String::new();
    for (i, &(m, sc)) in s.caps.iter().enumerate() {
        if m {
            if sc {
                writeln!(o, "    out.push(v{});", i).unwrap();
            } else {
                writeln!(o, "    out.push(v{i}.len() as u64); out.push(vh(&v{i}));", i = i).unwrap();
            }
        }
    }
    o
}

fn top_call(s: &Shape, first: u64) -> String {
    top_call_of(s, "clo", &top_args(s.nargs, first))
}

fn top_call_of(s: &Shape, clo: &str, args: &str) -> String {
    if s.ret { format!("        out.push({}({}));\n", clo, args) } else { format!("        {}({}); out.push(0);\n", clo, args) }
}

fn frame(s: &Shape, idx: usize, l: char, macro_side: bool, setup: &str, def: &str, driver: &str, dump: &str) -> String {
    format!("fn shape_{idx}_{side}{l}() {{\n{imp}{setup}    let mut out: Vec<u64> = Vec::new();\n    {{\n{def}{driver}    }}\n{dump}    emit(\"{side}{l}\", {idx}, &out);\n}}\n",
            idx = idx, side = if macro_side { "m" } else { "h" }, l = l, imp = imp(s, macro_side), setup = setup, def = def, driver = driver, dump = dump)
}

// ------------------------------------------------------------------------------------------------ templates
const T_RET: &str = "@PRE@            if x0 == 0 { sh.wrapping_add(@XL@) } else {
                let r1 = @C@;
                let r2 = if x0 % 2 == 1 { @C@ } else { 7 };
                let r3 = if x0 == 2 { @C@ } else { 1 };
                r1.wrapping_mul(3).wrapping_add(r2).wrapping_add(r3).wrapping_add(@XL@)
            }
";
const T_NORET: &str = "@PRE@            if x0 != 0 {
                @C@;
                if x0 % 2 == 1 { @C@; }
                if x0 == 2 { @C@ }
            }
";

const L_RET: &str = "@PRE@            if x0 == 0 { sh.wrapping_add(@XL@) } else {
                let mut acc: u64 = @XL@;
                for k in 0..2u64 { acc = acc.wrapping_mul(7).wrapping_add(@C[k.min(x0 - 1)]@); }
                let mut w = x0;
                while w > 0 { w -= 1; if w + 1 == x0 { acc = acc.wrapping_add(@C[w]@); } }
                acc = acc.wrapping_add(match x0 % 3 { 0 => @C@, 1 => @C@.wrapping_add(1), _ => 4 });
                acc = acc.wrapping_add((0..2u64).map(|k| @C[k.min(x0 - 1)]@).fold(0u64, |a, b| a.wrapping_mul(3).wrapping_add(b)));
                acc = acc.wrapping_add(vec![@C@, 5].iter().fold(0u64, |a, b| a.wrapping_mul(11).wrapping_add(*b)));
                acc = acc.wrapping_add(format!(\"{}\", @C@).len() as u64);
                acc = acc.wrapping_add(@C@.wrapping_add(@C@));
                acc = acc.wrapping_add((@C@ % 1000) + (@C@ % 1000) * 2);
                if @C@ % 2 == 0 { acc = acc.wrapping_add(1); }
                acc = acc.wrapping_add([1u64, 2, 3][(@C@ % 3) as usize]);
                acc = acc.wrapping_add((@C@, 1u64).0 % 10);
                acc = acc.wrapping_add((|z: u64| z % 5)(@C@));
                acc = acc.wrapping_add(*&@C@ % 3);
                acc = acc.wrapping_add(Some(@C@).map(|z| z % 7).unwrap());
                assert!(@C@ <= u64::MAX);
                acc
            }
";
const L_NORET: &str = "@PRE@            if x0 != 0 {
                for k in 0..2u64 { @C[k.min(x0 - 1)]@; }
                let mut w = x0;
                while w > 0 { w -= 1; if w + 1 == x0 { @C[w]@; } }
                match x0 % 3 { 0 => @C@, 1 => { @C@; } _ => {} }
                (0..2u64).for_each(|k| { @C[k.min(x0 - 1)]@; });
                if let Some(k) = x0.checked_sub(1) { @C[k]@ }
                let _ = @C@;
                drop(@C@);
                let u: () = @C@;
                let _ = u;
                assert_eq!(@C@, ());
                let _v = vec![@C@];
                { @C@ }
            }
";

const E_RET: &str = "@PRE@            if x0 == 0 { return sh.wrapping_add(@XL@); }
            let mut acc: u64 = @C@;
            if acc % 3 == 0 { return acc.wrapping_add(1); }
            loop { acc = acc.wrapping_add(@C@); if acc % 2 == 0 { break; } acc = acc.wrapping_add(3); break; }
            let r = 'outer: loop { for k in 0..3u64 { if k == x0 % 3 { break 'outer @C[k.min(x0 - 1)]@; } } break 0; };
            let o: Option<u64> = (|| { let z = Some(@C@)?; if z % 2 == 0 { return None; } Some(z % 9) })();
            if let Some(z) = o { return acc.wrapping_add(z).wrapping_add(r); }
            let q: Result<u64, u64> = (|| { let z = Ok::<u64, u64>(@C@)?; if z % 3 == 0 { Err(z % 4) } else { Ok(z % 5) } })();
            if let Err(z) = q { return acc.wrapping_add(z).wrapping_add(50); }
            return acc.wrapping_mul(3).wrapping_add(r).wrapping_add(@XL@);
";
const E_NORET: &str = "@PRE@            if x0 == 0 { return; }
            @C@;
            if sh % 3 == 0 { return; }
            loop { @C@; if x0 % 2 == 0 { break; } @C@; break; }
            'outer: loop { for k in 0..3u64 { if k == x0 % 3 { @C[k.min(x0 - 1)]@; break 'outer; } } break; }
            if x0 % 2 == 1 { return @C@; }
            @C@;
            return;
";

const R_RET: &str = "@PRE@            if x0 == 1000 { panic!(\"boom\"); }
            if x0 > 1000 { return (@C[x0 - 1]@).wrapping_add(1); }
            if x0 == 0 { sh.wrapping_add(@XL@) } else {
                let r1 = @C@;
                let r2 = if x0 % 2 == 1 { @C@ } else { 7 };
                r1.wrapping_mul(3).wrapping_add(r2).wrapping_add(@XL@)
            }
";
const R_NORET: &str = "@PRE@            if x0 == 1000 { panic!(\"boom\"); }
            if x0 > 1000 { @C[x0 - 1]@; return; }
            if x0 != 0 {
                @C@;
                if x0 % 2 == 1 { @C@; }
            }
";

// ------------------------------------------------------------------------------------------------ simple families
fn simple(s: &Shape, idx: usize, l: char, macro_side: bool, tpl_ret: &str, tpl_noret: &str, firsts: &[u64]) -> String {
    let r = Rend::new(s, if macro_side { Some("f") } else { None }, "rec");
    let body = fill(if s.ret { tpl_ret } else { tpl_noret }, &r, &call_exprs(s.nargs), s, &prelude(s));
    let def = clo_def(s, macro_side, "f", &body);
    let driver: String = firsts.iter().map(|&f| top_call(s, f)).collect();
    frame(s, idx, l, macro_side, &setup(s), &def, &driver, &dump(s))
}

// ------------------------------------------------------------------------------------------------ A: arguments using captures
fn fam_a(s: &Shape, idx: usize, macro_side: bool) -> String {
    if s.caps.is_empty() {
        return simple(s, idx, 'A', macro_side, T_RET, T_NORET, &[3, 2]);
    }
    let r = Rend::new(s, if macro_side { Some("f") } else { None }, "rec");
    // one expression per capture that evaluates to x0 - 1 (or less) and reads or mutates the capture on the way
    let mut firsts: Vec<String> = vec![]; // mutating expressions first
    let mut firsts_ro: Vec<String> = vec![];
    let mut reads: Vec<String> = vec![];
    for (i, &(m, sc)) in s.caps.iter().enumerate() {
        match (m, sc) {
            (true, true) => { firsts.push(format!("{{ *v{i} = v{i}.wrapping_add(1); x0 - 1 }}", i = i)); reads.push(format!("*v{}", i)); }
            (true, false) => {
                firsts.push(format!("{{ v{i}.push(x0); x0 - 1 }}", i = i));
                firsts.push(format!("v{i}.pop().map_or(x0 - 1, |z| (z % 2).min(x0 - 1))", i = i));
                firsts_ro.push(format!("(v{i}.len() as u64).min(x0 - 1)", i = i));
                reads.push(format!("v{}.len() as u64", i));
            }
            (false, true) => { firsts_ro.push(format!("(*v{}).min(x0 - 1)", i)); reads.push(format!("*v{}", i)); }
            (false, false) => { firsts_ro.push(format!("v{}[0].min(x0 - 1)", i)); reads.push(format!("v{}[1]", i)); }
        }
    }
    // at most two of each kind per body, mutating ones first
    firsts.truncate(2);
    firsts_ro.truncate(2);
    firsts.append(&mut firsts_ro);
    // the other arguments read captures too
    let mut es = call_exprs(s.nargs);
    for k in 1..s.nargs {
        es[k] = format!("{}.wrapping_add({})", es[k], reads[k % reads.len()]);
    }
    let mut b = String::from("@PRE@");
    if s.ret {
        b.push_str("            if x0 == 0 { sh.wrapping_add(@XL@) } else {\n                let mut acc: u64 = @XL@;\n");
        for f in firsts.iter().take(4) {
            writeln!(b, "                acc = acc.wrapping_mul(3).wrapping_add(@C[{}]@);", f).unwrap();
        }
        // a recursive call nested in the argument list of another one, next to an expression that mutates a capture
        writeln!(b, "                if x0 >= 2 {{ acc = acc.wrapping_add(@C[(@C[{}]@) % 2]@); }}", firsts[0]).unwrap();
        b.push_str("                acc\n            }\n");
    } else {
        b.push_str("            if x0 != 0 {\n");
        for f in firsts.iter().take(4) {
            writeln!(b, "                @C[{}]@;", f).unwrap();
        }
        writeln!(b, "                if x0 >= 2 {{ @C[{{ @C[{}]@; x0 - 2 }}]@; }}", firsts[0]).unwrap();
        b.push_str("            }\n");
    }
    let body = fill(&b, &r, &es, s, &prelude(s));
    let def = clo_def(s, macro_side, "f", &body);
    let driver = format!("{}{}", top_call(s, 3), top_call(s, 2));
    frame(s, idx, 'A', macro_side, &setup(s), &def, &driver, &dump(s))
}

// ------------------------------------------------------------------------------------------------ D: depth
fn fam_d(s: &Shape, idx: usize, depth: u64, macro_side: bool) -> String {
    let r = Rend::new(s, if macro_side { Some("f") } else { None }, "rec");
    let mut pre = String::from("            let mut sh: u64 = 1;\n");
    for (i, &(m, sc)) in s.caps.iter().enumerate() {
        if !m {
            if sc { writeln!(pre, "            sh = sh.wrapping_mul(3).wrapping_add(*v{});", i).unwrap(); }
            else { writeln!(pre, "            sh = sh.wrapping_mul(3).wrapping_add(v{}[(x0 % 2) as usize]);", i).unwrap(); }
        }
    }
    for (i, &(m, sc)) in s.caps.iter().enumerate() {
        if m {
            if sc { writeln!(pre, "            *v{i} = v{i}.wrapping_mul(31).wrapping_add(sh).wrapping_add(x0);", i = i).unwrap(); }
            else { writeln!(pre, "            if x0 % 1024 == 0 {{ v{i}.push(sh.wrapping_mul(5).wrapping_add(x0)); }}", i = i).unwrap(); }
        }
    }
    let tpl = if s.ret {
        "@PRE@            if x0 == 0 { sh.wrapping_add(@XL@) } else {\n                let r = @C@;\n                r.wrapping_mul(31).wrapping_add(x0).wrapping_add(sh)\n            }\n"
    } else {
        "@PRE@            if x0 != 0 {\n                @C@;\n            }\n"
    };
    let body = fill(tpl, &r, &call_exprs(s.nargs), s, &pre);
    let def = clo_def(s, macro_side, "f", &body);
    let driver = format!("{}{}{}", top_call(s, depth), top_call(s, 3), top_call(s, depth / 2));
    frame(s, idx, 'D', macro_side, &setup(s), &def, &driver, &dump(s))
}

// ------------------------------------------------------------------------------------------------ H: long histories
fn fam_h(s: &Shape, idx: usize, count: u64, macro_side: bool) -> String {
    let r = Rend::new(s, if macro_side { Some("f") } else { None }, "rec");
    let mut pre = String::from("            let mut sh: u64 = 1;\n");
    for (i, &(m, sc)) in s.caps.iter().enumerate() {
        if !m {
            if sc { writeln!(pre, "            sh = sh.wrapping_mul(3).wrapping_add(*v{});", i).unwrap(); }
            else { writeln!(pre, "            sh = sh.wrapping_mul(3).wrapping_add(v{}[(x0 % 2) as usize]);", i).unwrap(); }
        }
    }
    for (i, &(m, sc)) in s.caps.iter().enumerate() {
        if m {
            if sc { writeln!(pre, "            *v{i} = v{i}.wrapping_mul(31).wrapping_add(sh).wrapping_add(x0);", i = i).unwrap(); }
            else { writeln!(pre, "            if v{i}.len() < 64 {{ v{i}.push(sh.wrapping_add(x0)); }} else {{ let k = (sh % 64) as usize; v{i}[k] = v{i}[k].wrapping_mul(7).wrapping_add(sh); }}", i = i).unwrap(); }
        }
    }
    let tpl = if s.ret {
        "@PRE@            if x0 == 0 { return sh.wrapping_add(@XL@); }\n            let r = @C@;\n            if r % 2 == 0 { return r.wrapping_add(1); }\n            r.wrapping_mul(3).wrapping_add(@XL@)\n"
    } else {
        "@PRE@            if x0 == 0 { return; }\n            @C@;\n            if sh % 2 == 0 { return; }\n            if x0 == 1 { @C@; }\n"
    };
    let body = fill(tpl, &r, &call_exprs(s.nargs), s, &pre);
    let def = clo_def(s, macro_side, "f", &body);
    let args: String = std::iter::once("it % 3".to_string()).chain((1..s.nargs).map(|k| format!("it.wrapping_mul({}) % 1000", k + 1))).collect::<Vec<_>>().join(", ");
    let mut driver = format!("        let mut acc: u64 = 0;\n        for it in 0..{}u64 {{\n", count);
    if s.ret {
        writeln!(driver, "            acc = acc.wrapping_mul(31).wrapping_add(clo({}));", args).unwrap();
    } else {
        writeln!(driver, "            clo({});", args).unwrap();
    }
    driver.push_str("        }\n        out.push(acc);\n");
    frame(s, idx, 'H', macro_side, &setup(s), &def, &driver, &dump(s))
}

// ------------------------------------------------------------------------------------------------ R: rounds, repeats, panic
fn setup_salted(s: &Shape, salt: &str) -> String {
    let mut o = String::new();
    for (i, &(m, sc)) in s.caps.iter().enumerate() {
        let init = match (m, sc) {
            (false, false) => format!("vec![{} + {}, {}]", 10 * i + 1, salt, 10 * i + 2),
            (false, true) => format!("{} + {}", 20 + i + 3, salt),
            (true, false) => format!("vec![{}]", salt),
            (true, true) => format!("{} + {}", i + 1, salt),
        };
        writeln!(o, "    let {}v{}: {} = {};", if m { "mut " } else { "" }, i, ty(sc), init).unwrap();
    }
    o
}

fn fam_r(s: &Shape, idx: usize, macro_side: bool) -> String {
    let r = Rend::new(s, if macro_side { Some("f") } else { None }, "rec");
    let body = fill(if s.ret { R_RET } else { R_NORET }, &r, &call_exprs(s.nargs), s, &prelude(s));
    let def = clo_def(s, macro_side, "f", &body);
    let mut o = String::new();
    writeln!(o, "fn shape_{}_{}R() {{\n{}    let mut out: Vec<u64> = Vec::new();\n    for round in 0..3u64 {{", idx, if macro_side { "m" } else { "h" }, imp(s, macro_side)).unwrap();
    o.push_str(&setup_salted(s, "round"));
    o.push_str("    {\n");
    o.push_str(&def);
    for f in [3u64, 2, 3] {
        o.push_str(&top_call(s, f));
    }
    writeln!(o, "        let p = std::panic::catch_unwind(std::panic::AssertUnwindSafe(|| {{ let _ = clo({}); }}));", top_args(s.nargs, 1002)).unwrap();
    o.push_str("        out.push(p.is_err() as u64);\n");
    for f in [2u64, 3] {
        o.push_str(&top_call(s, f));
    }
    o.push_str("    }\n");
    o.push_str(&dump(s));
    writeln!(o, "    }}\n    emit(\"{}R\", {}, &out);\n}}", if macro_side { "m" } else { "h" }, idx).unwrap();
    o
}

// ------------------------------------------------------------------------------------------------ G: usage contexts
fn fam_g(s: &Shape, idx: usize, macro_side: bool) -> String {
    let side = if macro_side { "m" } else { "h" };
    let tpl = if s.ret { T_RET } else { T_NORET };
    let mk_def = |binding: &str, hand: &str| {
        let r = Rend::new(s, if macro_side { Some("f") } else { None }, hand);
        let body = fill(tpl, &r, &call_exprs(s.nargs), s, &prelude(s));
        clo_def_with(s.form, macro_side, "f", hand, binding, &caps_decl(s), &args_decl(s), ret_decl(s), ret_decl(s), &body,
                     &(0..s.nargs).map(|i| format!("x{}", i)).collect::<Vec<_>>(),
                     &s.caps.iter().enumerate().map(|(i, &(m, _))| format!("&{}v{}", if m { "mut " } else { "" }, i)).collect::<Vec<_>>())
    };
    let def = mk_def("clo", "rec");
    let site = format!("{}    {{\n{}{}{}    }}\n{}", setup_salted(s, "salt"), def, top_call(s, 3), top_call(s, 2), dump(s));
    let mut o = String::new();
    writeln!(o, "fn shape_{}_{}G() {{\n{}    let mut out: Vec<u64> = Vec::new();", idx, side, imp(s, macro_side)).unwrap();
    // (a) generic fn
    writeln!(o, "    fn g1<T: Copy + Into<u64>>(t: T, out: &mut Vec<u64>) {{\n    let salt: u64 = t.into();\n{}    }}", site).unwrap();
    o.push_str("    g1::<u32>(5u32, &mut out);\n    g1::<u64>(7u64, &mut out);\n");
    // (b) method
    writeln!(o, "    struct St {{ k: u64 }}\n    impl St {{ fn m(&self, out: &mut Vec<u64>) {{\n    let salt: u64 = self.k;\n{}    }} }}", site).unwrap();
    o.push_str("    St { k: 3 }.m(&mut out);\n");
    // (c) inside a closure
    writeln!(o, "    let mut site_c = |salt: u64, out: &mut Vec<u64>| {{\n{}    }};", site).unwrap();
    o.push_str("    site_c(2, &mut out);\n    site_c(4, &mut out);\n");
    // (d) two lambdas with the same recursion name alive in one scope, called alternately
    let map: Vec<(String, String)> = (0..s.caps.len()).map(|i| (format!("v{}", i), format!("w{}", i))).collect();
    let def2 = rename(&mk_def("clo2", "rec2"), &map);
    o.push_str("    {\n    let salt: u64 = 1;\n");
    o.push_str(&setup_salted(s, "salt"));
    o.push_str(&rename(&setup_salted(s, "(salt + 6)"), &map));
    o.push_str("    {\n");
    o.push_str(&def);
    o.push_str(&def2);
    o.push_str(&top_call_of(s, "clo", &top_args(s.nargs, 3)));
    o.push_str(&top_call_of(s, "clo2", &top_args(s.nargs, 3)));
    o.push_str(&top_call_of(s, "clo", &top_args(s.nargs, 2)));
    o.push_str(&top_call_of(s, "clo2", &top_args(s.nargs, 2)));
    o.push_str("    }\n");
    o.push_str(&dump(s));
    o.push_str(&rename(&dump(s), &map));
    o.push_str("    }\n");
    // (e) the closure as a value: Fn + Copy without &mut captures, FnMut otherwise
    let sig = format!("({}){}", vec!["u64"; s.nargs].join(", "), ret_decl(s));
    let has_mut = s.caps.iter().any(|c| c.0);
    let push = |call: String| if s.ret { format!("out.push({});", call) } else { format!("{}; out.push(0);", call) };
    o.push_str("    {\n    let salt: u64 = 9;\n");
    o.push_str(&setup_salted(s, "salt"));
    o.push_str("    {\n");
    o.push_str(&def);
    if !has_mut {
        writeln!(o, "        fn apply<F: Fn{sig} + Copy>(f: F, out: &mut Vec<u64>) {{ let g = f; {} {} }}", push(format!("f({})", top_args(s.nargs, 3))),
                 push(format!("g({})", top_args(s.nargs, 2))), sig = sig).unwrap();
        o.push_str("        apply(clo, &mut out);\n        apply(clo, &mut out);\n        let c2 = clo;\n");
        writeln!(o, "        {}\n        {}", push(format!("c2({})", top_args(s.nargs, 2))), push(format!("clo({})", top_args(s.nargs, 3)))).unwrap();
        writeln!(o, "        fn by_ref(f: &dyn Fn{sig}, out: &mut Vec<u64>) {{ {} }}\n        by_ref(&clo, &mut out);", push(format!("f({})", top_args(s.nargs, 2))), sig = sig).unwrap();
        if s.ret {
            let rest: String = (1..s.nargs).map(|i| format!(", {}", 4 + i)).collect();
            writeln!(o, "        out.push((0..3u64).map(|k| clo(k{})).fold(0u64, |a, b| a.wrapping_mul(7).wrapping_add(b)));", rest).unwrap();
            if s.nargs == 1 {
                o.push_str("        out.push((0..3u64).map(&clo).fold(0u64, |a, b| a.wrapping_mul(5).wrapping_add(b)));\n");
                o.push_str("        out.push((0..3u64).map(clo).fold(0u64, |a, b| a.wrapping_mul(5).wrapping_add(b)));\n");
            }
        }
        writeln!(o, "        let b: Box<dyn Fn{sig} + '_> = Box::new(clo);\n        {}", push(format!("b({})", top_args(s.nargs, 3))), sig = sig).unwrap();
    } else {
        writeln!(o, "        fn apply_mut<F: FnMut{sig}>(mut f: F, out: &mut Vec<u64>) {{ {} {} }}", push(format!("f({})", top_args(s.nargs, 3))),
                 push(format!("f({})", top_args(s.nargs, 2))), sig = sig).unwrap();
        o.push_str("        apply_mut(&mut clo, &mut out);\n");
        writeln!(o, "        {}", push(format!("clo({})", top_args(s.nargs, 2)))).unwrap();
        if s.ret {
            let rest: String = (1..s.nargs).map(|i| format!(", {}", 4 + i)).collect();
            writeln!(o, "        out.push((0..3u64).map(|k| clo(k{})).fold(0u64, |a, b| a.wrapping_mul(7).wrapping_add(b)));", rest).unwrap();
            if s.nargs == 1 {
                o.push_str("        out.push((0..3u64).map(&mut clo).fold(0u64, |a, b| a.wrapping_mul(5).wrapping_add(b)));\n");
            }
        }
        writeln!(o, "        let mut b: Box<dyn FnMut{sig} + '_> = Box::new(clo);\n        {}", push(format!("b({})", top_args(s.nargs, 3))), sig = sig).unwrap();
    }
    o.push_str("    }\n");
    o.push_str(&dump(s));
    o.push_str("    }\n");
    writeln!(o, "    emit(\"{}G\", {}, &out);\n}}", side, idx).unwrap();
    o
}

// ------------------------------------------------------------------------------------------------ N: names
fn fam_n_items(s: &Shape, idx: usize) -> String {
    // a free fn with the same name as the recursion macro of sub-variant (c); its parameters are the lambda's arguments
    format!("fn nfree_{}({}) -> u64 {{ 1000u64.wrapping_add(x0.wrapping_mul(3)).wrapping_add(x{}) }}\n", idx, args_decl(s), s.nargs - 1)
}

fn fam_n(s: &Shape, idx: usize, l: char, macro_side: bool) -> String {
    let side = if macro_side { "m" } else { "h" };
    let mut o = String::new();
    writeln!(o, "fn shape_{}_{}{}() {{\n{}    let mut out: Vec<u64> = Vec::new();", idx, side, l, imp(s, macro_side)).unwrap();
    let free = format!("nfree_{}", idx);
    let free_args: String = std::iter::once("x0 / 2".to_string()).chain((1..s.nargs).map(|i| format!("x{}", i))).collect::<Vec<_>>().join(", ");
    // (recursion name, binding, renames, uses the free fn)
    let mut variants: Vec<(String, String, Vec<(String, String)>, bool)> = vec![];
    // (a) recursion name = binding = first capture (first argument if there is none)
    let first = if s.caps.is_empty() { "x0".to_string() } else { "v0".to_string() };
    variants.push(("size".into(), "size".into(), vec![(first, "size".into())], false));
    // (b) recursion name = last argument, binding = the same name again
    variants.push(("idx".into(), "idx".into(), vec![(format!("x{}", s.nargs - 1), "idx".into())], false));
    // (c) recursion name = a free fn the body calls as an ordinary function
    variants.push((free.clone(), "clo".into(), vec![], true));
    // (d) recursion name = a macro of the standard library, binding = an ordinary name; last capture named like the macro too
    let mut m = vec![];
    if let Some(i) = s.caps.len().checked_sub(1) { m.push((format!("v{}", i), "vec".to_string())); }
    variants.push(("vec".into(), "vec".into(), m, false));
    for (name, binding, map, use_free) in variants {
        if use_free != (l == 'F') { continue; }
        let r = Rend::new(s, if macro_side { Some(name.as_str()) } else { None }, "rec");
        let mut tpl = String::from("@PRE@");
        if use_free {
            // observable through sh (return value, and the mutable captures of deeper calls via the arguments)
            writeln!(tpl, "            if x0 >= 1 {{ sh = sh.wrapping_add({}({})); }}", free, free_args).unwrap();
            if s.caps.iter().any(|c| c.0) {
                for (i, &(mu, sc)) in s.caps.iter().enumerate() {
                    if mu && sc { writeln!(tpl, "            *v{i} = v{i}.wrapping_add(sh);", i = i).unwrap(); }
                    if mu && !sc { writeln!(tpl, "            v{i}.push(sh);", i = i).unwrap(); }
                }
            }
        }
        if use_free && s.ret {
            // the value of the free fn reaches the result of every level
            tpl.push_str("            if x0 == 0 { sh.wrapping_add(@XL@) } else {\n                let r1 = @C@;\n                let r2 = if x0 % 2 == 1 { @C@ } else { 7 };\n                r1.wrapping_mul(3).wrapping_add(r2).wrapping_add(sh).wrapping_add(@XL@)\n            }\n");
        } else {
            tpl.push_str(&(if s.ret { T_RET } else { T_NORET }).replace("@PRE@", ""));
        }
        let body = fill(&tpl, &r, &call_exprs(s.nargs), s, &prelude(s));
        let def = clo_def_with(s.form, macro_side, &name, "rec", &binding, &caps_decl(s), &args_decl(s), ret_decl(s), ret_decl(s), &body,
                               &(0..s.nargs).map(|i| format!("x{}", i)).collect::<Vec<_>>(),
                               &s.caps.iter().enumerate().map(|(i, &(m, _))| format!("&{}v{}", if m { "mut " } else { "" }, i)).collect::<Vec<_>>());
        let driver = format!("{}{}", top_call_of(s, &binding, &top_args(s.nargs, 3)), top_call_of(s, &binding, &top_args(s.nargs, 2)));
        let text = format!("    {{\n{}    {{\n{}{}    }}\n{}    }}\n", setup(s), def, driver, dump(s));
        o.push_str(&rename(&text, &map));
    }
    writeln!(o, "    emit(\"{}{}\", {}, &out);\n}}", side, l, idx).unwrap();
    o
}

// ------------------------------------------------------------------------------------------------ Y: types
struct ArgTy { ty: &'static str, top: &'static str, d: &'static str, dec: &'static str, pass: &'static str, val: &'static str, first_ok: bool }

/// `{x}` = the parameter, `{k}` = a number, `{j}` = position of the argument
fn arg_ty(c: char) -> ArgTy {
    match c {
        'b' => ArgTy { ty: "usize", top: "{k}", d: "{x} as u64", dec: "{x} - 1", pass: "{x}.wrapping_add(1)", val: "{x} as u64", first_ok: true },
        'c' => ArgTy { ty: "i64", top: "{k}", d: "{x} as u64", dec: "{x} - 1", pass: "{x}.wrapping_add(1)", val: "{x} as u64", first_ok: true },
        'd' => ArgTy { ty: "(u64, u64)", top: "({k}, {k} + 1)", d: "{x}.0", dec: "({x}.0 - 1, {x}.1)", pass: "({x}.1, {x}.0)", val: "{x}.0.wrapping_mul(3).wrapping_add({x}.1)", first_ok: true },
        'e' => ArgTy { ty: "[u64; 2]", top: "[{k}, 7]", d: "{x}[0]", dec: "[{x}[0] - 1, {x}[1]]", pass: "[{x}[1], {x}[0]]", val: "{x}[0].wrapping_mul(5).wrapping_add({x}[1])", first_ok: true },
        'f' => ArgTy { ty: "Option<u64>", top: "Some({k})", d: "{x}.unwrap_or(0)", dec: "{x}.map(|z| z - 1)", pass: "{x}.map(|z| z.wrapping_add(1))", val: "{x}.unwrap_or(3)", first_ok: true },
        'g' => ArgTy { ty: "&[u64]", top: "&buf[..{k}]", d: "{x}.len() as u64", dec: "&{x}[1..]", pass: "{x}", val: "{x}.iter().fold(0u64, |a, b| a.wrapping_mul(3).wrapping_add(*b))", first_ok: true },
        'h' => ArgTy { ty: "String", top: "sbuf[..{k}].to_string()", d: "{x}.len() as u64", dec: "{x}[1..].to_string()", pass: "{x}.clone()", val: "({x}.len() as u64).wrapping_add({x}.bytes().map(|z| z as u64).sum::<u64>())", first_ok: true },
        'i' => ArgTy { ty: "&str", top: "&sbuf[..{k}]", d: "{x}.len() as u64", dec: "&{x}[1..]", pass: "{x}", val: "({x}.len() as u64).wrapping_add({x}.bytes().map(|z| z as u64).sum::<u64>())", first_ok: true },
        'j' => ArgTy { ty: "&mut Vec<u64>", top: "&mut obuf{j}", d: "", dec: "", pass: "{x}", val: "{ {x}.push(d); {x}.len() as u64 }", first_ok: false },
        'k' => ArgTy { ty: "bool", top: "{k} % 2 == 0", d: "", dec: "", pass: "!{x}", val: "{x} as u64", first_ok: false },
        'l' => ArgTy { ty: "Vec<u64>", top: "vec![1u64; {k}]", d: "{x}.len() as u64", dec: "{x}[1..].to_vec()", pass: "{x}.clone()", val: "({x}.len() as u64).wrapping_mul(3)", first_ok: true },
        'm' => ArgTy { ty: "Box<u64>", top: "Box::new({k})", d: "*{x}", dec: "Box::new(*{x} - 1)", pass: "{x}.clone()", val: "*{x}", first_ok: true },
        'n' => ArgTy { ty: "&u64", top: "&nums[{k}]", d: "*{x}", dec: "&(*{x} - 1)", pass: "{x}", val: "*{x}", first_ok: true },
        _ => ArgTy { ty: "u64", top: "{k}", d: "{x}", dec: "{x} - 1", pass: "{x}.wrapping_add(1)", val: "{x}", first_ok: true },
    }
}

struct CapTy { ty: &'static str, init_s: &'static str, init_m: &'static str, read: &'static str, read_m: &'static str, mutate: &'static str, dump: &'static str, dump_shared: bool }

/// `{v}` = the capture (a reference inside the body, the variable itself in init/dump), `{i}` = its index, `d` = depth, `sh` = hash so far
fn cap_ty(c: char) -> CapTy {
    match c {
        'U' => CapTy { ty: "u64", init_s: "23 + {i}", init_m: "{i} + 1", read: "*{v}", read_m: "*{v}", mutate: "*{v} = {v}.wrapping_mul(31).wrapping_add(sh);", dump: "out.push({v});", dump_shared: false },
        'W' => CapTy { ty: "Vec<Vec<usize>>", init_s: "vec![vec![{i} + 1, 2], vec![3]]", init_m: "vec![vec![], vec![]]", read: "{v}[0][(d % 2) as usize] as u64", read_m: "{v}[0].len() as u64",
                       mutate: "{v}[(d % 2) as usize].push((sh % 100) as usize);", dump: "for row in {v}.iter() { out.push(row.len() as u64); for z in row { out.push(*z as u64); } }", dump_shared: false },
        'H' => CapTy { ty: "HashMap<(usize, usize), u64>", init_s: "vec![((0usize, 1usize), 5 + {i} as u64)].into_iter().collect()", init_m: "HashMap::new()", read: "{v}[&(0, 1)]", read_m: "{v}.len() as u64",
                       mutate: "*{v}.entry(((d % 3) as usize, 1usize)).or_insert(0) += sh % 1000;", dump: "{ let mut e: Vec<_> = {v}.iter().collect(); e.sort(); for (k, z) in e { out.push(k.0 as u64); out.push(*z); } }", dump_shared: false },
        'A' => CapTy { ty: "[u64; 3]", init_s: "[{i} + 1, {i} + 2, {i} + 3]", init_m: "[{i}, 0, 1]", read: "{v}[(d % 3) as usize]", read_m: "{v}[0]",
                       mutate: "{v}[(d % 3) as usize] = {v}[((d + 1) % 3) as usize].wrapping_mul(31).wrapping_add(sh);", dump: "out.extend_from_slice(&{v});", dump_shared: false },
        'C' => CapTy { ty: "Cell<u64>", init_s: "Cell::new({i} + 1)", init_m: "Cell::new({i} + 2)", read: "{ {v}.set({v}.get().wrapping_mul(7).wrapping_add(d)); {v}.get() }", read_m: "{v}.get()",
                       mutate: "{ let z = {v}.get().wrapping_mul(13).wrapping_add(sh); *{v}.get_mut() = z; }", dump: "out.push({v}.get());", dump_shared: true },
        'T' => CapTy { ty: "String", init_s: "format!(\"s{}xyz\", {i})", init_m: "String::new()", read: "({v}.len() as u64).wrapping_add({v}.as_bytes()[(d % 2) as usize] as u64)", read_m: "{v}.len() as u64",
                       mutate: "{v}.push_str(&format!(\"{}\", sh % 97));", dump: "out.push({v}.len() as u64); out.push({v}.bytes().fold(0u64, |a, b| a.wrapping_mul(131).wrapping_add(b as u64)));", dump_shared: false },
        'P' => CapTy { ty: "(u64, String)", init_s: "({i} + 4, \"ab\".to_string())", init_m: "({i}, String::new())", read: "{v}.0.wrapping_add({v}.1.len() as u64)", read_m: "{v}.0",
                       mutate: "{v}.0 = {v}.0.wrapping_mul(17).wrapping_add(sh); {v}.1.push('a');", dump: "out.push({v}.0); out.push({v}.1.len() as u64);", dump_shared: false },
        'B' => CapTy { ty: "Box<dyn FnMut(u64) -> u64>", init_s: "Box::new(move |z| z.wrapping_mul(3).wrapping_add({i}))", init_m: "{ let mut c = {i} as u64; Box::new(move |z| { c = c.wrapping_mul(3).wrapping_add(z); c }) }",
                       read: "3", read_m: "5", mutate: "{ let t = (*{v})(sh % 10); sh = sh.wrapping_add(t); }", dump: "out.push({v}(0));", dump_shared: false },
        'F' => CapTy { ty: "fn(u64) -> u64", init_s: "yhelp_a", init_m: "yhelp_a", read: "{v}(d)", read_m: "{v}(d)", mutate: "*{v} = if sh % 2 == 0 { yhelp_a } else { yhelp_b };", dump: "out.push({v}(3));", dump_shared: false },
        'R' => CapTy { ty: "&'static str", init_s: "\"hello\"", init_m: "\"abcdefghijklmnopqrstuvwxyz0123456789\"", read: "({v}.len() as u64).wrapping_add({v}.as_bytes()[(d % 2) as usize] as u64)", read_m: "{v}.len() as u64",
                       mutate: "if {v}.len() > 1 { *{v} = &{v}[1..]; }", dump: "out.push({v}.len() as u64);", dump_shared: false },
        'O' => CapTy { ty: "Option<Box<u64>>", init_s: "Some(Box::new({i} + 9))", init_m: "None", read: "{v}.as_ref().map_or(0, |b| **b)", read_m: "{v}.as_ref().map_or(1, |b| **b)",
                       mutate: "*{v} = Some(Box::new(sh % 50));", dump: "out.push({v}.as_ref().map_or(0, |b| **b));", dump_shared: false },
        _ => CapTy { ty: "Vec<u64>", init_s: "vec![10 * {i} + 1, 10 * {i} + 2]", init_m: "vec![]", read: "{v}[(d % 2) as usize]", read_m: "{v}.len() as u64",
                     mutate: "{v}.push(sh.wrapping_mul(5).wrapping_add({i}));", dump: "out.push({v}.len() as u64); out.push(vh(&{v}));", dump_shared: false },
    }
}

/// `clo` = the hand-written wrapper closure can repeat the type (`impl Trait` is not allowed in closure return types, a
/// reference type with an elided lifetime means something else there)
struct RetTy { ty: &'static str, mk: &'static str, get: &'static str, clo: bool }

/// return types that borrow from the shape's single shared capture `v0: &Vec<u64>` (lifetime elision of the generated
/// fn needs exactly one reference among its parameters)
pub const RET_REFS: &str = "RQ";

/// `{e}` = a u64 expression, `{r}` = a returned value
fn ret_ty(c: char) -> RetTy {
    match c {
        // opaque types: every return site of the body builds the same concrete type
        'I' => RetTy { ty: "impl Iterator<Item = u64>", mk: "{ let z = {e}; vec![z, z % 7].into_iter() }", get: "{ let z: Vec<u64> = ({r}).collect(); z[0].wrapping_add(z[1]).wrapping_add(z.len() as u64) }", clo: false },
        'F' => RetTy { ty: "impl Fn(u64) -> u64", mk: "yhelp_fn({e})", get: "({r})(5)", clo: false },
        'S' => RetTy { ty: "impl Sized", mk: "{e}", get: "{ let z = {r}; std::mem::size_of_val(&z) as u64 }", clo: false },
        'D' => RetTy { ty: "impl std::fmt::Display", mk: "({e}) % 100000", get: "{ let z = format!(\"{}\", {r}); (z.len() as u64).wrapping_add(z.parse::<u64>().unwrap_or(0)) }", clo: false },
        // references derived from the shared capture v0
        'R' => RetTy { ty: "&u64", mk: "&v0[(({e}) % 2) as usize]", get: "*({r})", clo: false },
        'Q' => RetTy { ty: "Option<&u64>", mk: "v0.get((({e}) % 3) as usize)", get: "({r}).copied().unwrap_or(9)", clo: false },
        'n' => RetTy { ty: "()", mk: "{ let _ = {e}; }", get: "{ {r}; 0u64 }", clo: true },
        'b' => RetTy { ty: "bool", mk: "({e}) % 2 == 0", get: "(({r}) as u64)", clo: true },
        't' => RetTy { ty: "(u64, bool)", mk: "{ let z = {e}; (z, z % 3 == 0) }", get: "{ let z = {r}; z.0.wrapping_add(z.1 as u64) }", clo: true },
        'v' => RetTy { ty: "Vec<u64>", mk: "{ let z = {e}; vec![z, z % 7] }", get: "{ let z = {r}; z[0].wrapping_add(z[1]).wrapping_add(z.len() as u64) }", clo: true },
        'o' => RetTy { ty: "Option<u64>", mk: "Some({e})", get: "({r}).unwrap_or(9)", clo: true },
        'r' => RetTy { ty: "Result<u64, String>", mk: "Ok({e})", get: "({r}).unwrap_or(11)", clo: true },
        'x' => RetTy { ty: "Box<u64>", mk: "Box::new({e})", get: "*({r})", clo: true },
        'a' => RetTy { ty: "[u64; 2]", mk: "{ let z = {e}; [z, 1] }", get: "{ let z = {r}; z[0].wrapping_add(z[1]) }", clo: true },
        's' => RetTy { ty: "String", mk: "format!(\"{}\", ({e}) % 100000)", get: "{ let z = {r}; (z.len() as u64).wrapping_add(z.parse::<u64>().unwrap_or(0)) }", clo: true },
        'z' => RetTy { ty: "usize", mk: "(({e}) % 1000000007) as usize", get: "(({r}) as u64)", clo: true },
        _ => RetTy { ty: "u64", mk: "{e}", get: "({r})", clo: true },
    }
}

fn fam_y_items(_s: &Shape, idx: usize) -> String {
    // shared by all Y programs; emitted once per shape under distinct names would be wasteful, so guard by index in the name
    let _ = idx;
    String::new()
}

pub const Y_HELPERS: &str = "fn yhelp_a(z: u64) -> u64 { z.wrapping_mul(2).wrapping_add(1) }\nfn yhelp_b(z: u64) -> u64 { z.wrapping_mul(5).wrapping_add(2) }\n\
fn yhelp_fn(z: u64) -> impl Fn(u64) -> u64 { move |w: u64| z.wrapping_mul(3).wrapping_add(w) }\n";

fn fam_y(s: &Shape, idx: usize, macro_side: bool) -> String {
    let n = s.nargs;
    let atys: Vec<char> = (0..n).map(|k| {
        let c = s.atys.chars().nth(k).unwrap_or('a');
        if k == 0 && !arg_ty(c).first_ok { 'a' } else { c }
    }).collect();
    let mut ctys: Vec<char> = s.caps.iter().enumerate().map(|(i, &(_, sc))| s.ctys.chars().nth(i).unwrap_or(if sc { 'U' } else { 'V' })).collect();
    // a returned reference needs exactly one reference among the parameters of the generated fn: one shared capture
    // (made a Vec<u64>), no reference-typed argument; on any other shape the return type falls back to u64
    let ref_ok = s.caps.len() == 1 && !s.caps[0].0 && !atys.iter().any(|c| "gijn".contains(*c));
    let rc = if !s.ret { '-' } else if RET_REFS.contains(s.rty) && !ref_ok { 'u' } else { s.rty };
    if RET_REFS.contains(rc) { ctys[0] = 'V'; }
    let rty = if s.ret { Some(ret_ty(rc)) } else { None };
    let sub = |t: &str, x: &str, k: &str, j: usize| t.replace("{x}", x).replace("{k}", k).replace("{j}", &j.to_string());
    let r = Rend::new(s, if macro_side { Some("f") } else { None }, "rec");

    // body
    let mut b = String::new();
    writeln!(b, "            let d: u64 = {};", sub(arg_ty(atys[0]).d, "x0", "", 0)).unwrap();
    b.push_str("            let mut sh: u64 = 1;\n");
    for k in 1..n {
        writeln!(b, "            sh = sh.wrapping_mul(5).wrapping_add({});", sub(arg_ty(atys[k]).val, &format!("x{}", k), "", k)).unwrap();
    }
    for (i, &(m, _)) in s.caps.iter().enumerate() {
        let ct = cap_ty(ctys[i]);
        let v = format!("v{}", i);
        let rd = if m { ct.read_m } else { ct.read };
        writeln!(b, "            sh = sh.wrapping_mul(3).wrapping_add({});", rd.replace("{v}", &v).replace("{i}", &i.to_string())).unwrap();
    }
    for (i, &(m, _)) in s.caps.iter().enumerate() {
        if m {
            let ct = cap_ty(ctys[i]);
            writeln!(b, "            {}", ct.mutate.replace("{v}", &format!("v{}", i)).replace("{i}", &i.to_string())).unwrap();
        }
    }
    // recursive call: first argument decremented, the others transformed and passed on
    let mut es: Vec<String> = vec![sub(arg_ty(atys[0]).dec, "x0", "", 0)];
    for k in 1..n {
        let src = k;
        es.push(sub(arg_ty(atys[k]).pass, &format!("x{}", src), "", k));
    }
    match &rty {
        Some(rt) => {
            let mk = |e: &str| rt.mk.replace("{e}", e);
            let get = |rr: &str| rt.get.replace("{r}", rr);
            if rc == 'o' {
                writeln!(b, "            if d == 0 {{ return if sh % 5 == 0 {{ None }} else {{ Some(sh) }}; }}").unwrap();
                writeln!(b, "            let r1 = @C@.unwrap_or(13);\n            let r2 = if d % 2 == 1 {{ @C@? }} else {{ 7 }};").unwrap();
            } else if rc == 'r' {
                writeln!(b, "            if d == 0 {{ return if sh % 5 == 0 {{ Err(format!(\"e{{}}\", sh % 7)) }} else {{ Ok(sh) }}; }}").unwrap();
                writeln!(b, "            let r1 = @C@.unwrap_or(13);\n            let r2 = if d % 2 == 1 {{ @C@? }} else {{ 7 }};").unwrap();
            } else {
                writeln!(b, "            if d == 0 {{ return {}; }}", mk("sh")).unwrap();
                writeln!(b, "            let r1 = {};\n            let r2 = if d % 2 == 1 {{ {} }} else {{ 7 }};", get("@C@"), get("@C@")).unwrap();
            }
            writeln!(b, "            {}", mk("r1.wrapping_mul(3).wrapping_add(r2).wrapping_add(sh)")).unwrap();
        }
        None => {
            b.push_str("            if d != 0 {\n                @C@;\n                if d % 2 == 1 { @C@; }\n            }\n");
        }
    }
    let body = fill_calls(&b, &r, &es);

    // declarations
    let caps = s.caps.iter().enumerate().map(|(i, &(m, _))| {
        let t = cap_ty(ctys[i]).ty;
        // `&&T` is one token and not accepted by the macro (outside the property): write `& &T`
        format!("v{}: &{}{}", i, if m { "mut " } else if t.starts_with('&') { " " } else { "" }, t)
    }).collect::<Vec<_>>().join(", ");
    let args = (0..n).map(|k| format!("x{}: {}", k, arg_ty(atys[k]).ty)).collect::<Vec<_>>().join(", ");
    let ret = match &rty { Some(rt) => format!(" -> {}", rt.ty), None => String::new() };
    let clo_ret = match &rty { Some(rt) if rt.clo => ret.clone(), _ => String::new() };
    let def = clo_def_with(s.form, macro_side, "f", "rec", "clo", &caps, &args, &ret, &clo_ret, &body,
                           &(0..n).map(|i| format!("x{}", i)).collect::<Vec<_>>(),
                           &s.caps.iter().enumerate().map(|(i, &(m, _))| format!("&{}v{}", if m { "mut " } else { "" }, i)).collect::<Vec<_>>());
    let mut st = String::new();
    for (i, &(m, _)) in s.caps.iter().enumerate() {
        let ct = cap_ty(ctys[i]);
        writeln!(st, "    let {}v{}: {} = {};", if m || ctys[i] == 'B' { "mut " } else { "" }, i, ct.ty, (if m { ct.init_m } else { ct.init_s }).replace("{i}", &i.to_string())).unwrap();
    }
    for k in 1..n {
        if atys[k] == 'j' { writeln!(st, "    let mut obuf{}: Vec<u64> = vec![];", k).unwrap(); }
    }
    st.push_str("    let nums: Vec<u64> = (0..12u64).collect();\n");
    // the closure is used from a loop: argument buffers live for one iteration only, so reference-typed arguments need
    // a closure that is general in their lifetimes
    let mut driver = String::from("        for &t in [3usize, 2, 3].iter() {\n            let buf: Vec<u64> = (1..10u64).map(|z| z + t as u64).collect();\n            let sbuf: String = format!(\"abcdefgh{}\", t);\n");
    let tops: Vec<String> = (0..n).map(|k| {
        let kk = match atys[k] {
            'a' | 'd' | 'e' | 'f' | 'm' | 'k' => format!("(t as u64 + {})", k),
            'c' => format!("(t as i64 + {})", k),
            _ => format!("(t + {})", k),
        };
        sub(arg_ty(atys[k]).top, "", &kk, k)
    }).collect();
    let call = format!("clo({})", tops.join(", "));
    match &rty {
        Some(rt) => writeln!(driver, "            let r = {};\n            out.push({});", call, rt.get.replace("{r}", "r")).unwrap(),
        None => writeln!(driver, "            {};\n            out.push(0);", call).unwrap(),
    }
    driver.push_str("        }\n");
    let mut dp = String::new();
    for (i, &(m, _)) in s.caps.iter().enumerate() {
        let ct = cap_ty(ctys[i]);
        if m || ct.dump_shared {
            writeln!(dp, "    {}", ct.dump.replace("{v}", &format!("v{}", i))).unwrap();
        }
    }
    for k in 1..n {
        if atys[k] == 'j' { writeln!(dp, "    out.push(obuf{k}.len() as u64); out.push(vh(&obuf{k}));", k = k).unwrap(); }
    }
    frame(s, idx, 'Y', macro_side, &st, &def, &driver, &dp)
}

// ------------------------------------------------------------------------------------------------ entry points
/// module-level items a family needs (emitted once per shape and family)
pub fn items(s: &Shape, idx: usize, f: &str) -> String {
    match letter(f) {
        'F' => fam_n_items(s, idx),
        'Y' => fam_y_items(s, idx),
        _ => String::new(),
    }
}

pub fn gen(s: &Shape, idx: usize, f: &str, macro_side: bool) -> String {
    match letter(f) {
        'T' => simple(s, idx, 'T', macro_side, T_RET, T_NORET, &[3, 2]),
        'L' => simple(s, idx, 'L', macro_side, L_RET, L_NORET, &[2, 1]),
        'E' => simple(s, idx, 'E', macro_side, E_RET, E_NORET, &[3, 2, 4]),
        'A' => fam_a(s, idx, macro_side),
        'Y' => fam_y(s, idx, macro_side),
        'D' => fam_d(s, idx, f[1..].parse().unwrap_or(1000), macro_side),
        'R' => fam_r(s, idx, macro_side),
        'H' => fam_h(s, idx, f[1..].parse().unwrap_or(1000), macro_side),
        'G' => fam_g(s, idx, macro_side),
        'N' => fam_n(s, idx, 'N', macro_side),
        'F' => fam_n(s, idx, 'F', macro_side),
        _ => String::new(),
    }
}
