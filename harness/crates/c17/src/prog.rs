//! C17: the work one (logical) thread does, shared by the executor (`main.rs`) and the Miri program
//! (`bin/c17_miri.rs`).  Uses only `rlib_treap` and `std`.
//!
//! A job = `draws(k)` direct `TreapNode::new` calls (several instantiations of `T`), then a treap
//! program on a treap the thread owns.  EVERY node the job creates is accounted for: the priority of
//! each node is read back through the public fields right after the creating call
//! (`TreapNode::new`, `Treap::insert_at`, `Treap::from_item`), in creation order.  The program keeps a
//! shadow `Vec` of the sequence, so its results can be checked without knowing the priorities, and at
//! the end walks the tree: heap order, aggregates, in-order ids, and "the priority stored in the node
//! is the one recorded at creation".
#![allow(dead_code)]
use rlib_treap::{Treap, TreapItem, TreapItemSized, TreapNode, TreePrinter};

// ------------------------------------------------------------------------------------------ items
pub trait PI: TreapItem + TreapItemSized + Clone + std::fmt::Debug + Send + 'static {
    fn mk(id: usize, v: i64) -> Self;
    fn id(&self) -> usize;
    /// own value (meaningful once the ancestors have been pushed)
    fn v(&self) -> i64;
    /// sum over the subtree
    fn sum(&self) -> i64;
    /// add `d` to every element of the subtree lazily; `false` if the item type has no lazy tag
    fn add_all(&mut self, d: i64) -> bool;
}

/// plain item: size + sum, default (no-op) `push`
#[derive(Clone, Default)]
pub struct It {
    pub id: usize,
    pub v: i64,
    pub size: usize,
    pub sum: i64,
}
impl std::fmt::Debug for It {
    fn fmt(&self, f: &mut std::fmt::Formatter<'_>) -> std::fmt::Result {
        write!(f, "{}", self.v)
    }
}
impl TreapItem for It {
    fn update(&mut self, l: Option<&Self>, r: Option<&Self>) {
        self.size = 1 + l.map_or(0, |x| x.size) + r.map_or(0, |x| x.size);
        self.sum = self.v + l.map_or(0, |x| x.sum) + r.map_or(0, |x| x.sum);
    }
}
impl TreapItemSized for It {
    fn size(&self) -> usize {
        self.size
    }
}
impl PI for It {
    fn mk(id: usize, v: i64) -> Self {
        It { id, v, size: 1, sum: v }
    }
    fn id(&self) -> usize {
        self.id
    }
    fn v(&self) -> i64 {
        self.v
    }
    fn sum(&self) -> i64 {
        self.sum
    }
    fn add_all(&mut self, _d: i64) -> bool {
        false
    }
}

/// lazy item: range add with a pending tag, non-trivial `push`
#[derive(Clone, Default)]
pub struct Lz {
    pub id: usize,
    pub v: i64,
    pub size: usize,
    pub sum: i64,
    pub tag: i64,
}
impl std::fmt::Debug for Lz {
    fn fmt(&self, f: &mut std::fmt::Formatter<'_>) -> std::fmt::Result {
        write!(f, "{}", self.v)
    }
}
impl Lz {
    fn apply(&mut self, d: i64) {
        self.v += d;
        self.sum += d * self.size as i64;
        self.tag += d;
    }
}
impl TreapItem for Lz {
    fn update(&mut self, l: Option<&Self>, r: Option<&Self>) {
        self.size = 1 + l.map_or(0, |x| x.size) + r.map_or(0, |x| x.size);
        self.sum = self.v + l.map_or(0, |x| x.sum) + r.map_or(0, |x| x.sum);
    }
    fn push(&mut self, l: Option<&mut Self>, r: Option<&mut Self>) {
        if self.tag != 0 {
            if let Some(x) = l {
                x.apply(self.tag);
            }
            if let Some(x) = r {
                x.apply(self.tag);
            }
            self.tag = 0;
        }
    }
}
impl TreapItemSized for Lz {
    fn size(&self) -> usize {
        self.size
    }
}
impl PI for Lz {
    fn mk(id: usize, v: i64) -> Self {
        Lz { id, v, size: 1, sum: v, tag: 0 }
    }
    fn id(&self) -> usize {
        self.id
    }
    fn v(&self) -> i64 {
        self.v
    }
    fn sum(&self) -> i64 {
        self.sum
    }
    fn add_all(&mut self, d: i64) -> bool {
        self.apply(d);
        true
    }
}

// the property is about treaps owned by ONE thread at a time; owning includes handing over
fn assert_send<X: Send>() {}
#[allow(dead_code)]
pub fn static_assertions() {
    assert_send::<Treap<It>>();
    assert_send::<Treap<Lz>>();
    assert_send::<TreapNode<It>>();
    assert_send::<Box<TreapNode<Lz>>>();
}

// ------------------------------------------------------------------------------------ direct draws
/// `k` nodes created by direct calls of `TreapNode::new`, through three instantiations of `T`
/// (all instantiations on one thread must share one generator stream)
pub fn draws(k: usize) -> Vec<u64> {
    (0..k)
        .map(|i| match i % 3 {
            0 => TreapNode::new(i).priority as u64,
            1 => TreapNode::new((i as u8, 'x')).priority as u64,
            _ => TreapNode::new(It::mk(i, i as i64)).priority as u64,
        })
        .collect()
}

/// the reference stream: direct calls of one instantiation only
pub fn solo_draws(n: usize) -> Vec<u64> {
    (0..n).map(|i| TreapNode::new(i).priority as u64).collect()
}

// ------------------------------------------------------------------------------------- the program
/// program kinds: 0 = insert_at/remove_at/split_at/collect (plain items)
///                1 = insert through split_at + from_item + Treap::merge, first/last/root_mut/Debug
///                2 = sorted insertion through split_by + from_item + merge, duplicates, Debug, TreePrinter
///                3 = lazy items: kind 1 construction mixed with range adds (push is not a no-op)
pub const KINDS: usize = 4;

pub struct Run<T: PI> {
    pub tid: usize,
    pub size: usize,
    pub kind: usize,
    t: Treap<T>,
    shadow: Vec<(usize, i64)>,
    /// priority of node `id`, recorded when it was created
    pub prios: Vec<u64>,
    pub out: Vec<i64>,
    pub ok: bool,
}

fn node_at<T: PI>(root: &Option<Box<TreapNode<T>>>, mut pos: usize) -> Option<&TreapNode<T>> {
    let mut cur = root.as_ref()?;
    loop {
        let l = cur.left.as_ref().map_or(0, |x| x.item.size());
        if pos < l {
            cur = cur.left.as_ref()?;
        } else if pos == l {
            return Some(cur);
        } else {
            pos -= l + 1;
            cur = cur.right.as_ref()?;
        }
    }
}

fn hash_str(s: &str) -> i64 {
    let mut h: u64 = 0xcbf29ce484222325;
    for b in s.bytes() {
        h = (h ^ b as u64).wrapping_mul(0x100000001b3);
    }
    (h >> 16) as i64
}

impl<T: PI> Run<T> {
    pub fn new(tid: usize, size: usize, kind: usize) -> Self {
        let t: Treap<T> = Treap::new();
        Run { tid, size, kind, t, shadow: Vec::new(), prios: Vec::new(), out: Vec::new(), ok: true }
    }

    fn check(&mut self, c: bool) {
        self.ok &= c;
    }

    fn take(&mut self) -> Treap<T> {
        std::mem::take(&mut self.t.root).map_or_else(Treap::new, |r| Treap { root: Some(r) })
    }

    /// creation path A: `Treap::insert_at` (-> `TreapNode::new` inside treap.rs)
    fn ins_at(&mut self, pos: usize, v: i64) {
        let id = self.prios.len();
        self.t.insert_at(pos, T::mk(id, v));
        self.shadow.insert(pos, (id, v));
        match node_at(&self.t.root, pos) {
            Some(n) if n.item.id() == id => self.prios.push(n.priority as u64),
            _ => {
                self.ok = false;
                self.prios.push(0);
            }
        }
    }

    /// creation path B: `Treap::from_item`, placed with split_at + two `Treap::merge`
    fn ins_merge(&mut self, pos: usize, v: i64) {
        let id = self.prios.len();
        let (a, b) = self.take().split_at(pos);
        let s = Treap::from_item(T::mk(id, v));
        self.check(!s.is_empty() && s.size() == 1);
        self.prios.push(s.root.as_ref().map_or(0, |n| n.priority as u64));
        self.t = Treap::merge(Treap::merge(a, s), b);
        self.shadow.insert(pos, (id, v));
    }

    /// creation path B through `split_by` (sequence sorted by value; equal values go after)
    fn ins_sorted(&mut self, v: i64) {
        let id = self.prios.len();
        let (a, b) = self.take().split_by(|x| x.v() <= v);
        let pos = self.shadow.partition_point(|x| x.1 <= v);
        self.check(a.size() == pos);
        let s = Treap::from_item(T::mk(id, v));
        self.prios.push(s.root.as_ref().map_or(0, |n| n.priority as u64));
        self.t = Treap::merge(a, Treap::merge(s, b));
        self.shadow.insert(pos, (id, v));
    }

    fn rem(&mut self, pos: usize) {
        let it = self.t.remove_at(pos);
        let (id, v) = self.shadow.remove(pos);
        self.check(it.id() == id && it.v() == v);
        self.out.push(it.v());
    }

    fn add_range(&mut self, l: usize, r: usize, d: i64) {
        let (ab, c) = self.take().split_at(r);
        let (a, mut b) = ab.split_at(l);
        let lazy = b.root_mut().map_or(true, |x| x.add_all(d));
        if lazy {
            for x in &mut self.shadow[l..r] {
                x.1 += d;
            }
        }
        self.t = Treap::merge(a, Treap::merge(b, c));
    }

    fn observe(&mut self) {
        let n = self.shadow.len();
        self.check(self.t.size() == n && self.t.is_empty() == (n == 0));
        self.out.push(self.t.size() as i64);
        let total: i64 = self.shadow.iter().map(|x| x.1).sum();
        let rs = self.t.root().map_or(0, |r| r.sum());
        self.check(rs == total);
        self.out.push(rs);
        let f = self.t.first().map(|x| (x.id(), x.v()));
        let l = self.t.last().map(|x| (x.id(), x.v()));
        self.check(f == self.shadow.first().copied() && l == self.shadow.last().copied());
        self.out.push(f.map_or(-1, |x| x.1));
        self.out.push(l.map_or(-1, |x| x.1));
    }

    fn step(&mut self, i: usize) {
        let tid = self.tid;
        let n = self.shadow.len();
        let v = (i as i64) * 10 + (tid % 10) as i64;
        match self.kind {
            0 => self.ins_at((i * 7 + tid * 3) % (n + 1), v),
            1 | 3 => {
                if i % 2 == 0 {
                    self.ins_at((i * 7 + tid * 3) % (n + 1), v)
                } else {
                    self.ins_merge((i * 5 + tid) % (n + 1), v)
                }
                if self.kind == 3 && i % 3 == 2 {
                    let n = self.shadow.len();
                    let l = (i + tid) % n;
                    let r = l + 1 + (i * 3) % (n - l);
                    self.add_range(l, r, (i as i64 % 7) - 3);
                }
            }
            _ => self.ins_sorted(((i * 37 + tid * 11) % 23) as i64),
        }
    }

    /// first half of the construction (in the hand-off topology: done by the thread that then gives the treap away)
    pub fn phase1(&mut self) {
        for i in 0..self.size / 2 {
            self.step(i);
        }
        self.observe();
    }

    /// second half of the construction, removals, queries, the final walk
    pub fn phase2(&mut self) {
        for i in self.size / 2..self.size {
            self.step(i);
        }
        self.observe();
        let k = self.size;
        for j in 0..k / 3 {
            let n = self.shadow.len();
            self.rem((j * 5 + self.tid) % n);
            if self.kind == 3 && j % 2 == 0 && n > 2 {
                self.add_range(j % (n - 1), n - 1, j as i64 + 1);
            }
        }
        self.observe();
        // collect pushes every pending tag down: afterwards the raw items are the logical sequence
        let got: Vec<(usize, i64)> = self.t.collect().iter().map(|x| (x.id(), x.v())).collect();
        self.check(got == self.shadow);
        self.out.extend(got.iter().map(|x| x.1));
        self.verify();
        if self.kind != 0 {
            // the text formats are the library's business: only "same text / same number of lines as when run alone"
            let dbg = format!("{:?}", self.t);
            self.out.push(hash_str(&dbg));
            let tp = format!("{:?}", TreePrinter::new(&self.t));
            self.out.push(tp.lines().count() as i64);
        }
        // split in the middle, look at both halves, put them back the other way round
        let n = self.shadow.len();
        let (mut a, mut b) = self.take().split_at(n / 2);
        self.out.push(a.size() as i64);
        self.out.extend(b.collect().iter().map(|x| x.v()));
        self.out.extend(a.collect().iter().map(|x| x.v()));
        self.t = Treap::merge(b, a);
        self.shadow.rotate_left(n / 2);
        self.verify();
    }

    /// walk the tree through the public fields
    fn verify(&mut self) {
        struct W<'a> {
            prios: &'a [u64],
            ids: Vec<usize>,
            ok: bool,
            /// parents never above / never below their children: a treap is a heap in ONE of the two
            /// orientations (which one is the library's business)
            min_heap: bool,
            max_heap: bool,
        }
        fn walk<T: PI>(n: &TreapNode<T>, w: &mut W) -> (usize, i64) {
            let mut size = 1;
            let mut sum = n.item.v();
            w.ok &= w.prios.get(n.item.id()) == Some(&(n.priority as u64));
            if let Some(l) = &n.left {
                w.min_heap &= n.priority <= l.priority;
                w.max_heap &= n.priority >= l.priority;
                let (s, m) = walk(l, w);
                size += s;
                sum += m;
            }
            w.ids.push(n.item.id());
            if let Some(r) = &n.right {
                w.min_heap &= n.priority <= r.priority;
                w.max_heap &= n.priority >= r.priority;
                let (s, m) = walk(r, w);
                size += s;
                sum += m;
            }
            w.ok &= n.item.size() == size && n.item.sum() == sum;
            (size, sum)
        }
        // values are only final after a full push: `collect` does that
        let _ = self.t.collect();
        let mut w = W { prios: &self.prios, ids: Vec::new(), ok: true, min_heap: true, max_heap: true };
        if let Some(r) = &self.t.root {
            walk(r, &mut w);
        }
        let ok = w.ok && (w.min_heap || w.max_heap) && w.ids == self.shadow.iter().map(|x| x.0).collect::<Vec<_>>();
        self.ok &= ok;
    }
}

/// a program with its item type chosen by `kind`
pub enum AnyRun {
    P(Run<It>),
    L(Run<Lz>),
}

impl AnyRun {
    pub fn new(tid: usize, size: usize, kind: usize) -> Self {
        if kind == 3 {
            AnyRun::L(Run::new(tid, size, kind))
        } else {
            AnyRun::P(Run::new(tid, size, kind))
        }
    }
    pub fn phase1(&mut self) {
        match self {
            AnyRun::P(r) => r.phase1(),
            AnyRun::L(r) => r.phase1(),
        }
    }
    pub fn phase2(&mut self) {
        match self {
            AnyRun::P(r) => r.phase2(),
            AnyRun::L(r) => r.phase2(),
        }
    }
    pub fn prios(&self) -> &[u64] {
        match self {
            AnyRun::P(r) => &r.prios,
            AnyRun::L(r) => &r.prios,
        }
    }
    pub fn result(&self) -> (Vec<i64>, bool) {
        match self {
            AnyRun::P(r) => (r.out.clone(), r.ok),
            AnyRun::L(r) => (r.out.clone(), r.ok),
        }
    }
}

/// what one logical thread reports: every priority it obtained, in order; program results; integrity
pub struct Report {
    pub prios: Vec<u64>,
    /// `Some(program id)` if this thread finished a program
    pub prog: Option<usize>,
    pub out: Vec<i64>,
    pub ok: bool,
}

impl Report {
    pub fn line(&self) -> String {
        let p = self.prios.iter().map(|x| x.to_string()).collect::<Vec<_>>().join(" ");
        let r = self.out.iter().map(|x| x.to_string()).collect::<Vec<_>>().join(" ");
        format!("L {} # {} # {} # {}", p, self.prog.map_or("-".to_string(), |x| x.to_string()), r, self.ok as u8)
    }
}

/// the whole job of one thread: `k` direct draws, then the whole program `pid`
pub fn job(pid: usize, k: usize, size: usize, kind: usize) -> Report {
    let mut prios = draws(k);
    let mut r = AnyRun::new(pid, size, kind);
    r.phase1();
    r.phase2();
    prios.extend_from_slice(r.prios());
    let (out, ok) = r.result();
    Report { prios, prog: Some(pid), out, ok }
}

/// hand-off, first owner: `k` draws, first half of the program; the treap leaves with the `AnyRun`
pub fn job_first(pid: usize, k: usize, size: usize, kind: usize) -> (Report, AnyRun) {
    let mut prios = draws(k);
    let mut r = AnyRun::new(pid, size, kind);
    r.phase1();
    prios.extend_from_slice(r.prios());
    (Report { prios, prog: None, out: Vec::new(), ok: true }, r)
}

/// hand-off, second owner (another thread): `k` draws, then the rest of the program on the received treap
pub fn job_second(pid: usize, k: usize, mut r: AnyRun) -> Report {
    let mut prios = draws(k);
    let n1 = r.prios().len();
    r.phase2();
    prios.extend_from_slice(&r.prios()[n1..]);
    let (out, ok) = r.result();
    Report { prios, prog: Some(pid), out, ok }
}
