//! Environment probe for checks/c17.py: a two-thread program that does NOT call the library under test
//! (thread-local cell, atomic counter, barrier).  If the real Miri program (c17_miri.rs) ends with an
//! error that is not a report of undefined behaviour, the plugin runs this probe: only when the probe
//! runs cleanly under Miri in the same environment is the failure of the real program attributed to the
//! code under test (deadlock, panic, abort) rather than to a missing / broken Miri installation.
use std::cell::Cell;
use std::sync::atomic::{AtomicU32, Ordering};
use std::sync::{Arc, Barrier};

thread_local! {
    static C: Cell<u32> = Cell::new(1);
}
static N: AtomicU32 = AtomicU32::new(0);

fn main() {
    let b = Arc::new(Barrier::new(2));
    let hs: Vec<_> = (0..2)
        .map(|_| {
            let b = b.clone();
            std::thread::spawn(move || {
                b.wait();
                C.with(|c| c.set(c.get() + 1));
                N.fetch_add(C.with(|c| c.get()), Ordering::SeqCst)
            })
        })
        .collect();
    for h in hs {
        h.join().unwrap();
    }
    println!("probe ok {}", N.load(Ordering::SeqCst));
}
