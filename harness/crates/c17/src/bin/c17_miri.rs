//! Program run under Miri by checks/c17.py.  The same jobs as the executor (../prog.rs), in one process:
//! three threads released by a barrier run whole jobs (direct `TreapNode::new` draws through several
//! instantiations, then a treap program each: insert_at / from_item + merge / split_by / lazy push /
//! remove_at / collect / first / last / Debug / TreePrinter), one of them spawns a nested child in the
//! middle of its stream, one treap is built on one thread and finished on another, and at the end a
//! late thread draws alone.  Printed: one `L` line per logical thread (checked by the plugin like an
//! executor observation) and `S` = the late thread's draws.
#[path = "../prog.rs"]
mod prog;
use prog::{draws, job, job_first, job_second, solo_draws};
use std::sync::{Arc, Barrier};

fn main() {
    let barrier = Arc::new(Barrier::new(3));
    let hs: Vec<_> = (0..3usize)
        .map(|tid| {
            let b = barrier.clone();
            std::thread::spawn(move || {
                b.wait();
                if tid == 2 {
                    let mut head = draws(2);
                    let c = std::thread::spawn(move || job(3, 3, 5, 3));
                    let mut me = job(tid, 2, 6, 2);
                    head.extend_from_slice(&me.prios);
                    me.prios = head;
                    vec![me, c.join().unwrap()]
                } else {
                    vec![job(tid, 4, 6, tid)]
                }
            })
        })
        .collect();
    let mut reps: Vec<_> = hs.into_iter().flat_map(|h| h.join().unwrap()).collect();
    // hand-off: built on one thread, finished on another while a third one draws
    let (first, run) = std::thread::spawn(|| job_first(4, 2, 8, 3)).join().unwrap();
    reps.push(first);
    let other = std::thread::spawn(|| job(5, 3, 4, 1));
    reps.push(std::thread::spawn(move || job_second(4, 1, run)).join().unwrap());
    reps.push(other.join().unwrap());
    for r in &reps {
        println!("{}", r.line());
    }
    let n = reps.iter().map(|r| r.prios.len()).max().unwrap_or(0);
    let solo = std::thread::spawn(move || solo_draws(n)).join().unwrap();
    println!("S {}", solo.iter().map(|x| x.to_string()).collect::<Vec<_>>().join(" "));
}
