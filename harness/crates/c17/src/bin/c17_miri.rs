//! Fixed two-thread program run under Miri by checks/c17.py: both threads create treap nodes
//! (the only shared state such threads could touch is the priority generator).
use rlib_treap::TreapNode;

fn main() {
    let hs: Vec<_> = (0..2)
        .map(|_| std::thread::spawn(|| (0..8).map(|i| TreapNode::new(i).priority).collect::<Vec<u32>>()))
        .collect();
    for h in hs {
        let v = h.join().unwrap();
        println!("{:?}", v);
    }
}
