//! C17 executor.
//!
//! `run TOPO T K P KIND UNEVEN`: logical threads are started according to the topology TOPO; each
//! creates K treap nodes by direct `TreapNode::new` calls and then runs a treap program of P
//! insertions (prog.rs) on a treap it owns, recording the priority of EVERY node it creates, whatever
//! the constructor path (`TreapNode::new`, `Treap::insert_at`, `Treap::from_item`).  Afterwards ONE
//! fresh thread of a fresh process creates as many nodes as all threads together (the stream a single
//! thread sees) and every program is re-run alone.
//! Output: `S <solo...> ; L <thread 0 ...> ; L <thread 1 ...> ; ... ; E <0|1>`
//! E = every program gave the results it gives alone AND every integrity check inside the programs
//! held (shadow sequence, heap order, aggregates, recorded priority == priority stored in the node).
//!
//! topologies: spawn   T threads released by one barrier
//!             main    like spawn, but logical thread 0 is the process's main thread
//!             nested  T workers; each, after K/2 draws, spawns a child that does a whole job while the worker goes on (2T lists)
//!             stagger thread i+1 starts after thread i has exited
//!             handoff T threads build the first half of their treap and exit; T other threads receive the
//!                     treaps (they cross a thread boundary) and finish the programs (2T lists)
//! UNEVEN = 1: thread i draws (i+1)*K nodes.  KIND 0..3 = program kind for every thread, 4 = thread i runs kind i mod 4.
//! `spawn T K` = `run spawn T K min(K,60) 0 0`.
mod prog;
use prog::{job, job_first, job_second, solo_draws, Report, KINDS};
use std::sync::{Arc, Barrier};

#[derive(Clone, Copy)]
struct Par {
    nt: usize,
    k: usize,
    p: usize,
    kind: usize,
    uneven: bool,
}

impl Par {
    /// direct draws of program/thread `pid` (children of the nested topology have pid >= nt)
    fn k_of(&self, pid: usize) -> usize {
        if self.uneven && pid < self.nt {
            (pid + 1) * self.k
        } else {
            self.k
        }
    }
    fn kind_of(&self, pid: usize) -> usize {
        if self.kind >= KINDS {
            pid % KINDS
        } else {
            self.kind
        }
    }
    fn whole(&self, pid: usize) -> Report {
        job(pid, self.k_of(pid), self.p, self.kind_of(pid))
    }
}

fn fmt_prios(v: &[u64]) -> String {
    v.iter().map(|x| x.to_string()).collect::<Vec<_>>().join(" ")
}

/// Every measurement runs in a FRESH child process, so that a process-wide generator (if the code
/// under test has one) starts from its initial state each time, exactly like a thread-local one.
fn child(args: &[String]) -> String {
    // A measurement that does not finish (a thread stuck in a broken lock, a livelock) must not hang the check:
    // the child is killed after CHILD_TIMEOUT_S seconds and the caller's line panics (observation `P`), which
    // neither the model nor the specification accepts.
    const CHILD_TIMEOUT_S: u64 = 120;
    use std::io::Read;
    let mut ch = std::process::Command::new(std::env::current_exe().unwrap())
        .args(args)
        .stdout(std::process::Stdio::piped())
        .spawn()
        .unwrap();
    let mut pipe = ch.stdout.take().unwrap();
    let reader = std::thread::spawn(move || {
        let mut s = String::new();
        let _ = pipe.read_to_string(&mut s);
        s
    });
    let t0 = std::time::Instant::now();
    let status = loop {
        match ch.try_wait().unwrap() {
            Some(st) => break st,
            None if t0.elapsed().as_secs() >= CHILD_TIMEOUT_S => {
                let _ = ch.kill();
                let _ = ch.wait();
                panic!("child did not finish within {} s (deadlock or livelock)", CHILD_TIMEOUT_S);
            }
            None => std::thread::sleep(std::time::Duration::from_millis(5)),
        }
    };
    let out = reader.join().unwrap();
    if !status.success() {
        panic!("child failed");
    }
    out.trim().to_string()
}

fn conc(topo: &str, par: Par) -> Vec<Report> {
    let nt = par.nt;
    match topo {
        "spawn" | "main" => {
            let barrier = Arc::new(Barrier::new(nt));
            let first = if topo == "main" { 1 } else { 0 };
            let hs: Vec<_> = (first..nt)
                .map(|tid| {
                    let b = barrier.clone();
                    std::thread::spawn(move || {
                        b.wait();
                        par.whole(tid)
                    })
                })
                .collect();
            let mut reps = Vec::new();
            if topo == "main" {
                barrier.wait();
                reps.push(par.whole(0));
            }
            reps.extend(hs.into_iter().map(|h| h.join().unwrap()));
            reps
        }
        "nested" => {
            let barrier = Arc::new(Barrier::new(nt));
            let hs: Vec<_> = (0..nt)
                .map(|tid| {
                    let b = barrier.clone();
                    std::thread::spawn(move || {
                        b.wait();
                        let k = par.k_of(tid);
                        let mut head = prog::draws(k / 2);
                        // the child starts while its parent is in the middle of its own stream
                        let c = std::thread::spawn(move || par.whole(nt + tid));
                        let mut me = job(tid, k - k / 2, par.p, par.kind_of(tid));
                        head.extend_from_slice(&me.prios);
                        me.prios = head;
                        (me, c.join().unwrap())
                    })
                })
                .collect();
            let mut ws = Vec::new();
            let mut cs = Vec::new();
            for h in hs {
                let (w, c) = h.join().unwrap();
                ws.push(w);
                cs.push(c);
            }
            ws.extend(cs);
            ws
        }
        "stagger" => (0..nt).map(|tid| std::thread::spawn(move || par.whole(tid)).join().unwrap()).collect(),
        "handoff" => {
            let barrier = Arc::new(Barrier::new(nt));
            let hs: Vec<_> = (0..nt)
                .map(|tid| {
                    let b = barrier.clone();
                    std::thread::spawn(move || {
                        b.wait();
                        job_first(tid, par.k_of(tid), par.p, par.kind_of(tid))
                    })
                })
                .collect();
            // the builders have exited (their thread-locals are gone) before anybody continues
            let (mut reps, runs): (Vec<_>, Vec<_>) = hs.into_iter().map(|h| h.join().unwrap()).unzip();
            let barrier = Arc::new(Barrier::new(nt));
            let hs: Vec<_> = runs
                .into_iter()
                .enumerate()
                .map(|(tid, r)| {
                    let b = barrier.clone();
                    std::thread::spawn(move || {
                        b.wait();
                        job_second(tid, par.k_of(tid), r)
                    })
                })
                .collect();
            reps.extend(hs.into_iter().map(|h| h.join().unwrap()));
            reps
        }
        _ => std::process::exit(3),
    }
}

fn main() {
    let argv: Vec<String> = std::env::args().skip(1).collect();
    if !argv.is_empty() {
        match argv[0].as_str() {
            // one thread alone: N draws
            "solo" => {
                let n: usize = vh::p(&argv[1]);
                println!("{}", fmt_prios(&std::thread::spawn(move || solo_draws(n)).join().unwrap()));
            }
            "conc" | "progs" => {
                let par = Par {
                    nt: vh::p(&argv[2]),
                    k: vh::p(&argv[3]),
                    p: vh::p(&argv[4]),
                    kind: vh::p(&argv[5]),
                    uneven: argv[6] == "1",
                };
                if argv[0] == "conc" {
                    for r in conc(&argv[1], par) {
                        println!("{}", r.line());
                    }
                } else {
                    // every program alone, one after the other, each on a fresh thread after its direct draws
                    let n = if argv[1] == "nested" { 2 * par.nt } else { par.nt };
                    for pid in 0..n {
                        let r = std::thread::spawn(move || par.whole(pid)).join().unwrap();
                        println!("{}", r.line());
                    }
                }
            }
            _ => std::process::exit(3),
        }
        return;
    }
    vh::serve(|t| {
        let a: Vec<String> = match t[0] {
            "spawn" => {
                let k: usize = vh::p(t[2]);
                vec!["spawn".into(), t[1].into(), t[2].into(), k.min(60).to_string(), "0".into(), "0".into()]
            }
            "run" => t[1..7].iter().map(|x| x.to_string()).collect(),
            _ => panic!("unknown op"),
        };
        let conc = child(&[vec!["conc".to_string()], a.clone()].concat());
        // fields of a report line: priorities # program id # results # integrity flag
        let parse = |line: &str| -> (String, String, String, bool) {
            let f: Vec<&str> = line[1..].split('#').map(|x| x.trim()).collect();
            (f[0].to_string(), f[1].to_string(), f[2].to_string(), f[3] == "1")
        };
        let reps: Vec<_> = conc.lines().map(parse).collect();
        let total: usize = reps.iter().map(|r| r.0.split_whitespace().count()).sum();
        let solo = child(&["solo".to_string(), total.to_string()]);
        let progs = child(&[vec!["progs".to_string()], a.clone()].concat());
        let alone: Vec<_> = progs.lines().map(parse).collect();
        let mut s = format!("S {}", solo);
        let mut eq = alone.iter().all(|r| r.3);
        let mut finished = 0;
        for r in &reps {
            s += &format!(" ; L {}", r.0);
            eq &= r.3;
            if r.1 != "-" {
                finished += 1;
                let pid: usize = vh::p(&r.1);
                eq &= alone.get(pid).map_or(false, |x| x.2 == r.2);
            }
        }
        eq &= finished == alone.len();
        s += &format!(" ; E {}", eq as u8);
        s
    });
}
