fn main() {}
