//! C17 executor.  `spawn T K`: T threads start together (barrier); each creates K treap nodes and
//! records their priorities, then runs a treap program on a treap it owns.  Afterwards ONE fresh
//! thread creates T*K nodes (the stream a single thread sees) and every program is re-run alone.
//! Output: `S <solo...> ; L <thread 0 ...> ; L <thread 1 ...> ; ... ; E <0|1>`.
use rlib_treap::{Treap, TreapItem, TreapItemSized, TreapNode};
use std::sync::{Arc, Barrier};

#[derive(Clone, Debug)]
struct It {
    v: i64,
    size: usize,
    sum: i64,
}
impl It {
    fn new(v: i64) -> Self {
        It { v, size: 1, sum: v }
    }
}
impl TreapItem for It {
    fn update(&mut self, l: Option<&Self>, r: Option<&Self>) {
        self.size = 1 + l.map_or(0, |x| x.size) + r.map_or(0, |x| x.size);
        self.sum = self.v + l.map_or(0, |x| x.sum) + r.map_or(0, |x| x.sum);
    }
}
impl TreapItemSized for It {
    fn size(&self) -> usize {
        self.size
    }
}

/// a deterministic treap program: results must not depend on the priorities drawn
fn program(tid: usize, k: usize) -> Vec<i64> {
    let mut t: Treap<It> = Treap::new();
    let mut out = Vec::new();
    for i in 0..k {
        let pos = (i * 7 + tid * 3) % (i + 1);
        t.insert_at(pos, It::new((i as i64) * 10 + tid as i64));
    }
    out.push(t.size() as i64);
    out.push(t.root().map_or(0, |r| r.sum));
    let mut n = k;
    for j in 0..k / 3 {
        let pos = (j * 5 + tid) % n;
        out.push(t.remove_at(pos).v);
        n -= 1;
    }
    let (a, b) = t.split_at(n / 2);
    let mut a = a;
    let mut b = b;
    out.push(a.size() as i64);
    out.extend(b.collect().iter().map(|x| x.v));
    out.extend(a.collect().iter().map(|x| x.v));
    out
}

fn draws(k: usize) -> Vec<u32> {
    (0..k).map(|i| TreapNode::new(i).priority).collect()
}

fn fmt_u32(v: &[u32]) -> String {
    v.iter().map(|x| x.to_string()).collect::<Vec<_>>().join(" ")
}

/// Every measurement runs in a FRESH child process, so that a process-wide generator (if the code
/// under test has one) starts from its initial state each time, exactly like a thread-local one.
fn child(args: &[String]) -> String {
    let out = std::process::Command::new(std::env::current_exe().unwrap()).args(args).output().unwrap();
    if !out.status.success() {
        panic!("child failed");
    }
    String::from_utf8(out.stdout).unwrap().trim().to_string()
}

fn main() {
    let argv: Vec<String> = std::env::args().skip(1).collect();
    if !argv.is_empty() {
        let nt: usize = vh::p(&argv[1]);
        let k: usize = vh::p(&argv[2]);
        match argv[0].as_str() {
            // T threads started on a barrier: K draws each, then the treap program
            "conc" => {
                let barrier = Arc::new(Barrier::new(nt));
                let hs: Vec<_> = (0..nt)
                    .map(|tid| {
                        let b = barrier.clone();
                        std::thread::spawn(move || {
                            b.wait();
                            let d = draws(k);
                            // all recorded draws happen before any program draws (a shared generator
                            // would otherwise interleave them and the first T*K draws would not be ours)
                            b.wait();
                            let r = program(tid, k.min(60));
                            (d, r)
                        })
                    })
                    .collect();
                for h in hs {
                    let (d, r) = h.join().unwrap();
                    println!("L {} # {}", fmt_u32(&d), r.iter().map(|x| x.to_string()).collect::<Vec<_>>().join(" "));
                }
            }
            // one thread alone: T*K draws
            "solo" => println!("{}", fmt_u32(&std::thread::spawn(move || draws(nt * k)).join().unwrap())),
            // every treap program alone, one after the other (each after K draws, like in `conc`)
            "progs" => {
                for tid in 0..nt {
                    let r = std::thread::spawn(move || {
                        let _ = draws(k);
                        program(tid, k.min(60))
                    })
                    .join()
                    .unwrap();
                    println!("{}", r.iter().map(|x| x.to_string()).collect::<Vec<_>>().join(" "));
                }
            }
            _ => std::process::exit(3),
        }
        return;
    }
    vh::serve(|t| match t[0] {
        "spawn" => {
            let a = vec![t[1].to_string(), t[2].to_string()];
            let conc = child(&[vec!["conc".to_string()], a.clone()].concat());
            let solo = child(&[vec!["solo".to_string()], a.clone()].concat());
            let progs = child(&[vec!["progs".to_string()], a.clone()].concat());
            let alone: Vec<&str> = progs.lines().map(|l| l.trim()).collect();
            let mut s = format!("S {}", solo);
            let mut eq = true;
            for (i, line) in conc.lines().enumerate() {
                let (d, r) = line[2..].split_once(" # ").unwrap_or((&line[2..], ""));
                s += &format!(" ; L {}", d.trim());
                eq &= alone.get(i).map_or(false, |x| *x == r.trim());
            }
            s += &format!(" ; E {}", eq as u8);
            s
        }
        _ => panic!("unknown op"),
    });
}
