//! C10 executor.  Floats travel as decimal u64 bit patterns (`f64::to_bits`).
//!   line spec  <ls> ::= B x1 y1 x2 y2   (Line::between)   |   N a b c   (Line::new)
//!                     | R a b c   (struct literal `Line { a, b, c }`)   |   Z   (Line::default())
//!   line <ls>                     -> L a b c          (X ort when `ort()` is not the stored normal)
//!   ll <ls> <ls>                  -> N | S x y
//!   cl cx cy r <ls>               -> N | T x y | I x1 y1 x2 y2
//!   cc ax ay ar bx by br          -> N | E | TI x y | TO x y | I x1 y1 x2 y2
//!   pos cx cy r px py             -> IN | BO | OUT
//!   con <ls> px py                -> 1 | 0
//!   ldist <ls> px py              -> V d                        (Line::dist)
//!   dist x1 y1 x2 y2              -> V d                        (util::dist)
//!   par <ls> <ls>                 -> 1 | 0                      (util::parallel)
//!   pt x1 y1 x2 y2 k              -> V (a+b).x (a+b).y (a-b).x (a-b).y (a*k).x (a*k).y (a/k).x (a/k).y a.dp(b) a.cp(b)
//!                                      a.slen() a.len()         with a = (x1,y1), b = (x2,y2)
//! Internal consistency checks print `X <what>` (no model result matches it): the four receiver forms of Point + and -
//! disagree, `From<Point> for (f64,f64)`, `PartialEq`, `Default` of Point, `Line::ort`, or the iterator of an
//! intersection result (reverse order, count, size_hint) is inconsistent with its forward traversal.
//!   search seed n                 -> OK <counters> | FAIL <what> <harness line of the failing configuration>
//!     (lattice quarter with exact kinds; real-valued configurations incl. extreme radius ratios, near-tangencies and,
//!      one in five, a nearly axis-aligned line / centre line with a direction component of 1e-10 .. 1e-4)
//! A panic prints `P`.
use rlib_geometry::{
    circle::{Circle, PointPosition},
    line::Line,
    point::Point,
    util::{dist, intersect_cc, intersect_cl, intersect_ll, parallel, CircleIntersection, CircleLineIntersection},
};

fn f(s: &str) -> f64 {
    f64::from_bits(vh::p::<u64>(s))
}
fn b(x: f64) -> u64 {
    x.to_bits()
}
fn pt(p: &Point) -> String {
    format!("{} {}", b(p.x), b(p.y))
}

/// parse a line spec starting at t[i]; returns (line, next index)
fn line_spec(t: &[&str], i: usize) -> (Line, usize) {
    match t[i] {
        "B" => (
            Line::between(&Point::new(f(t[i + 1]), f(t[i + 2])), &Point::new(f(t[i + 3]), f(t[i + 4]))),
            i + 5,
        ),
        "N" => (Line::new(f(t[i + 1]), f(t[i + 2]), f(t[i + 3])), i + 4),
        "R" => (Line { a: f(t[i + 1]), b: f(t[i + 2]), c: f(t[i + 3]) }, i + 4),
        "Z" => (Line::default(), i + 1),
        other => {
            eprintln!("harness: bad line spec {}", other);
            std::process::exit(3)
        }
    }
}

/// the points as the IntoIterator impl of the result type reports them; when they are not the points of the variant
/// (same number, same order, same bits) the iterator's view is what gets printed, so the disagreement is visible
fn same_points(a: &[Point], b: &[Point]) -> bool {
    a.len() == b.len() && a.iter().zip(b).all(|(p, q)| p.x.to_bits() == q.x.to_bits() && p.y.to_bits() == q.y.to_bits())
}
fn by_count(tag1: &str, it: &[Point]) -> String {
    match it.len() {
        0 => "N".to_string(),
        1 => format!("{} {}", tag1, pt(&it[0])),
        _ => format!("I {} {}", pt(&it[0]), pt(&it[1])),
    }
}
/// reverse traversal, count and size_hint of the iterator against its forward traversal `fwd`
fn iter_consistent<I: DoubleEndedIterator<Item = Point>, M: Fn() -> I>(mk: M, fwd: &[Point]) -> Option<&'static str> {
    let mut rev: Vec<Point> = mk().rev().collect();
    rev.reverse();
    if !same_points(&rev, fwd) {
        return Some("X iter-rev");
    }
    if mk().count() != fwd.len() {
        return Some("X iter-count");
    }
    let (lo, hi) = mk().size_hint();
    if lo > fwd.len() || hi.map_or(false, |h| h < fwd.len()) {
        return Some("X iter-size-hint");
    }
    // a partially consumed iterator: after one `next` the rest is the tail
    let mut it = mk();
    let first = it.next();
    let rest: Vec<Point> = it.collect();
    let mut again: Vec<Point> = first.into_iter().collect();
    again.extend(rest);
    if !same_points(&again, fwd) {
        return Some("X iter-next");
    }
    None
}
fn show_cl(r: CircleLineIntersection) -> String {
    let (s, pts) = match &r {
        CircleLineIntersection::None => ("N".to_string(), vec![]),
        CircleLineIntersection::Touch(p) => (format!("T {}", pt(p)), vec![*p]),
        CircleLineIntersection::Intersect(p, q) => (format!("I {} {}", pt(p), pt(q)), vec![*p, *q]),
    };
    // the result type is not Clone: rebuild it from the variant's points
    let mk = || {
        match pts.len() {
            0 => CircleLineIntersection::None,
            1 => CircleLineIntersection::Touch(pts[0]),
            _ => CircleLineIntersection::Intersect(pts[0], pts[1]),
        }
        .into_iter()
    };
    let it: Vec<Point> = r.into_iter().collect();
    if !same_points(&pts, &it) {
        return by_count("T", &it);
    }
    match iter_consistent(mk, &it) {
        Some(x) => x.to_string(),
        None => s,
    }
}
fn show_cc(r: CircleIntersection) -> String {
    let (s, pts, tag1) = match &r {
        CircleIntersection::None => ("N".to_string(), vec![], "TO"),
        CircleIntersection::Same => ("E".to_string(), vec![], "TO"),
        CircleIntersection::TouchInside(p) => (format!("TI {}", pt(p)), vec![*p], "TI"),
        CircleIntersection::TouchOutside(p) => (format!("TO {}", pt(p)), vec![*p], "TO"),
        CircleIntersection::Intersect(p, q) => (format!("I {} {}", pt(p), pt(q)), vec![*p, *q], "TO"),
    };
    let it: Vec<Point> = r.into_iter().collect();
    if !same_points(&pts, &it) {
        return by_count(tag1, &it);
    }
    match iter_consistent(|| r.into_iter(), &it) {
        Some(x) => x.to_string(),
        None => s,
    }
}
fn same_pt(p: &Point, q: &Point) -> bool {
    p.x.to_bits() == q.x.to_bits() && p.y.to_bits() == q.y.to_bits()
}

// ------------------------------------------------------------------ implementation-level search
const TOL: f64 = 1e-7;
/// smallest radius of the quantifier (2^-10)
const MIN_R: f64 = 1.0 / 1024.0;

fn hyp(x: f64, y: f64) -> f64 {
    x.hypot(y)
}
fn on_circle(p: &Point, c: &Circle) -> bool {
    (hyp(p.x - c.c.x, p.y - c.c.y) - c.r).abs() <= TOL
}
/// distance from the exact line through u, v (not from the library's normalised coefficients)
fn on_line_uv(p: &Point, u: &Point, v: &Point) -> bool {
    let (dx, dy) = (v.x - u.x, v.y - u.y);
    (((p.x - u.x) * dy - (p.y - u.y) * dx) / hyp(dx, dy)).abs() <= TOL
}

struct R(vh::Sm);
impl R {
    fn u(&mut self) -> f64 {
        (self.0.next() >> 11) as f64 / (1u64 << 53) as f64
    }
    fn range(&mut self, lo: f64, hi: f64) -> f64 {
        lo + (hi - lo) * self.u()
    }
    fn int(&mut self, lo: i64, hi: i64) -> i64 {
        lo + (self.0.next() % ((hi - lo + 1) as u64)) as i64
    }
    fn mag(&mut self) -> f64 {
        match self.0.next() % 4 {
            0 => 1.0,
            1 => 10.0,
            2 => 100.0,
            _ => 1000.0,
        }
    }
}

/// exact kind of two integer circles: 0 none-separate, 1 touch outside, 2 intersect, 3 touch inside, 4 none-contained, 5 same
fn cc_kind_exact(ax: i128, ay: i128, ar: i128, bx: i128, by: i128, br: i128) -> u8 {
    let d2 = (ax - bx) * (ax - bx) + (ay - by) * (ay - by);
    let s = (ar + br) * (ar + br);
    let m = (ar - br) * (ar - br);
    if d2 == 0 && ar == br {
        5
    } else if d2 > s {
        0
    } else if d2 == s {
        1
    } else if d2 > m {
        2
    } else if d2 == m {
        3
    } else {
        4
    }
}
/// exact kind of integer circle vs the line through two integer points: 0 none, 1 touch, 2 intersect
fn cl_kind_exact(cx: i128, cy: i128, r: i128, ux: i128, uy: i128, vx: i128, vy: i128) -> u8 {
    let (a, bb) = (uy - vy, vx - ux);
    let c = -(a * ux + bb * uy);
    let s = a * cx + bb * cy + c;
    let lhs = s * s;
    let rhs = r * r * (a * a + bb * bb);
    if lhs > rhs {
        0
    } else if lhs == rhs {
        1
    } else {
        2
    }
}

/// unit vector that is nearly (not exactly) axial: the small component is log-uniform in 1e-10 .. 1e-4, any signs
fn near_axis_dir(g: &mut R) -> (f64, f64) {
    let beta = (10f64).powf(g.range(-10.0, -4.0)) * if g.0.next() % 2 == 0 { 1.0 } else { -1.0 };
    let big = (1.0 - beta * beta).sqrt() * if g.0.next() % 2 == 0 { 1.0 } else { -1.0 };
    if g.0.next() % 2 == 0 {
        (beta, big)
    } else {
        (big, beta)
    }
}
/// a second defining point that makes the line through `u` nearly (not exactly) vertical or horizontal; a line used as
/// the pivot of a back-substitution loses about 1e-13 divided by the small component
fn near_axis_from(g: &mut R, u: &Point, m: f64) -> Option<Point> {
    let (dx, dy) = near_axis_dir(g);
    let len = g.range(0.05 * m, 2.0 * m);
    let v = Point::new(u.x + dx * len, u.y + dy * len);
    if v.x.abs() > 1024.0 || v.y.abs() > 1024.0 || v.x == u.x || v.y == u.y {
        None
    } else {
        Some(v)
    }
}

fn search(seed: u64, n: u64) -> String {
    let mut g = R(vh::Sm(seed));
    let (mut n_ll, mut n_cl, mut n_cc, mut n_pts, mut n_lat, mut n_axis) = (0u64, 0u64, 0u64, 0u64, 0u64, 0u64);
    let mut worst: f64 = 0.0;
    for it in 0..n {
        let lattice = it % 4 == 0;
        let m = if lattice { 20.0 } else { g.mag() };
        let coord = |g: &mut R| if lattice { g.int(-20, 20) as f64 } else { g.range(-m, m) };
        match it % 3 {
            0 => {
                // line-line; defining points well separated, directions not nearly parallel; one configuration in
                // five (of the real-valued ones) has a nearly axis-aligned line, as first or second argument (likewise
                // the line of a circle-line pair and the centre line of a circle pair below)
                let near_axis = !lattice && it % 5 == 1;
                let (u1, v1, u2, v2) = loop {
                    let u1 = Point::new(coord(&mut g), coord(&mut g));
                    let v1 = if near_axis {
                        match near_axis_from(&mut g, &u1, m) {
                            Some(v) => v,
                            None => continue,
                        }
                    } else {
                        Point::new(coord(&mut g), coord(&mut g))
                    };
                    let u2 = Point::new(coord(&mut g), coord(&mut g));
                    let v2 = Point::new(coord(&mut g), coord(&mut g));
                    let (l1, l2) = (hyp(v1.x - u1.x, v1.y - u1.y), hyp(v2.x - u2.x, v2.y - u2.y));
                    if l1 < 0.05 * m || l2 < 0.05 * m {
                        continue;
                    }
                    let sin = ((v1.x - u1.x) * (v2.y - u2.y) - (v1.y - u1.y) * (v2.x - u2.x)) / (l1 * l2);
                    if sin.abs() < 0.05 {
                        continue;
                    }
                    break (u1, v1, u2, v2);
                };
                // both argument orders
                let (u1, v1, u2, v2) = if near_axis && g.0.next() % 2 == 0 { (u2, v2, u1, v1) } else { (u1, v1, u2, v2) };
                if near_axis {
                    n_axis += 1;
                }
                let line = format!("ll B {} {} B {} {}", pt(&u1), pt(&v1), pt(&u2), pt(&v2));
                match intersect_ll(&Line::between(&u1, &v1), &Line::between(&u2, &v2)) {
                    None => return format!("FAIL ll-kind-none-for-crossing-lines {}", line),
                    Some(p) => {
                        n_pts += 1;
                        if !(on_line_uv(&p, &u1, &v1) && on_line_uv(&p, &u2, &v2)) {
                            return format!("FAIL ll-point-off-line {}", line);
                        }
                    }
                }
                n_ll += 1;
            }
            1 => {
                let r = if lattice { g.int(1, 20) as f64 } else { g.range(0.05 * m, m) };
                let c = Circle::new(Point::new(coord(&mut g), coord(&mut g)), r);
                let near_axis = !lattice && it % 5 == 2;
                let (u, v) = loop {
                    if near_axis {
                        // a nearly axis-aligned line through a point of the box around the circle
                        let u = Point::new(c.c.x + g.range(-1.2 * r, 1.2 * r), c.c.y + g.range(-1.2 * r, 1.2 * r));
                        if u.x.abs() > 1024.0 || u.y.abs() > 1024.0 {
                            continue;
                        }
                        match near_axis_from(&mut g, &u, m) {
                            Some(v) => break (u, v),
                            None => continue,
                        }
                    }
                    let u = Point::new(coord(&mut g), coord(&mut g));
                    let v = Point::new(coord(&mut g), coord(&mut g));
                    if hyp(v.x - u.x, v.y - u.y) >= 0.05 * m {
                        break (u, v);
                    }
                };
                if near_axis {
                    n_axis += 1;
                }
                let line = format!("cl {} {} B {} {}", pt(&c.c), b(c.r), pt(&u), pt(&v));
                let res = intersect_cl(&c, &Line::between(&u, &v));
                let kind = match res {
                    CircleLineIntersection::None => 0u8,
                    CircleLineIntersection::Touch(_) => 1,
                    CircleLineIntersection::Intersect(_, _) => 2,
                };
                if lattice {
                    n_lat += 1;
                    let ex = cl_kind_exact(
                        c.c.x as i128, c.c.y as i128, r as i128, u.x as i128, u.y as i128, v.x as i128, v.y as i128,
                    );
                    if ex != kind {
                        return format!("FAIL cl-kind-exact={}-got={} {}", ex, kind, line);
                    }
                } else {
                    // signed margin of the configuration: | dist(c, line) - r |
                    let (dx, dy) = (v.x - u.x, v.y - u.y);
                    let d = (((c.c.x - u.x) * dy - (c.c.y - u.y) * dx) / hyp(dx, dy)).abs();
                    if d > r + 1e-8 && kind != 0 || d < r - 1e-8 && kind != 2 {
                        return format!("FAIL cl-kind-d-r={:e}-got={} {}", d - r, kind, line);
                    }
                }
                for p in res {
                    n_pts += 1;
                    worst = worst.max((hyp(p.x - c.c.x, p.y - c.c.y) - c.r).abs());
                    if !(on_circle(&p, &c) && on_line_uv(&p, &u, &v)) {
                        return format!("FAIL cl-point-off-object {}", line);
                    }
                }
                n_cl += 1;
            }
            _ => {
                let ra = if lattice { g.int(1, 20) as f64 } else { g.range(0.05 * m, m) };
                let a = Circle::new(Point::new(coord(&mut g), coord(&mut g)), ra);
                let near = !lattice && it % 5 == 0;
                let ratio_cross = !lattice && it % 5 == 1;
                let axis_cross = !lattice && it % 5 == 3;
                let (a, bc) = if near {
                    // radius ratio log-uniform in 1 .. 1e6 (the small radius stays >= 2^-10), 20 EPS .. 1e4 EPS on
                    // either side of the inner / outer tangency
                    let rb = (ra / (10f64).powf(g.range(0.0, 6.0))).max(MIN_R);
                    let delta = [2e-8, 5e-8, 1e-7, 1e-6, 1e-5][(g.0.next() % 5) as usize] * if g.0.next() % 2 == 0 { 1.0 } else { -1.0 };
                    let d = if g.0.next() % 2 == 0 { ra + rb + delta } else { (ra - rb + delta).max(0.0) };
                    let ang = g.range(0.0, std::f64::consts::TAU);
                    (a, Circle::new(Point::new(a.c.x + d * ang.cos(), a.c.y + d * ang.sin()), rb))
                } else if ratio_cross {
                    // a clear crossing at an extreme ratio: large radius 100 .. 1024, small radius log-uniform
                    // 2^-10 .. 1, centre distance ra + t * rb with |t| <= 0.95; every coordinate within 1024
                    let ra = if g.0.next() % 4 == 0 { [1000.0, 1024.0][(g.0.next() % 2) as usize] } else { g.range(100.0, 1024.0) };
                    let rb = MIN_R * (1024f64).powf(g.u());
                    let d = ra + g.range(-0.95, 0.95) * rb;
                    loop {
                        let ang = g.range(0.0, std::f64::consts::TAU);
                        let (co, si) = (ang.cos(), ang.sin());
                        let (sh, w) = (g.u(), g.range(-300.0, 300.0));
                        let ac = Point::new(-sh * d * co - w * si, -sh * d * si + w * co);
                        let bcn = Point::new(ac.x + d * co, ac.y + d * si);
                        if ac.x.abs().max(ac.y.abs()).max(bcn.x.abs()).max(bcn.y.abs()) <= 1024.0 {
                            break (Circle::new(ac, ra), Circle::new(bcn, rb));
                        }
                    }
                } else if axis_cross {
                    // a clear crossing whose centre line is nearly (not exactly) axis-aligned
                    let rb = ra * g.range(0.05, 1.0);
                    let d = (ra - rb) + g.range(0.05, 0.95) * 2.0 * rb;
                    let (dx, dy) = near_axis_dir(&mut g);
                    let bcn = Point::new(a.c.x + d * dx, a.c.y + d * dy);
                    let bcn = if bcn.x.abs().max(bcn.y.abs()) <= 1024.0 {
                        bcn
                    } else {
                        Point::new(a.c.x - d * dx, a.c.y - d * dy)
                    };
                    n_axis += 1;
                    (a, Circle::new(bcn, rb))
                } else {
                    let rb = if lattice { g.int(1, 20) as f64 } else { g.range(0.05 * m, m) };
                    (a, Circle::new(Point::new(coord(&mut g), coord(&mut g)), rb))
                };
                // both argument orders
                let (a, bc) = if !lattice && g.0.next() % 2 == 0 { (bc, a) } else { (a, bc) };
                let ra = a.r;
                let rb = bc.r;
                let line = format!("cc {} {} {} {}", pt(&a.c), b(a.r), pt(&bc.c), b(bc.r));
                let res = intersect_cc(&a, &bc);
                let kind = match res {
                    CircleIntersection::None => 0u8,
                    CircleIntersection::TouchOutside(_) => 1,
                    CircleIntersection::Intersect(_, _) => 2,
                    CircleIntersection::TouchInside(_) => 3,
                    CircleIntersection::Same => 5,
                };
                if lattice {
                    n_lat += 1;
                    let ex = cc_kind_exact(
                        a.c.x as i128, a.c.y as i128, ra as i128, bc.c.x as i128, bc.c.y as i128, rb as i128,
                    );
                    let ex0 = if ex == 4 { 0 } else { ex };
                    if ex0 != kind {
                        return format!("FAIL cc-kind-exact={}-got={} {}", ex, kind, line);
                    }
                } else {
                    let d = hyp(a.c.x - bc.c.x, a.c.y - bc.c.y);
                    let (s, df) = (ra + rb, (ra - rb).abs());
                    let want = if d > s + 1e-8 || d < df - 1e-8 {
                        Some(0)
                    } else if d < s - 1e-8 && d > df + 1e-8 {
                        Some(2)
                    } else {
                        None
                    };
                    if let Some(w) = want {
                        if w != kind {
                            return format!("FAIL cc-kind-want={}-got={} {}", w, kind, line);
                        }
                    }
                }
                for p in res {
                    n_pts += 1;
                    worst = worst
                        .max((hyp(p.x - a.c.x, p.y - a.c.y) - a.r).abs())
                        .max((hyp(p.x - bc.c.x, p.y - bc.c.y) - bc.r).abs());
                    if !(on_circle(&p, &a) && on_circle(&p, &bc)) {
                        return format!("FAIL cc-point-off-circle {}", line);
                    }
                }
                n_cc += 1;
            }
        }
    }
    format!(
        "OK ll={} near_axis={} cl={} cc={} points={} lattice={} worst_circle_residual={:e}",
        n_ll, n_axis, n_cl, n_cc, n_pts, n_lat, worst
    )
}

fn main() {
    vh::serve(|t| match t[0] {
        "line" => {
            let (l, _) = line_spec(t, 1);
            if !same_pt(&l.ort(), &Point::new(l.a, l.b)) {
                return "X ort".to_string();
            }
            let l2 = l; // Copy
            format!("L {} {} {}", b(l2.a), b(l2.b), b(l2.c))
        }
        "ldist" => {
            let (l, i) = line_spec(t, 1);
            format!("V {}", b(l.dist(&Point::new(f(t[i]), f(t[i + 1])))))
        }
        "dist" => format!("V {}", b(dist(&Point::new(f(t[1]), f(t[2])), &Point::new(f(t[3]), f(t[4]))))),
        "par" => {
            let (u, i) = line_spec(t, 1);
            let (v, _) = line_spec(t, i);
            if !same_pt(&u.ort(), &Point::new(u.a, u.b)) || !same_pt(&v.ort(), &Point::new(v.a, v.b)) {
                return "X ort".to_string();
            }
            if parallel(&u, &v) { "1" } else { "0" }.to_string()
        }
        "pt" => {
            let a = Point::new(f(t[1]), f(t[2]));
            let c = Point::new(f(t[3]), f(t[4]));
            let k = f(t[5]);
            let sum = a + c;
            if !(same_pt(&sum, &(a + &c)) && same_pt(&sum, &(&a + &c)) && same_pt(&sum, &(&a + c))) {
                return "X add-forms".to_string();
            }
            let dif = a - c;
            if !(same_pt(&dif, &(a - &c)) && same_pt(&dif, &(&a - &c)) && same_pt(&dif, &(&a - c))) {
                return "X sub-forms".to_string();
            }
            let tup: (f64, f64) = a.into();
            if tup.0.to_bits() != a.x.to_bits() || tup.1.to_bits() != a.y.to_bits() {
                return "X from".to_string();
            }
            #[allow(clippy::eq_op)]
            if (a == c) != (a.x == c.x && a.y == c.y) || (a != c) == (a == c) || (a == a) != (a.x == a.x && a.y == a.y) {
                return "X eq".to_string();
            }
            let z = Point::default();
            if z.x.to_bits() != 0 || z.y.to_bits() != 0 {
                return "X default".to_string();
            }
            let (m, q) = (a * k, a / k);
            format!(
                "V {} {} {} {} {} {} {} {}",
                pt(&sum), pt(&dif), pt(&m), pt(&q), b(a.dp(&c)), b(a.cp(&c)), b(a.slen()), b(a.len())
            )
        }
        "ll" => {
            let (u, i) = line_spec(t, 1);
            let (v, _) = line_spec(t, i);
            match intersect_ll(&u, &v) {
                None => "N".to_string(),
                Some(p) => format!("S {}", pt(&p)),
            }
        }
        "cl" => {
            let c = Circle::new(Point::new(f(t[1]), f(t[2])), f(t[3]));
            let (l, _) = line_spec(t, 4);
            show_cl(intersect_cl(&c, &l))
        }
        "cc" => {
            let a = Circle::new(Point::new(f(t[1]), f(t[2])), f(t[3]));
            let c = Circle::new(Point::new(f(t[4]), f(t[5])), f(t[6]));
            show_cc(intersect_cc(&a, &c))
        }
        "pos" => {
            let c = Circle::new(Point::new(f(t[1]), f(t[2])), f(t[3]));
            match c.position(&Point::new(f(t[4]), f(t[5]))) {
                PointPosition::Inside => "IN",
                PointPosition::Border => "BO",
                PointPosition::Outside => "OUT",
            }
            .to_string()
        }
        "con" => {
            let (l, i) = line_spec(t, 1);
            if l.contains(&Point::new(f(t[i]), f(t[i + 1]))) { "1" } else { "0" }.to_string()
        }
        "search" => search(vh::p::<u64>(t[1]), vh::p::<u64>(t[2])),
        other => {
            eprintln!("harness: unknown op {}", other);
            std::process::exit(3)
        }
    });
}
