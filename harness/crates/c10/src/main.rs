//! C10 executor.  Floats travel as decimal u64 bit patterns (`f64::to_bits`).
//!   line spec  <ls> ::= B x1 y1 x2 y2   (Line::between)   |   N a b c   (Line::new)
//!   line <ls>                     -> L a b c
//!   ll <ls> <ls>                  -> N | S x y
//!   cl cx cy r <ls>               -> N | T x y | I x1 y1 x2 y2
//!   cc ax ay ar bx by br          -> N | E | TI x y | TO x y | I x1 y1 x2 y2
//!   pos cx cy r px py             -> IN | BO | OUT
//!   con <ls> px py                -> 1 | 0
//!   search seed n                 -> OK <counters> | FAIL <what> <harness line of the failing configuration>
//! A panic prints `P`.
use rlib_geometry::{
    circle::{Circle, PointPosition},
    line::Line,
    point::Point,
    util::{intersect_cc, intersect_cl, intersect_ll, CircleIntersection, CircleLineIntersection},
};

fn f(s: &str) -> f64 {
    f64::from_bits(vh::p::<u64>(s))
}
fn b(x: f64) -> u64 {
    x.to_bits()
}
fn pt(p: &Point) -> String {
    format!("{} {}", b(p.x), b(p.y))
}

/// parse a line spec starting at t[i]; returns (line, next index)
fn line_spec(t: &[&str], i: usize) -> (Line, usize) {
    match t[i] {
        "B" => (
            Line::between(&Point::new(f(t[i + 1]), f(t[i + 2])), &Point::new(f(t[i + 3]), f(t[i + 4]))),
            i + 5,
        ),
        "N" => (Line::new(f(t[i + 1]), f(t[i + 2]), f(t[i + 3])), i + 4),
        other => {
            eprintln!("harness: bad line spec {}", other);
            std::process::exit(3)
        }
    }
}

/// the points as the IntoIterator impl of the result type reports them; when they are not the points of the variant
/// (same number, same order, same bits) the iterator's view is what gets printed, so the disagreement is visible
fn same_points(a: &[Point], b: &[Point]) -> bool {
    a.len() == b.len() && a.iter().zip(b).all(|(p, q)| p.x.to_bits() == q.x.to_bits() && p.y.to_bits() == q.y.to_bits())
}
fn by_count(tag1: &str, it: &[Point]) -> String {
    match it.len() {
        0 => "N".to_string(),
        1 => format!("{} {}", tag1, pt(&it[0])),
        _ => format!("I {} {}", pt(&it[0]), pt(&it[1])),
    }
}
fn show_cl(r: CircleLineIntersection) -> String {
    let (s, pts) = match &r {
        CircleLineIntersection::None => ("N".to_string(), vec![]),
        CircleLineIntersection::Touch(p) => (format!("T {}", pt(p)), vec![*p]),
        CircleLineIntersection::Intersect(p, q) => (format!("I {} {}", pt(p), pt(q)), vec![*p, *q]),
    };
    let it: Vec<Point> = r.into_iter().collect();
    if same_points(&pts, &it) { s } else { by_count("T", &it) }
}
fn show_cc(r: CircleIntersection) -> String {
    let (s, pts, tag1) = match &r {
        CircleIntersection::None => ("N".to_string(), vec![], "TO"),
        CircleIntersection::Same => ("E".to_string(), vec![], "TO"),
        CircleIntersection::TouchInside(p) => (format!("TI {}", pt(p)), vec![*p], "TI"),
        CircleIntersection::TouchOutside(p) => (format!("TO {}", pt(p)), vec![*p], "TO"),
        CircleIntersection::Intersect(p, q) => (format!("I {} {}", pt(p), pt(q)), vec![*p, *q], "TO"),
    };
    let it: Vec<Point> = r.into_iter().collect();
    if same_points(&pts, &it) { s } else { by_count(tag1, &it) }
}

// ------------------------------------------------------------------ implementation-level search
const TOL: f64 = 1e-7;

fn hyp(x: f64, y: f64) -> f64 {
    x.hypot(y)
}
fn on_circle(p: &Point, c: &Circle) -> bool {
    (hyp(p.x - c.c.x, p.y - c.c.y) - c.r).abs() <= TOL
}
/// distance from the exact line through u, v (not from the library's normalised coefficients)
fn on_line_uv(p: &Point, u: &Point, v: &Point) -> bool {
    let (dx, dy) = (v.x - u.x, v.y - u.y);
    (((p.x - u.x) * dy - (p.y - u.y) * dx) / hyp(dx, dy)).abs() <= TOL
}

struct R(vh::Sm);
impl R {
    fn u(&mut self) -> f64 {
        (self.0.next() >> 11) as f64 / (1u64 << 53) as f64
    }
    fn range(&mut self, lo: f64, hi: f64) -> f64 {
        lo + (hi - lo) * self.u()
    }
    fn int(&mut self, lo: i64, hi: i64) -> i64 {
        lo + (self.0.next() % ((hi - lo + 1) as u64)) as i64
    }
    fn mag(&mut self) -> f64 {
        match self.0.next() % 4 {
            0 => 1.0,
            1 => 10.0,
            2 => 100.0,
            _ => 1000.0,
        }
    }
}

/// exact kind of two integer circles: 0 none-separate, 1 touch outside, 2 intersect, 3 touch inside, 4 none-contained, 5 same
fn cc_kind_exact(ax: i128, ay: i128, ar: i128, bx: i128, by: i128, br: i128) -> u8 {
    let d2 = (ax - bx) * (ax - bx) + (ay - by) * (ay - by);
    let s = (ar + br) * (ar + br);
    let m = (ar - br) * (ar - br);
    if d2 == 0 && ar == br {
        5
    } else if d2 > s {
        0
    } else if d2 == s {
        1
    } else if d2 > m {
        2
    } else if d2 == m {
        3
    } else {
        4
    }
}
/// exact kind of integer circle vs the line through two integer points: 0 none, 1 touch, 2 intersect
fn cl_kind_exact(cx: i128, cy: i128, r: i128, ux: i128, uy: i128, vx: i128, vy: i128) -> u8 {
    let (a, bb) = (uy - vy, vx - ux);
    let c = -(a * ux + bb * uy);
    let s = a * cx + bb * cy + c;
    let lhs = s * s;
    let rhs = r * r * (a * a + bb * bb);
    if lhs > rhs {
        0
    } else if lhs == rhs {
        1
    } else {
        2
    }
}

fn search(seed: u64, n: u64) -> String {
    let mut g = R(vh::Sm(seed));
    let (mut n_ll, mut n_cl, mut n_cc, mut n_pts, mut n_lat) = (0u64, 0u64, 0u64, 0u64, 0u64);
    let mut worst: f64 = 0.0;
    for it in 0..n {
        let lattice = it % 4 == 0;
        let m = if lattice { 20.0 } else { g.mag() };
        let coord = |g: &mut R| if lattice { g.int(-20, 20) as f64 } else { g.range(-m, m) };
        match it % 3 {
            0 => {
                // line-line; defining points well separated, directions not nearly parallel
                let (u1, v1, u2, v2) = loop {
                    let u1 = Point::new(coord(&mut g), coord(&mut g));
                    let v1 = Point::new(coord(&mut g), coord(&mut g));
                    let u2 = Point::new(coord(&mut g), coord(&mut g));
                    let v2 = Point::new(coord(&mut g), coord(&mut g));
                    let (l1, l2) = (hyp(v1.x - u1.x, v1.y - u1.y), hyp(v2.x - u2.x, v2.y - u2.y));
                    if l1 < 0.05 * m || l2 < 0.05 * m {
                        continue;
                    }
                    let sin = ((v1.x - u1.x) * (v2.y - u2.y) - (v1.y - u1.y) * (v2.x - u2.x)) / (l1 * l2);
                    if sin.abs() < 0.05 {
                        continue;
                    }
                    break (u1, v1, u2, v2);
                };
                let line = format!("ll B {} {} B {} {}", pt(&u1), pt(&v1), pt(&u2), pt(&v2));
                match intersect_ll(&Line::between(&u1, &v1), &Line::between(&u2, &v2)) {
                    None => return format!("FAIL ll-kind-none-for-crossing-lines {}", line),
                    Some(p) => {
                        n_pts += 1;
                        if !(on_line_uv(&p, &u1, &v1) && on_line_uv(&p, &u2, &v2)) {
                            return format!("FAIL ll-point-off-line {}", line);
                        }
                    }
                }
                n_ll += 1;
            }
            1 => {
                let r = if lattice { g.int(1, 20) as f64 } else { g.range(0.05 * m, m) };
                let c = Circle::new(Point::new(coord(&mut g), coord(&mut g)), r);
                let (u, v) = loop {
                    let u = Point::new(coord(&mut g), coord(&mut g));
                    let v = Point::new(coord(&mut g), coord(&mut g));
                    if hyp(v.x - u.x, v.y - u.y) >= 0.05 * m {
                        break (u, v);
                    }
                };
                let line = format!("cl {} {} B {} {}", pt(&c.c), b(c.r), pt(&u), pt(&v));
                let res = intersect_cl(&c, &Line::between(&u, &v));
                let kind = match res {
                    CircleLineIntersection::None => 0u8,
                    CircleLineIntersection::Touch(_) => 1,
                    CircleLineIntersection::Intersect(_, _) => 2,
                };
                if lattice {
                    n_lat += 1;
                    let ex = cl_kind_exact(
                        c.c.x as i128, c.c.y as i128, r as i128, u.x as i128, u.y as i128, v.x as i128, v.y as i128,
                    );
                    if ex != kind {
                        return format!("FAIL cl-kind-exact={}-got={} {}", ex, kind, line);
                    }
                } else {
                    // signed margin of the configuration: | dist(c, line) - r |
                    let (dx, dy) = (v.x - u.x, v.y - u.y);
                    let d = (((c.c.x - u.x) * dy - (c.c.y - u.y) * dx) / hyp(dx, dy)).abs();
                    if d > r + 1e-8 && kind != 0 || d < r - 1e-8 && kind != 2 {
                        return format!("FAIL cl-kind-d-r={:e}-got={} {}", d - r, kind, line);
                    }
                }
                for p in res {
                    n_pts += 1;
                    worst = worst.max((hyp(p.x - c.c.x, p.y - c.c.y) - c.r).abs());
                    if !(on_circle(&p, &c) && on_line_uv(&p, &u, &v)) {
                        return format!("FAIL cl-point-off-object {}", line);
                    }
                }
                n_cl += 1;
            }
            _ => {
                let ra = if lattice { g.int(1, 20) as f64 } else { g.range(0.05 * m, m) };
                let a = Circle::new(Point::new(coord(&mut g), coord(&mut g)), ra);
                let near = !lattice && it % 5 == 0;
                let bc = if near {
                    // radius ratio up to 1e3:1, 20 EPS .. 1e4 EPS on either side of the inner / outer tangency
                    let rb = ra / g.range(1.0, 1000.0);
                    let delta = [2e-8, 5e-8, 1e-7, 1e-6, 1e-5][(g.0.next() % 5) as usize] * if g.0.next() % 2 == 0 { 1.0 } else { -1.0 };
                    let d = if g.0.next() % 2 == 0 { ra + rb + delta } else { (ra - rb + delta).max(0.0) };
                    let ang = g.range(0.0, std::f64::consts::TAU);
                    Circle::new(Point::new(a.c.x + d * ang.cos(), a.c.y + d * ang.sin()), rb)
                } else {
                    let rb = if lattice { g.int(1, 20) as f64 } else { g.range(0.05 * m, m) };
                    Circle::new(Point::new(coord(&mut g), coord(&mut g)), rb)
                };
                let rb = bc.r;
                let line = format!("cc {} {} {} {}", pt(&a.c), b(a.r), pt(&bc.c), b(bc.r));
                let res = intersect_cc(&a, &bc);
                let kind = match res {
                    CircleIntersection::None => 0u8,
                    CircleIntersection::TouchOutside(_) => 1,
                    CircleIntersection::Intersect(_, _) => 2,
                    CircleIntersection::TouchInside(_) => 3,
                    CircleIntersection::Same => 5,
                };
                if lattice {
                    n_lat += 1;
                    let ex = cc_kind_exact(
                        a.c.x as i128, a.c.y as i128, ra as i128, bc.c.x as i128, bc.c.y as i128, rb as i128,
                    );
                    let ex0 = if ex == 4 { 0 } else { ex };
                    if ex0 != kind {
                        return format!("FAIL cc-kind-exact={}-got={} {}", ex, kind, line);
                    }
                } else {
                    let d = hyp(a.c.x - bc.c.x, a.c.y - bc.c.y);
                    let (s, df) = (ra + rb, (ra - rb).abs());
                    let want = if d > s + 1e-8 || d < df - 1e-8 {
                        Some(0)
                    } else if d < s - 1e-8 && d > df + 1e-8 {
                        Some(2)
                    } else {
                        None
                    };
                    if let Some(w) = want {
                        if w != kind {
                            return format!("FAIL cc-kind-want={}-got={} {}", w, kind, line);
                        }
                    }
                }
                for p in res {
                    n_pts += 1;
                    worst = worst
                        .max((hyp(p.x - a.c.x, p.y - a.c.y) - a.r).abs())
                        .max((hyp(p.x - bc.c.x, p.y - bc.c.y) - bc.r).abs());
                    if !(on_circle(&p, &a) && on_circle(&p, &bc)) {
                        return format!("FAIL cc-point-off-circle {}", line);
                    }
                }
                n_cc += 1;
            }
        }
    }
    format!("OK ll={} cl={} cc={} points={} lattice={} worst_circle_residual={:e}", n_ll, n_cl, n_cc, n_pts, n_lat, worst)
}

fn main() {
    vh::serve(|t| match t[0] {
        "line" => {
            let (l, _) = line_spec(t, 1);
            format!("L {} {} {}", b(l.a), b(l.b), b(l.c))
        }
        "ll" => {
            let (u, i) = line_spec(t, 1);
            let (v, _) = line_spec(t, i);
            match intersect_ll(&u, &v) {
                None => "N".to_string(),
                Some(p) => format!("S {}", pt(&p)),
            }
        }
        "cl" => {
            let c = Circle::new(Point::new(f(t[1]), f(t[2])), f(t[3]));
            let (l, _) = line_spec(t, 4);
            show_cl(intersect_cl(&c, &l))
        }
        "cc" => {
            let a = Circle::new(Point::new(f(t[1]), f(t[2])), f(t[3]));
            let c = Circle::new(Point::new(f(t[4]), f(t[5])), f(t[6]));
            show_cc(intersect_cc(&a, &c))
        }
        "pos" => {
            let c = Circle::new(Point::new(f(t[1]), f(t[2])), f(t[3]));
            match c.position(&Point::new(f(t[4]), f(t[5]))) {
                PointPosition::Inside => "IN",
                PointPosition::Border => "BO",
                PointPosition::Outside => "OUT",
            }
            .to_string()
        }
        "con" => {
            let (l, i) = line_spec(t, 1);
            if l.contains(&Point::new(f(t[i]), f(t[i + 1]))) { "1" } else { "0" }.to_string()
        }
        "search" => search(vh::p::<u64>(t[1]), vh::p::<u64>(t[2])),
        other => {
            eprintln!("harness: unknown op {}", other);
            std::process::exit(3)
        }
    });
}
