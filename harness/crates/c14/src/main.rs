//! C14 executor (rlib_rand).  One line in, one line out; `P` = the call panicked.
//!
//!   int <ty> <form> <s> <e> <k> raw1..rawk      -> R v1|P ... vk|P      (gen_from_u64 per raw)
//!   reach <ty> <form> <s> <e> <k>               -> R v|P for raw = 0..k-1
//!   f64 <startbits> <endbits> <raw>             -> R <bits> | P
//!   raw <seed> <n>                              -> R r1..rn              (Rng::next_raw)
//!   stream <ty> <form> <s> <e> <seed> <n>       -> R v1..vn | P          (Rng::next(range))
//!   copy <seed> <k> <n>                         -> R a1..an b1..bn       (k draws, copy, n draws each)
//!   shufs <k> raw1..rawk <m> e1..em             -> R e'1..e'm | P        (shuffle, scripted source)
//!   shufr <n> <k> seed1..seedk                  -> R (n numbers per seed)(shuffle of 0..n, real Rng)
//! searches (used by extra(), never by a proof):
//!   orders <n> <nseeds> <seed0>                 -> O <distinct> <chi2*1000> <min> <max>
//!   witness <n> <limit>                         -> W seed per order (lexicographic rank order) | W fail <found>
//!   period <k> <seed> <n> <maxp>                -> T <smallest p <= maxp with x[i]=x[i+p] for all i, or 0>
//!   <form> is one of range incl to toincl full; unused bounds are given as 0.
use rlib_rand::randomable::Randomable;
use rlib_rand::{Rand, Rng};
use vh::{guarded, p};

/// a source replaying given raw words; running past the script panics
struct Scripted {
    raws: Vec<u64>,
    pos: usize,
}
impl Rand for Scripted {
    fn next<T, R>(&mut self, range: R) -> T
    where
        R: Randomable<T>,
    {
        let r = self.raws[self.pos];
        self.pos += 1;
        range.gen_from_u64(r)
    }
}

macro_rules! draw {
    ($t:ty, $form:expr, $s:expr, $e:expr, $raw:expr) => {{
        let s = $s as $t;
        let e = $e as $t;
        let v: $t = match $form {
            "range" => (s..e).gen_from_u64($raw),
            "incl" => (s..=e).gen_from_u64($raw),
            "to" => (..e).gen_from_u64($raw),
            "toincl" => (..=e).gen_from_u64($raw),
            "full" => <std::ops::RangeFull as Randomable<$t>>::gen_from_u64(.., $raw),
            other => {
                eprintln!("harness: unknown form {}", other);
                std::process::exit(3)
            }
        };
        v as i128
    }};
}

macro_rules! rng_draw {
    ($t:ty, $form:expr, $s:expr, $e:expr, $g:expr) => {{
        let s = $s as $t;
        let e = $e as $t;
        let v: $t = match $form {
            "range" => $g.next(s..e),
            "incl" => $g.next(s..=e),
            "to" => $g.next(..e),
            "toincl" => $g.next(..=e),
            "full" => $g.next::<$t, _>(..),
            other => {
                eprintln!("harness: unknown form {}", other);
                std::process::exit(3)
            }
        };
        v as i128
    }};
}

macro_rules! by_type {
    ($ty:expr, $mac:ident, $($args:expr),*) => {
        match $ty {
            "i8" => $mac!(i8, $($args),*),
            "u8" => $mac!(u8, $($args),*),
            "i16" => $mac!(i16, $($args),*),
            "u16" => $mac!(u16, $($args),*),
            "i32" => $mac!(i32, $($args),*),
            "u32" => $mac!(u32, $($args),*),
            "i64" => $mac!(i64, $($args),*),
            "u64" => $mac!(u64, $($args),*),
            "isize" => $mac!(isize, $($args),*),
            "usize" => $mac!(usize, $($args),*),
            other => {
                eprintln!("harness: unknown type {}", other);
                std::process::exit(3)
            }
        }
    };
}

fn gen_one(ty: &str, form: &str, s: i128, e: i128, raw: u64) -> i128 {
    by_type!(ty, draw, form, s, e, raw)
}

fn rng_one(ty: &str, form: &str, s: i128, e: i128, g: &mut Rng) -> i128 {
    by_type!(ty, rng_draw, form, s, e, g)
}

fn fmt_opt(v: Option<i128>) -> String {
    match v {
        Some(x) => x.to_string(),
        None => "P".to_string(),
    }
}

fn perm_rank(v: &[usize]) -> usize {
    // lexicographic rank
    let n = v.len();
    let mut r = 0;
    for i in 0..n {
        let smaller = v[i + 1..].iter().filter(|&&x| x < v[i]).count();
        r = r * (n - i) + smaller;
    }
    r
}

fn factorial(n: usize) -> usize {
    (1..=n).product()
}

fn main() {
    vh::serve(|t| match t[0] {
        "int" => {
            let (ty, form) = (t[1], t[2]);
            let (s, e): (i128, i128) = (p(t[3]), p(t[4]));
            let k: usize = p(t[5]);
            let mut out = vec!["R".to_string()];
            for i in 0..k {
                let raw: u64 = p(t[6 + i]);
                out.push(fmt_opt(guarded(|| gen_one(ty, form, s, e, raw))));
            }
            out.join(" ")
        }
        "reach" => {
            let (ty, form) = (t[1], t[2]);
            let (s, e): (i128, i128) = (p(t[3]), p(t[4]));
            let k: u64 = p(t[5]);
            let mut out = vec!["R".to_string()];
            for raw in 0..k {
                out.push(fmt_opt(guarded(|| gen_one(ty, form, s, e, raw))));
            }
            out.join(" ")
        }
        "f64" => {
            let s = f64::from_bits(p::<u64>(t[1]));
            let e = f64::from_bits(p::<u64>(t[2]));
            let raw: u64 = p(t[3]);
            let x: f64 = (s..e).gen_from_u64(raw);
            format!("R {}", x.to_bits())
        }
        "raw" => {
            let mut g = Rng::from_seed(p(t[1]));
            let n: usize = p(t[2]);
            let mut out = vec!["R".to_string()];
            for _ in 0..n {
                out.push(g.next_raw().to_string());
            }
            out.join(" ")
        }
        "stream" => {
            let (ty, form) = (t[1], t[2]);
            let (s, e): (i128, i128) = (p(t[3]), p(t[4]));
            let mut g = Rng::from_seed(p(t[5]));
            let n: usize = p(t[6]);
            let mut out = vec!["R".to_string()];
            for _ in 0..n {
                out.push(rng_one(ty, form, s, e, &mut g).to_string());
            }
            out.join(" ")
        }
        "copy" => {
            let mut g = Rng::from_seed(p(t[1]));
            let k: usize = p(t[2]);
            let n: usize = p(t[3]);
            for _ in 0..k {
                g.next_raw();
            }
            let mut h = g; // Copy
            let mut out = vec!["R".to_string()];
            let mut bs = vec![];
            // interleaved on purpose: a shared hidden state would show up as a difference
            for _ in 0..n {
                out.push(g.next_raw().to_string());
                bs.push(h.next_raw().to_string());
            }
            out.extend(bs);
            out.join(" ")
        }
        "shufs" => {
            let k: usize = p(t[1]);
            let raws: Vec<u64> = (0..k).map(|i| p(t[2 + i])).collect();
            let m: usize = p(t[2 + k]);
            let mut v: Vec<i64> = (0..m).map(|i| p(t[3 + k + i])).collect();
            let mut src = Scripted { raws, pos: 0 };
            src.shuffle(&mut v);
            let mut out = vec!["R".to_string()];
            out.extend(v.iter().map(|x| x.to_string()));
            out.join(" ")
        }
        "shufr" => {
            let n: usize = p(t[1]);
            let k: usize = p(t[2]);
            let mut out = vec!["R".to_string()];
            for i in 0..k {
                let mut g = Rng::from_seed(p(t[3 + i]));
                let mut v: Vec<usize> = (0..n).collect();
                g.shuffle(&mut v);
                out.extend(v.iter().map(|x| x.to_string()));
            }
            out.join(" ")
        }
        "orders" => {
            let n: usize = p(t[1]);
            let nseeds: u64 = p(t[2]);
            let seed0: u64 = p(t[3]);
            let f = factorial(n);
            let mut cnt = vec![0u64; f];
            for i in 0..nseeds {
                let mut g = Rng::from_seed(seed0.wrapping_add(i));
                let mut v: Vec<usize> = (0..n).collect();
                g.shuffle(&mut v);
                cnt[perm_rank(&v)] += 1;
            }
            let distinct = cnt.iter().filter(|&&c| c > 0).count();
            let exp = nseeds as f64 / f as f64;
            let chi2: f64 = cnt.iter().map(|&c| (c as f64 - exp) * (c as f64 - exp) / exp).sum();
            format!(
                "O {} {} {} {}",
                distinct,
                (chi2 * 1000.0) as u64,
                cnt.iter().min().unwrap(),
                cnt.iter().max().unwrap()
            )
        }
        "witness" => {
            let n: usize = p(t[1]);
            let limit: u64 = p(t[2]);
            let f = factorial(n);
            let mut w: Vec<Option<u64>> = vec![None; f];
            let mut found = 0;
            for seed in 0..limit {
                let mut g = Rng::from_seed(seed);
                let mut v: Vec<usize> = (0..n).collect();
                g.shuffle(&mut v);
                let r = perm_rank(&v);
                if w[r].is_none() {
                    w[r] = Some(seed);
                    found += 1;
                    if found == f {
                        break;
                    }
                }
            }
            if found < f {
                format!("W fail {}", found)
            } else {
                let mut out = vec!["W".to_string()];
                out.extend(w.iter().map(|x| x.unwrap().to_string()));
                out.join(" ")
            }
        }
        "period" => {
            let k: u64 = p(t[1]);
            let mut g = Rng::from_seed(p(t[2]));
            let n: usize = p(t[3]);
            let maxp: usize = p(t[4]);
            let xs: Vec<u64> = (0..n).map(|_| g.next(0..k)).collect();
            let mut ans = 0;
            for per in 1..=maxp.min(n / 2) {
                if (0..n - per).all(|i| xs[i] == xs[i + per]) {
                    ans = per;
                    break;
                }
            }
            format!("T {}", ans)
        }
        other => {
            eprintln!("harness: unknown op {}", other);
            std::process::exit(3)
        }
    });
}
