//! C14 executor (rlib_rand).  One line in, one line out; `P` = the call panicked.
//!
//!   int <ty> <form> <s> <e> <k> raw1..rawk      -> R v1|P ... vk|P      (gen_from_u64 per raw)
//!   reach <ty> <form> <s> <e> <k>               -> R v|P for raw = 0..k-1
//!   f64 <startbits> <endbits> <raw>             -> R <bits> | P
//!   raw <seed> <n>                              -> R r1..rn              (Rng::next_raw)
//!   stream <ty> <form> <s> <e> <seed> <n>       -> R v1..vn | P          (Rng::next(range))
//!   copy <seed> <k> <n>                         -> R a1..an b1..bn       (k draws, copy, n draws each)
//!   copy <seed> <k> <n> <how>                   -> the same line; the duplicate is made by <how> = copy | clone |
//!                                                  clonefrom | cell | byval  (X = an internal consistency check failed)
//!   shufs <k> raw1..rawk <m> e1..em [<elem>]    -> R e'1..e'm | P        (shuffle, scripted source)
//!        <elem> = i64 (default) | sub <a> <b> (the slice is the middle part of a longer vector, a elements before,
//!        b after) | one of the tagged element kinds of `with_elem!` (string, box, u8, arr5, ..., b65, rec80, w16, w128,
//!        nest100, bigdrop, ...: Strings / boxes / integers of other widths / plain arrays and records of 1..4097 bytes /
//!        nested arrays / over-aligned records / records with a Drop impl that is counted);
//!        the line printed is the one the i64 run must print; X = a tag was damaged / the tags are not a rearrangement /
//!        an element was dropped during the shuffle or not exactly once afterwards / padding was touched /
//!        the same shuffle of a slice of zero-sized elements panicked
//!   shufr <n> <k> seed1..seedk [<elem>]         -> R (n numbers per seed)(shuffle of 0..n, real Rng; with <elem> the
//!        slice holds n tagged elements of that kind and the tags are printed: the same line) | X
//!   mix <gen> <seed> <k> op1..opk               -> R o1 .. oj   one observation per operation, P ends the line
//!        <gen> = rng | g53 | gc1 | gsm | g11 | g0c | gmax | gswap | geven (LinearCongruentialGenerator64<A, C> with
//!        other constants, see mix_dispatch) | const | static | tls (Rng::from_seed in a const / static / thread_local
//!        Cell initialiser; the seed given must be the compiled-in one)
//!        op = d:<ty>:<form>:<s>:<e> (next(range) -> value) | f:<sbits>:<ebits> (next(f64 range) -> bits) |
//!             r (next_raw) | k:<n> (n dropped next_raw, then one printed) | s:<m> (shuffle 0..m -> a,b,c or -) |
//!             s:<m>:<elem> (the same on m tagged elements of that kind: the same observation, X = see shufs) |
//!             c:<how> (duplicate as in `copy`; the original's next_raw is printed, the history continues on the duplicate)
//!   time                                        -> R <seed> r1 r2 r3 | X : Rng::from_time() behaves as
//!        Rng::from_seed(seed) for a seed between the clock readings (ns since the epoch) taken around the call;
//!        a second generator made 2 ms later has a later seed
//! searches (used by extra(), never by a proof):
//!   orders <n> <nseeds> <seed0> [<elem>]        -> O <distinct> <chi2*1000> <min> <max> | O damaged <seed>
//!   witness <n> <limit>                         -> W seed per order (lexicographic rank order) | W fail <found>
//!   period <k> <seed> <n> <maxp>                -> T <smallest p <= maxp with x[i]=x[i+p] for all i, or 0>
//!   shufbig <n> <seed>                          -> B ok <fixed points> | B diff <index> | B state
//!        (Rng::shuffle of 0..n against Fisher-Yates written here over next_raw of a second generator)
//!   elemsize <elem>                             -> E <size_of> <align_of> <needs_drop as 0/1>
//!   poschi <n> <nseeds> <seed0>                 -> C <chi2*1000> <min> <max>  (element x position counts)
//!   <form> is one of range incl to toincl full; unused bounds are given as 0.
use rlib_rand::lcg::LinearCongruentialGenerator64 as Lcg;
use rlib_rand::randomable::Randomable;
use rlib_rand::{Rand, Rng};
use std::cell::Cell;
use vh::{guarded, p};

/// `from_seed` is a `const fn`: generators built at compile time (treap_node.rs does this in a thread_local)
const CONST_SEED: u64 = 7;
const STATIC_SEED: u64 = 0x0123_4567_89AB_CDEF;
const TLS_SEED: u64 = u64::MAX - 41;
const G_CONST: Rng = Rng::from_seed(CONST_SEED);
static G_STATIC: Rng = Rng::from_seed(STATIC_SEED);
thread_local! {
    static G_TLS: Cell<Rng> = Cell::new(Rng::from_seed(TLS_SEED));
}

/// a source replaying given raw words; running past the script panics
struct Scripted {
    raws: Vec<u64>,
    pos: usize,
}
impl Rand for Scripted {
    fn next<T, R>(&mut self, range: R) -> T
    where
        R: Randomable<T>,
    {
        let r = self.raws[self.pos];
        self.pos += 1;
        range.gen_from_u64(r)
    }
}

macro_rules! draw {
    ($t:ty, $form:expr, $s:expr, $e:expr, $raw:expr) => {{
        let s = $s as $t;
        let e = $e as $t;
        let v: $t = match $form {
            "range" => (s..e).gen_from_u64($raw),
            "incl" => (s..=e).gen_from_u64($raw),
            "to" => (..e).gen_from_u64($raw),
            "toincl" => (..=e).gen_from_u64($raw),
            "full" => <std::ops::RangeFull as Randomable<$t>>::gen_from_u64(.., $raw),
            other => {
                eprintln!("harness: unknown form {}", other);
                std::process::exit(3)
            }
        };
        v as i128
    }};
}

macro_rules! rng_draw {
    ($t:ty, $form:expr, $s:expr, $e:expr, $g:expr) => {{
        let s = $s as $t;
        let e = $e as $t;
        let v: $t = match $form {
            "range" => $g.next(s..e),
            "incl" => $g.next(s..=e),
            "to" => $g.next(..e),
            "toincl" => $g.next(..=e),
            "full" => $g.next::<$t, _>(..),
            other => {
                eprintln!("harness: unknown form {}", other);
                std::process::exit(3)
            }
        };
        v as i128
    }};
}

macro_rules! by_type {
    ($ty:expr, $mac:ident, $($args:expr),*) => {
        match $ty {
            "i8" => $mac!(i8, $($args),*),
            "u8" => $mac!(u8, $($args),*),
            "i16" => $mac!(i16, $($args),*),
            "u16" => $mac!(u16, $($args),*),
            "i32" => $mac!(i32, $($args),*),
            "u32" => $mac!(u32, $($args),*),
            "i64" => $mac!(i64, $($args),*),
            "u64" => $mac!(u64, $($args),*),
            "isize" => $mac!(isize, $($args),*),
            "usize" => $mac!(usize, $($args),*),
            other => {
                eprintln!("harness: unknown type {}", other);
                std::process::exit(3)
            }
        }
    };
}

fn gen_one(ty: &str, form: &str, s: i128, e: i128, raw: u64) -> i128 {
    by_type!(ty, draw, form, s, e, raw)
}

fn rng_one<G: Rand>(ty: &str, form: &str, s: i128, e: i128, g: &mut G) -> i128 {
    by_type!(ty, rng_draw, form, s, e, g)
}

fn ident<const A: u64, const C: u64>(g: Lcg<A, C>) -> Lcg<A, C> {
    g
}

fn advance_by_value<const A: u64, const C: u64>(mut g: Lcg<A, C>) -> u64 {
    g.next_raw()
}

/// a duplicate of `*g` made in the way `how`; None = an internal consistency check failed
fn copy_of<const A: u64, const C: u64>(g: &Lcg<A, C>, how: &str) -> Option<Lcg<A, C>> {
    match how {
        "copy" => {
            let h = *g;
            Some(h)
        }
        "clone" => Some(g.clone()),
        "clonefrom" => {
            let mut h = Lcg::<A, C>::from_seed(0xDEAD_BEEF_0BAD_F00D);
            h.next_raw();
            h.clone_from(g);
            Some(h)
        }
        "cell" => {
            // the pattern of treap_node.rs: get, draw, set
            let cell = Cell::new(*g);
            let h = cell.get();
            let mut t = cell.get();
            let ra = t.next_raw();
            cell.set(t);
            let mut t = cell.get();
            let rb = t.next_raw();
            cell.set(t);
            let mut o = *g;
            if o.next_raw() != ra || o.next_raw() != rb || o.next_raw() != cell.into_inner().next_raw() {
                return None;
            }
            Some(h)
        }
        "byval" => {
            let h = ident(*g);
            let r = advance_by_value(*g);
            let mut o = *g;
            if o.next_raw() != r {
                return None;
            }
            Some(h)
        }
        other => {
            eprintln!("harness: unknown way of copying {}", other);
            std::process::exit(3)
        }
    }
}

/// an element of a shuffled slice that remembers where it started
trait Elem: Sized {
    const MAXLEN: usize = usize::MAX;
    /// the kind counts its drops (begin() resets the counter)
    const COUNTS: bool = false;
    fn mk(i: usize) -> Self;
    /// the start position; None = the element is damaged
    fn un(&self) -> Option<usize>;
    fn begin() {}
    fn drops() -> usize {
        0
    }
}

const GOLD: u64 = 0x9E3779B97F4A7C15;
fn word(tag: u64, j: usize) -> u64 {
    (tag ^ 0xABCD).wrapping_mul(GOLD).wrapping_add((j as u64).wrapping_mul(0xD1342543DE82EF95)).rotate_left(j as u32 % 63)
}
fn byte(tag: u64, j: usize) -> u8 {
    (word(tag, j) >> 29) as u8
}

macro_rules! int_elem {
    ($($t:ty),*) => {$(
        impl Elem for $t {
            const MAXLEN: usize = if std::mem::size_of::<$t>() >= 8 { usize::MAX } else { 1 << (8 * std::mem::size_of::<$t>()) };
            fn mk(i: usize) -> Self {
                i as $t
            }
            fn un(&self) -> Option<usize> {
                Some(*self as usize)
            }
        }
    )*};
}
int_elem!(u8, u16, u32, usize, u128);

impl Elem for f64 {
    fn mk(i: usize) -> Self {
        i as f64 + 0.25
    }
    fn un(&self) -> Option<usize> {
        let i = *self as usize;
        if i as f64 + 0.25 == *self {
            Some(i)
        } else {
            None
        }
    }
}
impl Elem for String {
    fn mk(i: usize) -> Self {
        format!("element-{}", i)
    }
    fn un(&self) -> Option<usize> {
        self.strip_prefix("element-")?.parse().ok()
    }
}
impl Elem for Box<usize> {
    fn mk(i: usize) -> Self {
        Box::new(i)
    }
    fn un(&self) -> Option<usize> {
        Some(**self)
    }
}
impl Elem for Vec<u8> {
    fn mk(i: usize) -> Self {
        let mut v = (i as u64).to_le_bytes().to_vec();
        v.extend((0..i % 5).map(|j| byte(i as u64, j)));
        v
    }
    fn un(&self) -> Option<usize> {
        let i = u64::from_le_bytes(self.get(..8)?.try_into().ok()?) as usize;
        if *self == Self::mk(i) {
            Some(i)
        } else {
            None
        }
    }
}
impl Elem for (u64, String) {
    fn mk(i: usize) -> Self {
        (i as u64, format!("second-{}", i))
    }
    fn un(&self) -> Option<usize> {
        if self.1 == format!("second-{}", self.0) {
            Some(self.0 as usize)
        } else {
            None
        }
    }
}
/// plain byte arrays: the tag in the first 8 bytes, a pattern derived from it in the others (N >= 8)
impl<const N: usize> Elem for [u8; N] {
    fn mk(i: usize) -> Self {
        let mut a = [0u8; N];
        a[..8].copy_from_slice(&(i as u64).to_le_bytes());
        for j in 8..N {
            a[j] = byte(i as u64, j);
        }
        a
    }
    fn un(&self) -> Option<usize> {
        let x = u64::from_le_bytes(self[..8].try_into().ok()?);
        if (8..N).all(|j| self[j] == byte(x, j)) {
            Some(x as usize)
        } else {
            None
        }
    }
}
impl<const N: usize> Elem for [u64; N] {
    fn mk(i: usize) -> Self {
        let mut a = [0u64; N];
        a[0] = i as u64;
        for j in 1..N {
            a[j] = word(i as u64, j);
        }
        a
    }
    fn un(&self) -> Option<usize> {
        if (1..N).all(|j| self[j] == word(self[0], j)) {
            Some(self[0] as usize)
        } else {
            None
        }
    }
}
/// nested arrays
impl<const N: usize, const M: usize> Elem for [[u32; M]; N] {
    fn mk(i: usize) -> Self {
        let mut a = [[0u32; M]; N];
        for r in 0..N {
            for c in 0..M {
                a[r][c] = word(i as u64, r * M + c) as u32;
            }
        }
        a[0][0] = i as u32;
        a
    }
    fn un(&self) -> Option<usize> {
        let x = self[0][0] as u64;
        if (0..N * M).skip(1).all(|k| self[k / M][k % M] == word(x, k) as u32) {
            Some(x as usize)
        } else {
            None
        }
    }
}
impl<const N: usize, const M: usize, const K: usize> Elem for [[[u8; K]; M]; N] {
    const MAXLEN: usize = 1 << 16;
    fn mk(i: usize) -> Self {
        let mut a = [[[0u8; K]; M]; N];
        for k in 0..N * M * K {
            a[k / (M * K)][k / K % M][k % K] = byte(i as u64, k);
        }
        a[0][0][0] = i as u8;
        a[N - 1][M - 1][K - 1] = (i >> 8) as u8;
        a
    }
    fn un(&self) -> Option<usize> {
        let x = self[0][0][0] as u64 | (self[N - 1][M - 1][K - 1] as u64) << 8;
        if (1..N * M * K - 1).all(|k| self[k / (M * K)][k / K % M][k % K] == byte(x, k)) {
            Some(x as usize)
        } else {
            None
        }
    }
}
/// a record: fields of different widths around the tag (8 * N + 8 bytes)
#[derive(Clone, Copy)]
struct Rec<const N: usize> {
    head: u8,
    tag: u32,
    body: [u64; N],
    tail: u16,
}
impl<const N: usize> Elem for Rec<N> {
    fn mk(i: usize) -> Self {
        let mut body = [0u64; N];
        for j in 0..N {
            body[j] = word(i as u64, j);
        }
        Rec { head: byte(i as u64, 1), tag: i as u32, body, tail: word(i as u64, 2) as u16 }
    }
    fn un(&self) -> Option<usize> {
        let x = self.tag as u64;
        if self.head == byte(x, 1) && self.tail == word(x, 2) as u16 && (0..N).all(|j| self.body[j] == word(x, j)) {
            Some(x as usize)
        } else {
            None
        }
    }
}
/// over-aligned records
#[repr(align(64))]
struct Al64 {
    tag: u64,
    chk: u64,
}
#[repr(align(128))]
struct Al128 {
    tag: u64,
    chk: [u64; 9],
}
impl Elem for Al64 {
    fn mk(i: usize) -> Self {
        Al64 { tag: i as u64, chk: word(i as u64, 3) }
    }
    fn un(&self) -> Option<usize> {
        if self.chk == word(self.tag, 3) && (self as *const Self as usize) % 64 == 0 {
            Some(self.tag as usize)
        } else {
            None
        }
    }
}
impl Elem for Al128 {
    fn mk(i: usize) -> Self {
        let mut chk = [0u64; 9];
        for j in 0..9 {
            chk[j] = word(i as u64, j);
        }
        Al128 { tag: i as u64, chk }
    }
    fn un(&self) -> Option<usize> {
        if (0..9).all(|j| self.chk[j] == word(self.tag, j)) && (self as *const Self as usize) % 128 == 0 {
            Some(self.tag as usize)
        } else {
            None
        }
    }
}
thread_local! {
    static DROPS: Cell<usize> = Cell::new(0);
}
/// a record that is not Copy and counts its drops: a shuffle moves elements, it neither drops nor duplicates them
struct Dropper<const N: usize> {
    tag: usize,
    body: [u64; N],
    name: String,
}
impl<const N: usize> Drop for Dropper<N> {
    fn drop(&mut self) {
        DROPS.with(|d| d.set(d.get() + 1));
    }
}
impl<const N: usize> Elem for Dropper<N> {
    const COUNTS: bool = true;
    fn mk(i: usize) -> Self {
        let mut body = [0u64; N];
        for j in 0..N {
            body[j] = word(i as u64, j);
        }
        Dropper { tag: i, body, name: format!("dropper-{}", i) }
    }
    fn un(&self) -> Option<usize> {
        if self.name == format!("dropper-{}", self.tag) && (0..N).all(|j| self.body[j] == word(self.tag as u64, j)) {
            Some(self.tag)
        } else {
            None
        }
    }
    fn begin() {
        DROPS.with(|d| d.set(0));
    }
    fn drops() -> usize {
        DROPS.with(|d| d.get())
    }
}

/// shuffle m tagged elements of kind T with the source g: the tags in their new order.  None = an element is damaged,
/// the tags are not a rearrangement of 0..m, or an element was dropped during the shuffle / not exactly once afterwards
fn shuffle_elems<T: Elem, G: Rand>(g: &mut G, m: usize) -> Option<Vec<usize>> {
    if m > T::MAXLEN {
        eprintln!("harness: this element kind needs m <= {}", T::MAXLEN);
        std::process::exit(3)
    }
    T::begin();
    let mut v: Vec<T> = (0..m).map(T::mk).collect();
    g.shuffle(&mut v);
    let during = T::drops();
    let tags: Option<Vec<usize>> = v.iter().map(T::un).collect();
    let len = v.len();
    drop(v);
    if len != m || during != 0 || (T::COUNTS && T::drops() != m) {
        return None;
    }
    let tags = tags?;
    let mut seen = vec![false; m];
    for &t in &tags {
        if t >= m || seen[t] {
            return None;
        }
        seen[t] = true;
    }
    Some(tags)
}

/// $f::<T, _>(args) for the element kind named $elem
macro_rules! with_elem {
    ($elem:expr, $f:ident, $($a:expr),*) => {
        match $elem {
            "string" => $f::<String, _>($($a),*),
            "box" => $f::<Box<usize>, _>($($a),*),
            "vec" => $f::<Vec<u8>, _>($($a),*),
            "pair" => $f::<(u64, String), _>($($a),*),
            "u8" => $f::<u8, _>($($a),*),
            "u16" => $f::<u16, _>($($a),*),
            "u32" => $f::<u32, _>($($a),*),
            "usize" => $f::<usize, _>($($a),*),
            "u128" => $f::<u128, _>($($a),*),
            "f64" => $f::<f64, _>($($a),*),
            "arr5" => $f::<[u64; 5], _>($($a),*),
            "w8" => $f::<[u64; 8], _>($($a),*),
            "w9" => $f::<[u64; 9], _>($($a),*),
            "w16" => $f::<[u64; 16], _>($($a),*),
            "w17" => $f::<[u64; 17], _>($($a),*),
            "w128" => $f::<[u64; 128], _>($($a),*),
            "w512" => $f::<[u64; 512], _>($($a),*),
            "b8" => $f::<[u8; 8], _>($($a),*),
            "b15" => $f::<[u8; 15], _>($($a),*),
            "b17" => $f::<[u8; 17], _>($($a),*),
            "b31" => $f::<[u8; 31], _>($($a),*),
            "b33" => $f::<[u8; 33], _>($($a),*),
            "b63" => $f::<[u8; 63], _>($($a),*),
            "b64" => $f::<[u8; 64], _>($($a),*),
            "b65" => $f::<[u8; 65], _>($($a),*),
            "b80" => $f::<[u8; 80], _>($($a),*),
            "b127" => $f::<[u8; 127], _>($($a),*),
            "b128" => $f::<[u8; 128], _>($($a),*),
            "b129" => $f::<[u8; 129], _>($($a),*),
            "b255" => $f::<[u8; 255], _>($($a),*),
            "b257" => $f::<[u8; 257], _>($($a),*),
            "b1024" => $f::<[u8; 1024], _>($($a),*),
            "b4097" => $f::<[u8; 4097], _>($($a),*),
            "rec24" => $f::<Rec<2>, _>($($a),*),
            "rec64" => $f::<Rec<7>, _>($($a),*),
            "rec72" => $f::<Rec<8>, _>($($a),*),
            "rec80" => $f::<Rec<9>, _>($($a),*),
            "rec1024" => $f::<Rec<127>, _>($($a),*),
            "nest64" => $f::<[[u32; 4]; 4], _>($($a),*),
            "nest80" => $f::<[[u32; 4]; 5], _>($($a),*),
            "nest100" => $f::<[[u32; 5]; 5], _>($($a),*),
            "nest1152" => $f::<[[u32; 16]; 18], _>($($a),*),
            "nest3x80" => $f::<[[[u8; 4]; 4]; 5], _>($($a),*),
            "nest3x125" => $f::<[[[u8; 5]; 5]; 5], _>($($a),*),
            "al64" => $f::<Al64, _>($($a),*),
            "al128" => $f::<Al128, _>($($a),*),
            "drop40" => $f::<Dropper<1>, _>($($a),*),
            "drop64" => $f::<Dropper<4>, _>($($a),*),
            "bigdrop" => $f::<Dropper<11>, _>($($a),*),
            "drop1024" => $f::<Dropper<124>, _>($($a),*),
            other => {
                eprintln!("harness: unknown element type {}", other);
                std::process::exit(3)
            }
        }
    };
}

/// the memory size of an element kind (reported by `elemsize`, so that the plugin's table cannot drift)
fn size_of_elem<T: Elem, G>(_g: &mut G, _m: usize) -> Option<Vec<usize>> {
    Some(vec![std::mem::size_of::<T>(), std::mem::align_of::<T>(), std::mem::needs_drop::<T>() as usize])
}

fn join_list(v: &[usize]) -> String {
    if v.is_empty() {
        "-".to_string()
    } else {
        v.iter().map(|x| x.to_string()).collect::<Vec<_>>().join(",")
    }
}

/// a history of different operations on ONE generator
fn run_mix<const A: u64, const C: u64>(mut g: Lcg<A, C>, ops: &[&str]) -> String {
    let mut out = vec!["R".to_string()];
    for op in ops {
        let f: Vec<&str> = op.split(':').collect();
        let r: Option<String> = guarded(|| match f[0] {
            "d" => rng_one(f[1], f[2], p(f[3]), p(f[4]), &mut g).to_string(),
            "f" => {
                let s = f64::from_bits(p::<u64>(f[1]));
                let e = f64::from_bits(p::<u64>(f[2]));
                let x: f64 = g.next(s..e);
                x.to_bits().to_string()
            }
            "r" => g.next_raw().to_string(),
            "k" => {
                let n: u64 = p(f[1]);
                for _ in 0..n {
                    g.next_raw();
                }
                g.next_raw().to_string()
            }
            "s" => {
                let m: usize = p(f[1]);
                if f.len() > 2 {
                    match with_elem!(f[2], shuffle_elems, &mut g, m) {
                        Some(v) => join_list(&v),
                        None => "X".to_string(),
                    }
                } else {
                    let mut v: Vec<usize> = (0..m).collect();
                    g.shuffle(&mut v);
                    join_list(&v)
                }
            }
            "c" => match copy_of(&g, f[1]) {
                Some(h) => {
                    let r = g.next_raw();
                    g = h;
                    r.to_string()
                }
                None => "X".to_string(),
            },
            other => {
                eprintln!("harness: unknown mix operation {}", other);
                std::process::exit(3)
            }
        });
        match r {
            Some(s) => {
                let stop = s == "X";
                out.push(s);
                if stop {
                    break;
                }
            }
            None => {
                out.push("P".to_string());
                break;
            }
        }
    }
    out.join(" ")
}

fn fixed_seed(name: &str, given: u64, compiled: u64) {
    if given != compiled {
        eprintln!("harness: generator {} is compiled with seed {}, the case says {}", name, compiled, given);
        std::process::exit(3)
    }
}

fn mix_dispatch(gen: &str, seed: u64, ops: &[&str]) -> String {
    match gen {
        "rng" => run_mix(Rng::from_seed(seed), ops),
        "g53" => run_mix(Lcg::<5, 3>::from_seed(seed), ops),
        "gc1" => run_mix(Lcg::<6364136223846793005, 1>::from_seed(seed), ops),
        "gsm" => run_mix(Lcg::<0xd1342543de82ef95, 0x9E3779B97F4A7C15>::from_seed(seed), ops),
        "g11" => run_mix(Lcg::<1, 1>::from_seed(seed), ops),
        "g0c" => run_mix(Lcg::<0, 12345>::from_seed(seed), ops),
        "gmax" => run_mix(Lcg::<{ u64::MAX }, { u64::MAX }>::from_seed(seed), ops),
        "gswap" => run_mix(Lcg::<1442695040888963407, 6364136223846793005>::from_seed(seed), ops),
        "geven" => run_mix(Lcg::<6364136223846793004, 1442695040888963406>::from_seed(seed), ops),
        "const" => {
            fixed_seed(gen, seed, CONST_SEED);
            run_mix(G_CONST, ops)
        }
        "static" => {
            fixed_seed(gen, seed, STATIC_SEED);
            run_mix(G_STATIC, ops)
        }
        "tls" => {
            fixed_seed(gen, seed, TLS_SEED);
            run_mix(G_TLS.with(|c| c.get()), ops)
        }
        other => {
            eprintln!("harness: unknown generator {}", other);
            std::process::exit(3)
        }
    }
}

fn now_nanos() -> u64 {
    std::time::SystemTime::now().duration_since(std::time::UNIX_EPOCH).unwrap().as_nanos() as u64
}

/// the seed in [t0, t1] whose generator starts with the raws r (from_seed is compared with from_time)
fn seed_in_window(t0: u64, t1: u64, r: &[u64; 3]) -> Option<u64> {
    if t1 < t0 || t1 - t0 > 200_000_000 {
        return None;
    }
    (t0..=t1).find(|&s| {
        let mut g = Rng::from_seed(s);
        g.next_raw() == r[0] && g.next_raw() == r[1] && g.next_raw() == r[2]
    })
}

fn time_once() -> Option<String> {
    let t0 = now_nanos();
    let mut g = Rng::from_time();
    let t1 = now_nanos();
    std::thread::sleep(std::time::Duration::from_millis(2));
    let u0 = now_nanos();
    let mut h = Rng::from_time();
    let u1 = now_nanos();
    let rg = [g.next_raw(), g.next_raw(), g.next_raw()];
    let rh = [h.next_raw(), h.next_raw(), h.next_raw()];
    let sg = seed_in_window(t0, t1, &rg)?;
    let sh = seed_in_window(u0, u1, &rh)?;
    if sh <= sg {
        return None;
    }
    Some(format!("R {} {} {} {}", sg, rg[0], rg[1], rg[2]))
}

fn fmt_opt(v: Option<i128>) -> String {
    match v {
        Some(x) => x.to_string(),
        None => "P".to_string(),
    }
}

fn perm_rank(v: &[usize]) -> usize {
    // lexicographic rank
    let n = v.len();
    let mut r = 0;
    for i in 0..n {
        let smaller = v[i + 1..].iter().filter(|&&x| x < v[i]).count();
        r = r * (n - i) + smaller;
    }
    r
}

fn factorial(n: usize) -> usize {
    (1..=n).product()
}

fn main() {
    vh::serve(|t| match t[0] {
        "int" => {
            let (ty, form) = (t[1], t[2]);
            let (s, e): (i128, i128) = (p(t[3]), p(t[4]));
            let k: usize = p(t[5]);
            let mut out = vec!["R".to_string()];
            for i in 0..k {
                let raw: u64 = p(t[6 + i]);
                out.push(fmt_opt(guarded(|| gen_one(ty, form, s, e, raw))));
            }
            out.join(" ")
        }
        "reach" => {
            let (ty, form) = (t[1], t[2]);
            let (s, e): (i128, i128) = (p(t[3]), p(t[4]));
            let k: u64 = p(t[5]);
            let mut out = vec!["R".to_string()];
            for raw in 0..k {
                out.push(fmt_opt(guarded(|| gen_one(ty, form, s, e, raw))));
            }
            out.join(" ")
        }
        "f64" => {
            let s = f64::from_bits(p::<u64>(t[1]));
            let e = f64::from_bits(p::<u64>(t[2]));
            let raw: u64 = p(t[3]);
            let x: f64 = (s..e).gen_from_u64(raw);
            format!("R {}", x.to_bits())
        }
        "raw" => {
            let mut g = Rng::from_seed(p(t[1]));
            let n: usize = p(t[2]);
            let mut out = vec!["R".to_string()];
            for _ in 0..n {
                out.push(g.next_raw().to_string());
            }
            out.join(" ")
        }
        "stream" => {
            let (ty, form) = (t[1], t[2]);
            let (s, e): (i128, i128) = (p(t[3]), p(t[4]));
            let mut g = Rng::from_seed(p(t[5]));
            let n: usize = p(t[6]);
            let mut out = vec!["R".to_string()];
            for _ in 0..n {
                out.push(rng_one(ty, form, s, e, &mut g).to_string());
            }
            out.join(" ")
        }
        "copy" => {
            let mut g = Rng::from_seed(p(t[1]));
            let k: usize = p(t[2]);
            let n: usize = p(t[3]);
            for _ in 0..k {
                g.next_raw();
            }
            let how = if t.len() > 4 { t[4] } else { "copy" };
            let mut h = match copy_of(&g, how) {
                Some(h) => h,
                None => return "X".to_string(),
            };
            let mut out = vec!["R".to_string()];
            let mut bs = vec![];
            // interleaved on purpose: a shared hidden state would show up as a difference
            for _ in 0..n {
                out.push(g.next_raw().to_string());
                bs.push(h.next_raw().to_string());
            }
            out.extend(bs);
            out.join(" ")
        }
        "shufs" => {
            let k: usize = p(t[1]);
            let raws: Vec<u64> = (0..k).map(|i| p(t[2 + i])).collect();
            let m: usize = p(t[2 + k]);
            let vals: Vec<i64> = (0..m).map(|i| p(t[3 + k + i])).collect();
            let elem = if t.len() > 3 + k + m { t[3 + k + m] } else { "i64" };
            // the same shuffle of zero-sized elements: nothing to observe, but it must not panic when this one does not
            let zst_ok = guarded(|| {
                let mut z = vec![(); m];
                let mut s2 = Scripted { raws: raws.clone(), pos: 0 };
                s2.shuffle(&mut z);
            })
            .is_some();
            let res: Option<Option<Vec<i64>>> = guarded(|| match elem {
                "i64" => {
                    let mut v = vals.clone();
                    let mut src = Scripted { raws: raws.clone(), pos: 0 };
                    src.shuffle(&mut v);
                    Some(v)
                }
                "sub" => {
                    let a: usize = p(t[4 + k + m]);
                    let b: usize = p(t[5 + k + m]);
                    let pad = |i: usize| 0x5A5A_0000_0000i64 + i as i64;
                    let mut full: Vec<i64> = (0..a).map(pad).collect();
                    full.extend(vals.iter());
                    full.extend((0..b).map(|i| pad(a + i)));
                    let mut src = Scripted { raws: raws.clone(), pos: 0 };
                    src.shuffle(&mut full[a..a + m]);
                    let before_ok = (0..a).all(|i| full[i] == pad(i));
                    let after_ok = (0..b).all(|i| full[a + m + i] == pad(a + i));
                    if before_ok && after_ok && full.len() == a + m + b {
                        Some(full[a..a + m].to_vec())
                    } else {
                        None
                    }
                }
                _ => {
                    let mut src = Scripted { raws: raws.clone(), pos: 0 };
                    let idx = with_elem!(elem, shuffle_elems, &mut src, m);
                    match idx {
                        Some(ix) if ix.iter().all(|&i| i < m) => Some(ix.iter().map(|&i| vals[i]).collect()),
                        _ => None,
                    }
                }
            });
            match res {
                None => "P".to_string(),
                Some(None) => "X".to_string(),
                Some(Some(_)) if !zst_ok => "X".to_string(),
                Some(Some(v)) => {
                    let mut out = vec!["R".to_string()];
                    out.extend(v.iter().map(|x| x.to_string()));
                    out.join(" ")
                }
            }
        }
        "mix" => {
            let k: usize = p(t[3]);
            mix_dispatch(t[1], p(t[2]), &t[4..4 + k])
        }
        "time" => {
            // the clock may step between two readings: three attempts
            (0..3).find_map(|_| time_once()).unwrap_or_else(|| "X".to_string())
        }
        "shufbig" => {
            let n: usize = p(t[1]);
            let seed: u64 = p(t[2]);
            let mut g = Rng::from_seed(seed);
            let mut v: Vec<usize> = (0..n).collect();
            g.shuffle(&mut v);
            let mut h = Rng::from_seed(seed);
            let mut w: Vec<usize> = (0..n).collect();
            for i in 1..n {
                let j = (h.next_raw() % (i as u64 + 1)) as usize;
                w.swap(i, j);
            }
            match (0..n).find(|&i| v[i] != w[i]) {
                Some(i) => format!("B diff {}", i),
                None if g.next_raw() != h.next_raw() => "B state".to_string(),
                None => format!("B ok {}", (0..n).filter(|&i| v[i] == i).count()),
            }
        }
        "poschi" => {
            let n: usize = p(t[1]);
            let nseeds: u64 = p(t[2]);
            let seed0: u64 = p(t[3]);
            let mut cnt = vec![0u64; n * n];
            for i in 0..nseeds {
                let mut g = Rng::from_seed(seed0.wrapping_add(i.wrapping_mul(0x9E3779B97F4A7C15)));
                let mut v: Vec<usize> = (0..n).collect();
                g.shuffle(&mut v);
                for (pos, &x) in v.iter().enumerate() {
                    cnt[pos * n + x] += 1;
                }
            }
            let exp = nseeds as f64 / n as f64;
            let chi2: f64 = cnt.iter().map(|&c| (c as f64 - exp) * (c as f64 - exp) / exp).sum();
            format!("C {} {} {}", (chi2 * 1000.0) as u64, cnt.iter().min().unwrap(), cnt.iter().max().unwrap())
        }
        "shufr" => {
            let n: usize = p(t[1]);
            let k: usize = p(t[2]);
            let mut out = vec!["R".to_string()];
            for i in 0..k {
                let mut g = Rng::from_seed(p(t[3 + i]));
                let v: Vec<usize> = if t.len() > 3 + k {
                    match with_elem!(t[3 + k], shuffle_elems, &mut g, n) {
                        Some(v) => v,
                        None => return "X".to_string(),
                    }
                } else {
                    let mut v: Vec<usize> = (0..n).collect();
                    g.shuffle(&mut v);
                    v
                };
                out.extend(v.iter().map(|x| x.to_string()));
            }
            out.join(" ")
        }
        "orders" => {
            let n: usize = p(t[1]);
            let nseeds: u64 = p(t[2]);
            let seed0: u64 = p(t[3]);
            let f = factorial(n);
            let mut cnt = vec![0u64; f];
            for i in 0..nseeds {
                let mut g = Rng::from_seed(seed0.wrapping_add(i));
                let v: Vec<usize> = if t.len() > 4 {
                    match with_elem!(t[4], shuffle_elems, &mut g, n) {
                        Some(v) => v,
                        None => return format!("O damaged {}", seed0.wrapping_add(i)),
                    }
                } else {
                    let mut v: Vec<usize> = (0..n).collect();
                    g.shuffle(&mut v);
                    v
                };
                cnt[perm_rank(&v)] += 1;
            }
            let distinct = cnt.iter().filter(|&&c| c > 0).count();
            let exp = nseeds as f64 / f as f64;
            let chi2: f64 = cnt.iter().map(|&c| (c as f64 - exp) * (c as f64 - exp) / exp).sum();
            format!(
                "O {} {} {} {}",
                distinct,
                (chi2 * 1000.0) as u64,
                cnt.iter().min().unwrap(),
                cnt.iter().max().unwrap()
            )
        }
        "witness" => {
            let n: usize = p(t[1]);
            let limit: u64 = p(t[2]);
            let f = factorial(n);
            let mut w: Vec<Option<u64>> = vec![None; f];
            let mut found = 0;
            for seed in 0..limit {
                let mut g = Rng::from_seed(seed);
                let mut v: Vec<usize> = (0..n).collect();
                g.shuffle(&mut v);
                let r = perm_rank(&v);
                if w[r].is_none() {
                    w[r] = Some(seed);
                    found += 1;
                    if found == f {
                        break;
                    }
                }
            }
            if found < f {
                format!("W fail {}", found)
            } else {
                let mut out = vec!["W".to_string()];
                out.extend(w.iter().map(|x| x.unwrap().to_string()));
                out.join(" ")
            }
        }
        "elemsize" => {
            let v = with_elem!(t[1], size_of_elem, &mut (), 0).unwrap();
            format!("E {} {} {}", v[0], v[1], v[2])
        }
        "period" => {
            let k: u64 = p(t[1]);
            let mut g = Rng::from_seed(p(t[2]));
            let n: usize = p(t[3]);
            let maxp: usize = p(t[4]);
            let xs: Vec<u64> = (0..n).map(|_| g.next(0..k)).collect();
            let mut ans = 0;
            for per in 1..=maxp.min(n / 2) {
                if (0..n - per).all(|i| xs[i] == xs[i + per]) {
                    ans = per;
                    break;
                }
            }
            format!("T {}", ans)
        }
        other => {
            eprintln!("harness: unknown op {}", other);
            std::process::exit(3)
        }
    });
}
