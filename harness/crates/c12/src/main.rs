//! C12 executor.  One line = one history on four `Bitset<N>` registers, all starting as `new()`:
//!   `<N> <op> <args> <op> <args> ...`      N in {1, 2, 3, 10}
//! ops: new d | from d x | set d x | rem d x | flip d x | test a x | clear d | count a | iter a
//!      | and/or/xor d a b  (d = &a op &b) | anda/ora/xora a b  (a op= &b) | not d a | eq a b
//!      | clone d a | disp a | dbg a
//! output: one token per op: `u` (done), `P` (panicked), `b0`/`b1`, `n<k>`,
//!         `l<e>:<i,j,...>` (iterator items; e = 1 iff two more next() calls gave None), `s<string>`.
use rlib_bitset::Bitset;
use vh::{guarded, p};

fn run<const N: usize>(t: &[&str]) -> String {
    let mut r: Vec<Bitset<N>> = (0..4).map(|_| Bitset::<N>::new()).collect();
    let mut out: Vec<String> = Vec::new();
    let mut i = 1;
    let unit = |o: Option<()>| if o.is_some() { "u".to_string() } else { "P".to_string() };
    while i < t.len() {
        let op = t[i];
        let a1: usize = p(t[i + 1]);
        let res = match op {
            "new" => {
                i += 2;
                // both public ways to get the empty set: new() and the Default impl
                unit(guarded(|| r[a1] = if a1 % 2 == 0 { Bitset::<N>::new() } else { Bitset::<N>::default() }))
            }
            "from" => {
                let x: u64 = p(t[i + 2]);
                i += 3;
                unit(guarded(|| r[a1] = Bitset::<N>::from_u64(x)))
            }
            "set" | "rem" | "flip" => {
                let x: usize = p(t[i + 2]);
                i += 3;
                unit(guarded(|| match op {
                    "set" => r[a1].set(x),
                    "rem" => r[a1].remove(x),
                    _ => r[a1].flip(x),
                }))
            }
            "test" => {
                let x: usize = p(t[i + 2]);
                i += 3;
                match guarded(|| r[a1].test(x)) {
                    Some(b) => format!("b{}", b as u8),
                    None => "P".to_string(),
                }
            }
            "clear" => {
                i += 2;
                unit(guarded(|| r[a1].clear()))
            }
            "count" => {
                i += 2;
                match guarded(|| r[a1].count()) {
                    Some(c) => format!("n{}", c),
                    None => "P".to_string(),
                }
            }
            "iter" => {
                i += 2;
                match guarded(|| {
                    let mut it = r[a1].iter_bits();
                    let mut items: Vec<usize> = Vec::new();
                    while let Some(v) = it.next() {
                        items.push(v);
                        if items.len() > 64 * N + 8 {
                            break; // a broken iterator must not hang the executor
                        }
                    }
                    let e = it.next().is_none() & it.next().is_none();
                    (items, e)
                }) {
                    Some((items, e)) => format!(
                        "l{}:{}",
                        e as u8,
                        items.iter().map(|v| v.to_string()).collect::<Vec<_>>().join(",")
                    ),
                    None => "P".to_string(),
                }
            }
            "and" | "or" | "xor" => {
                let (a, b): (usize, usize) = (p(t[i + 2]), p(t[i + 3]));
                i += 4;
                unit(guarded(|| {
                    let v = match op {
                        "and" => &r[a] & &r[b],
                        "or" => &r[a] | &r[b],
                        _ => &r[a] ^ &r[b],
                    };
                    r[a1] = v;
                }))
            }
            "anda" | "ora" | "xora" => {
                let b: usize = p(t[i + 2]);
                i += 3;
                unit(guarded(|| {
                    let rhs = r[b].clone();
                    match op {
                        "anda" => r[a1] &= &rhs,
                        "ora" => r[a1] |= &rhs,
                        _ => r[a1] ^= &rhs,
                    }
                }))
            }
            "not" => {
                let a: usize = p(t[i + 2]);
                i += 3;
                unit(guarded(|| r[a1] = !r[a].clone()))
            }
            "eq" => {
                let b: usize = p(t[i + 2]);
                i += 3;
                match guarded(|| r[a1] == r[b]) {
                    Some(e) => format!("b{}", e as u8),
                    None => "P".to_string(),
                }
            }
            "clone" => {
                let a: usize = p(t[i + 2]);
                i += 3;
                unit(guarded(|| r[a1] = r[a].clone()))
            }
            "disp" => {
                i += 2;
                match guarded(|| format!("{}", r[a1])) {
                    Some(s) => format!("s{}", s),
                    None => "P".to_string(),
                }
            }
            "dbg" => {
                i += 2;
                match guarded(|| format!("{:?}", r[a1])) {
                    Some(s) => format!("s{}", s),
                    None => "P".to_string(),
                }
            }
            other => {
                eprintln!("harness: unknown op {}", other);
                std::process::exit(3)
            }
        };
        out.push(res);
    }
    if out.is_empty() {
        "-".to_string()
    } else {
        out.join(" ")
    }
}

fn main() {
    vh::serve(|t| match t[0] {
        "1" => run::<1>(t),
        "2" => run::<2>(t),
        "3" => run::<3>(t),
        "10" => run::<10>(t),
        "17" => run::<17>(t),
        "20" => run::<20>(t),
        other => {
            eprintln!("harness: unsupported N {}", other);
            std::process::exit(3)
        }
    });
}
