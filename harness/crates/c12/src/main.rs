//! C12 executor.  One line = one history on four `Bitset<N>` registers, all starting as `new()`:
//!   `<N> <op> <args> <op> <args> ...`      N in {0, 1, 2, 3, 4, 8, 10, 16, 17, 20, 32, 33, 64, 65, 128, 129, 157, 1024, 1025}
//! ops: new d | from d x | set d x | rem d x | flip d x | test a x | clear d | count a | iter a
//!      | and/or/xor d a b  (d = &a op &b) | anda/ora/xora a b  (a op= &b) | not d a | eq a b
//!      | clone d a | disp a | dbg a
//!      | iterx a k j   (same output line as `iter a`; additionally every provided Iterator method that a user can
//!                       call on the iterator - size_hint, count, last, nth, fold, sum, min, max, collect, for, by_ref+take,
//!                       skip, step_by, peekable, position, two live iterators - is compared with the items that plain
//!                       `next()` produced, after k items have been consumed and with parameter j)
//!      | iterraw a     (same output line as `iter a`, produced by the public constructor `BitsIter::new` on a raw
//!                       `[u64; N]` rebuilt from `test`)
//!      | clonefrom d a (`d.clone_from(&a)`; same output as `clone d a`)
//!      | itern a k j   (same output line as `count a`: the NUMBER of items of `iter_bits`, after checking inside the
//!                       executor that the items are strictly ascending, are exactly the indices with `test` = true,
//!                       that the iterator stays at None, and everything `iterx a k j` checks; for sets too large to
//!                       replay item by item in the Coq model)
//!      | dispn a | dbgn a  (same output line as `count a`: the number of '1' characters of the rendering, after
//!                       checking inside the executor that it has 64*N characters and character i is '1' iff `test(i)`)
//!      | fdisp a m k | fdbg a m k   (same output line as `count a`.  Register a is rendered with Display / Debug into a sink
//!                       that does not behave like a String:  m = 0 bounded buffer of k' bytes that refuses a chunk that does
//!                       not fit (and everything after it), m = 1 bounded buffer that keeps the part that fits and then
//!                       reports fmt::Error, m = 2 bounded buffer that keeps the part that fits and then PANICS (caught),
//!                       m = 3 a sink that itself renders another bitset (the complement) with format! inside every
//!                       write_str, m = 4 rendering on a freshly spawned thread (first into a failing sink, then normally),
//!                       m = 5 plain format!/to_string.  k selects the room k': 0 -> 0, 1 -> 1, 2 -> half, 3 -> len-1,
//!                       4 -> len (fits).  Checked inside the executor: what the sink accepted is a prefix of the
//!                       rendering given by test(i); Ok is returned only if the sink holds all of it; Err only if the sink
//!                       refused something; a panic only from the panicking sink.  The point of the op is what happens
//!                       AFTERWARDS: later `disp`/`dbg` of any register are ordinary observations decided by Coq)
//!      | xr M v x d m k  (same output line as `clone 0 0`, i.e. `u`: a Bitset<M> of ANOTHER capacity M in {1,2,3,20,65},
//!                       from_u64(x) (v = 0) or its complement (v = 1), rendered on this thread with Display (d = 0) /
//!                       Debug (d = 1) into sink m with room k as above)
//!      | iterp a k     (same output line as `iter a`; before that, for_each / fold / position / find / all are run with
//!                       a closure that panics at the k-th item (caught): the panic must happen iff there are more than k
//!                       items, and the listing afterwards is the ordinary one)
//! Every line is executed on a thread of its own, so a history never sees thread-local leftovers of an earlier line.
//! output: one token per op: `u` (done), `P` (panicked), `b0`/`b1`, `n<k>`,
//!         `l<e>:<i,j,...>` (iterator items; e = 1 iff two more next() calls gave None), `s<string>`,
//!         `X<tag>`: two public ways of asking the same question disagreed (`==` vs `!=`, `{}` vs `to_string()`,
//!         `next()` vs `count()`, a failing sink that received something else than a prefix of the rendering, ...):
//!         never what the model predicts.
use rlib_bitset::bits_iter::BitsIter;
use rlib_bitset::Bitset;
use vh::{guarded, p};

/// all items through `next()`, then two more calls (bounded: a broken iterator must not hang the executor)
fn drain(it: &mut impl Iterator<Item = usize>, bound: usize) -> (Vec<usize>, bool) {
    let mut items: Vec<usize> = Vec::new();
    while let Some(v) = it.next() {
        items.push(v);
        if items.len() > bound {
            break;
        }
    }
    let e = it.next().is_none() & it.next().is_none();
    (items, e)
}

fn list_tok(items: &[usize], e: bool) -> String {
    format!("l{}:{}", e as u8, items.iter().map(|v| v.to_string()).collect::<Vec<_>>().join(","))
}

fn hint_ok(h: (usize, Option<usize>), remaining: usize) -> bool {
    h.0 <= remaining && h.1.map_or(true, |u| remaining <= u)
}

fn mix(s: usize, v: usize) -> usize {
    s.wrapping_mul(31).wrapping_add(v).wrapping_add(1)
}

/// every other way of consuming the iterator must agree with `items` (what plain `next()` gave)
fn iter_consistency<const N: usize>(b: &Bitset<N>, items: &[usize], k: usize, j: usize) -> Result<(), &'static str> {
    let cnt = items.len();
    // size_hint while the iterator is consumed with next()
    {
        let mut it = b.iter_bits();
        let every = cnt <= 4096;
        for step in 0..cnt + 2 {
            let remaining = cnt.saturating_sub(step);
            if every || step == 0 || step == k || step + 1 >= cnt {
                if !hint_ok(it.size_hint(), remaining) {
                    return Err("size_hint");
                }
            }
            let got = it.next();
            if got != items.get(step).copied() {
                return Err("next-again");
            }
        }
    }
    // an iterator on which next() was called k times (k may exceed the number of items: calls after the end)
    let mk = |k: usize| {
        let mut it = b.iter_bits();
        for _ in 0..k.min(cnt + 2) {
            it.next();
        }
        it
    };
    let tail = &items[k.min(cnt)..];
    if !hint_ok(mk(k).size_hint(), tail.len()) {
        return Err("size_hint-k");
    }
    if mk(k).count() != tail.len() {
        return Err("count");
    }
    if mk(k).last() != tail.last().copied() {
        return Err("last");
    }
    {
        let mut it = mk(k);
        if it.nth(j) != tail.get(j).copied() {
            return Err("nth");
        }
        if !hint_ok(it.size_hint(), tail.len().saturating_sub(j + 1)) {
            return Err("size_hint-nth");
        }
        if it.next() != tail.get(j + 1).copied() {
            return Err("nth-next");
        }
    }
    if mk(k).fold(7usize, mix) != tail.iter().copied().fold(7usize, mix) {
        return Err("fold");
    }
    if mk(k).sum::<usize>() != tail.iter().sum::<usize>() {
        return Err("sum");
    }
    if mk(k).max() != tail.last().copied() || mk(k).min() != tail.first().copied() {
        return Err("minmax");
    }
    if mk(k).collect::<Vec<usize>>() != tail {
        return Err("collect");
    }
    {
        let mut v: Vec<usize> = Vec::new();
        for x in mk(k) {
            v.push(x);
            if v.len() > cnt + 8 {
                break;
            }
        }
        if v != tail {
            return Err("for");
        }
    }
    {
        let mut seen = 0usize;
        mk(k).for_each(|x| {
            if tail.get(seen) == Some(&x) {
                seen += 1;
            } else {
                seen = usize::MAX / 2;
            }
        });
        if seen != tail.len() {
            return Err("for_each");
        }
    }
    {
        let cut = j.min(tail.len());
        let mut it = mk(k);
        let first: Vec<usize> = it.by_ref().take(j).collect();
        if first != tail[..cut] {
            return Err("take");
        }
        if !hint_ok(it.size_hint(), tail.len() - cut) {
            return Err("size_hint-take");
        }
        if it.count() != tail.len() - cut {
            return Err("count-after-take");
        }
        let mut it = mk(k);
        let mut got = 0;
        for x in it.by_ref() {
            if tail.get(got) != Some(&x) {
                return Err("by_ref-for");
            }
            got += 1;
            if got >= j {
                break;
            }
        }
        let rest: Vec<usize> = it.collect();
        if rest != tail[got.min(tail.len())..] {
            return Err("resume");
        }
    }
    if mk(k).skip(j).next() != tail.get(j).copied() {
        return Err("skip");
    }
    if mk(k).step_by(j + 1).collect::<Vec<usize>>() != tail.iter().copied().step_by(j + 1).collect::<Vec<usize>>() {
        return Err("step_by");
    }
    {
        let mut pk = mk(k).peekable();
        if pk.peek().copied() != tail.first().copied() {
            return Err("peek");
        }
        if pk.collect::<Vec<usize>>() != tail {
            return Err("peekable");
        }
    }
    match tail.get(j) {
        Some(&target) => {
            if mk(k).position(|v| v == target) != Some(j) {
                return Err("position");
            }
            if mk(k).find(|&v| v >= target) != Some(target) {
                return Err("find");
            }
        }
        None => {
            if mk(k).position(|v| v == usize::MAX) != None {
                return Err("position-none");
            }
        }
    }
    if !mk(k).all(|v| v < 64 * N) || mk(k).any(|v| v >= 64 * N) {
        return Err("all-any");
    }
    // two live iterators on the same bitset (and one on a clone), advanced in an interleaved order
    {
        let c = b.clone();
        let (mut i1, mut i2, mut i3) = (b.iter_bits(), b.iter_bits(), c.iter_bits());
        let (mut p1, mut p2, mut p3) = (0usize, 0usize, 0usize);
        for round in 0..cnt + 2 {
            if i1.next() != items.get(p1).copied() {
                return Err("interleave-1");
            }
            p1 += 1;
            if round % 2 == 0 {
                if i2.next() != items.get(p2).copied() {
                    return Err("interleave-2");
                }
                p2 += 1;
            }
            if round % 3 == j % 3 {
                if i3.next() != items.get(p3).copied() {
                    return Err("interleave-3");
                }
                p3 += 1;
            }
        }
        if i2.collect::<Vec<usize>>() != items[p2.min(cnt)..] || i3.count() != cnt - p3.min(cnt) {
            return Err("interleave-rest");
        }
    }
    Ok(())
}

struct Pieces(Vec<String>);
impl std::fmt::Write for Pieces {
    fn write_str(&mut self, s: &str) -> std::fmt::Result {
        self.0.push(s.to_string());
        Ok(())
    }
}

/// the other ways of rendering must give the string `s` that `format!("{}")` / `format!("{:?}")` gave.
/// Width and precision equal to the length of `s` cannot change it whether or not the flags are honoured.
fn fmt_consistency<const N: usize>(b: &Bitset<N>, s: &str, debug: bool) -> Result<(), &'static str> {
    use std::fmt::Write;
    // std limits width / precision arguments to u16; a width below the length is as harmless as one equal to it,
    // a precision below the length is not (it would truncate if honoured), so it is used only when it fits
    let w = s.len().min(65535);
    let prec_ok = s.len() <= 65535;
    let mut pc = Pieces(Vec::new());
    if debug {
        if format!("{:#?}", b) != s {
            return Err("fmt-alt-debug");
        }
        if format!("{:w$?}", b, w = w) != s || format!("{:<w$?}", b, w = w) != s || (prec_ok && format!("{:.w$?}", b, w = w) != s) {
            return Err("fmt-width-debug");
        }
        if write!(pc, "{:?}", b).is_err() || pc.0.concat() != s {
            return Err("fmt-writer-debug");
        }
    } else {
        if b.to_string() != s {
            return Err("fmt-to_string");
        }
        if format!("{:w$}", b, w = w) != s || format!("{:>w$}", b, w = w) != s || (prec_ok && format!("{:.w$}", b, w = w) != s) {
            return Err("fmt-width");
        }
        if write!(pc, "{}", b).is_err() || pc.0.concat() != s {
            return Err("fmt-writer");
        }
        if format!("[{}|{}]", b, b) != format!("[{}|{}]", s, s) {
            return Err("fmt-nested");
        }
    }
    Ok(())
}

/// what the rendering must be according to `test`
fn truth<const M: usize>(b: &Bitset<M>) -> Vec<u8> {
    (0..64 * M).map(|x| if b.test(x) { b'1' } else { b'0' }).collect()
}

/// a text sink with room for `cap` bytes.  kind 0: a chunk that does not fit is refused as a whole, and so is everything
/// after it; kind 1: the part that fits is kept, then fmt::Error; kind 2: the part that fits is kept, then a panic
struct Bounded {
    buf: String,
    cap: usize,
    kind: usize,
    refused: bool,
}
impl std::fmt::Write for Bounded {
    fn write_str(&mut self, s: &str) -> std::fmt::Result {
        let room = self.cap - self.buf.len();
        if !self.refused && s.len() <= room {
            self.buf.push_str(s);
            return Ok(());
        }
        if !self.refused && self.kind != 0 {
            let mut end = 0;
            for (i, c) in s.char_indices() {
                if i + c.len_utf8() > room {
                    break;
                }
                end = i + c.len_utf8();
            }
            self.buf.push_str(&s[..end]);
        }
        self.refused = true;
        if self.kind == 2 {
            panic!("sink failure");
        }
        Err(std::fmt::Error)
    }
}

/// a sink that renders another bitset while it is being written to (a Display impl must not hold anything shared
/// across the call into the sink)
struct Reentrant<'a, const M: usize> {
    buf: String,
    other: &'a Bitset<M>,
    want_other: &'a [u8],
    calls: usize,
    bad: bool,
}
impl<'a, const M: usize> std::fmt::Write for Reentrant<'a, M> {
    fn write_str(&mut self, s: &str) -> std::fmt::Result {
        self.calls += 1;
        if self.calls <= 3 {
            let inner = if self.calls % 2 == 1 { format!("{}", self.other) } else { format!("{:?}", self.other) };
            if inner.as_bytes() != self.want_other {
                self.bad = true;
            }
        }
        self.buf.push_str(s);
        Ok(())
    }
}

fn render_into<const M: usize, W: std::fmt::Write>(w: &mut W, b: &Bitset<M>, debug: bool) -> std::fmt::Result {
    if debug {
        write!(w, "{:?}", b)
    } else {
        write!(w, "{}", b)
    }
}

/// one rendering of `b` into a sink that is not a String (see the header: `fdisp`).  Ok = everything the executor can
/// check about this one call held; what later renderings show is observed by later ops.
fn abnormal<const M: usize>(b: &Bitset<M>, debug: bool, mode: usize, ksel: usize) -> Result<(), &'static str> {
    let want = truth(b);
    let len = want.len();
    let room = |ksel: usize| match ksel {
        0 => 0,
        1 => 1.min(len),
        2 => len / 2,
        3 => len.saturating_sub(1),
        _ => len,
    };
    match mode {
        0 | 1 | 2 => {
            let mut sink = Bounded { buf: String::new(), cap: room(ksel), kind: mode, refused: false };
            let res = guarded(|| render_into(&mut sink, b, debug));
            if !want.starts_with(sink.buf.as_bytes()) {
                return Err("sink-prefix");
            }
            match res {
                Some(Ok(())) => {
                    if sink.refused || sink.buf.len() != len {
                        return Err("sink-ok-but-incomplete");
                    }
                }
                Some(Err(_)) => {
                    if !sink.refused {
                        return Err("sink-spurious-error");
                    }
                }
                None => {
                    if mode != 2 || !sink.refused {
                        return Err("sink-panic");
                    }
                }
            }
            if sink.refused && len <= sink.cap {
                return Err("sink-overrun");
            }
            Ok(())
        }
        3 => {
            let other = !b.clone();
            let want_other = truth(&other);
            let mut sink = Reentrant { buf: String::new(), other: &other, want_other: &want_other, calls: 0, bad: false };
            match guarded(|| render_into(&mut sink, b, debug)) {
                Some(Ok(())) => {}
                Some(Err(_)) => return Err("sink-reentrant-error"),
                None => return Err("sink-reentrant-panic"),
            }
            if sink.bad {
                return Err("sink-reentrant-inner");
            }
            if sink.buf.as_bytes() != &want[..] {
                return Err("sink-reentrant-outer");
            }
            Ok(())
        }
        4 => {
            let c = b.clone();
            let cap = room(ksel);
            let h = std::thread::Builder::new().stack_size(16 << 20).spawn(move || {
                let mut sink = Bounded { buf: String::new(), cap, kind: 1, refused: false };
                let first = render_into(&mut sink, &c, debug);
                let e = Bitset::<M>::new();
                (first.is_ok(), sink.refused, sink.buf, format!("{}", e), format!("{:?}", c), c.to_string())
            });
            let (ok, refused, buf, empty, s1, s2) = match h.map(|h| h.join()) {
                Ok(Ok(v)) => v,
                _ => return Err("thread-panic"),
            };
            if ok == refused || !want.starts_with(buf.as_bytes()) || (ok && buf.len() != len) {
                return Err("thread-sink");
            }
            if empty.len() != len || empty.bytes().any(|ch| ch != b'0') {
                return Err("thread-empty");
            }
            if s1.as_bytes() != &want[..] || s2.as_bytes() != &want[..] {
                return Err("thread-render");
            }
            Ok(())
        }
        _ => {
            let s = if debug { format!("{:?}", b) } else { format!("{}", b) };
            if s.as_bytes() != &want[..] {
                return Err("fmt-vs-test");
            }
            fmt_consistency(b, &s, debug)
        }
    }
}

/// `xr`: a bitset of another capacity rendered on the same thread
fn foreign(m: usize, v: usize, pat: u64, debug: bool, mode: usize, ksel: usize) -> Result<(), &'static str> {
    fn go<const M: usize>(v: usize, pat: u64, debug: bool, mode: usize, ksel: usize) -> Result<(), &'static str> {
        let mut b = Bitset::<M>::from_u64(pat);
        if v == 1 {
            b = !b;
        }
        abnormal(&b, debug, mode, ksel)
    }
    match m {
        1 => go::<1>(v, pat, debug, mode, ksel),
        2 => go::<2>(v, pat, debug, mode, ksel),
        3 => go::<3>(v, pat, debug, mode, ksel),
        20 => go::<20>(v, pat, debug, mode, ksel),
        65 => go::<65>(v, pat, debug, mode, ksel),
        other => {
            eprintln!("harness: unsupported foreign capacity {}", other);
            std::process::exit(3)
        }
    }
}

/// consumers whose closure panics at the k-th item: the panic happens iff there are more than k items
fn iter_panics<const N: usize>(b: &Bitset<N>, cnt: usize, k: usize) -> Result<(), &'static str> {
    let expect_panic = cnt > k;
    let r1 = guarded(|| {
        let mut seen = 0usize;
        b.iter_bits().for_each(|_| {
            if seen == k {
                panic!("consumer failure");
            }
            seen += 1;
        });
        seen
    });
    let r2 = guarded(|| {
        b.iter_bits().fold(0usize, |s, _| {
            if s == k {
                panic!("consumer failure");
            }
            s + 1
        })
    });
    let r3 = guarded(|| {
        let mut seen = 0usize;
        let p = b.iter_bits().position(|_| {
            if seen == k {
                panic!("consumer failure");
            }
            seen += 1;
            false
        });
        if p.is_some() {
            usize::MAX
        } else {
            seen
        }
    });
    let r4 = guarded(|| {
        let mut seen = 0usize;
        let all = b.iter_bits().all(|v| {
            if seen == k {
                panic!("consumer failure");
            }
            seen += 1;
            v < 64 * N
        });
        if all {
            seen
        } else {
            usize::MAX
        }
    });
    for r in [r1, r2, r3, r4] {
        match r {
            None if expect_panic => {}
            Some(c) if !expect_panic && c == cnt => {}
            _ => return Err("consumer-panic"),
        }
    }
    Ok(())
}

fn run<const N: usize>(t: &[&str]) -> String {
    let mut r: Vec<Bitset<N>> = (0..4).map(|_| Bitset::<N>::new()).collect();
    let mut out: Vec<String> = Vec::new();
    let mut i = 1;
    let unit = |o: Option<()>| if o.is_some() { "u".to_string() } else { "P".to_string() };
    let bound = 64 * N + 8;
    while i < t.len() {
        let op = t[i];
        let a1: usize = p(t[i + 1]);
        let res = match op {
            "new" => {
                i += 2;
                // both public ways to get the empty set: new() and the Default impl
                unit(guarded(|| r[a1] = if a1 % 2 == 0 { Bitset::<N>::new() } else { Bitset::<N>::default() }))
            }
            "from" => {
                let x: u64 = p(t[i + 2]);
                i += 3;
                unit(guarded(|| r[a1] = Bitset::<N>::from_u64(x)))
            }
            "set" | "rem" | "flip" => {
                let x: usize = p(t[i + 2]);
                i += 3;
                unit(guarded(|| match op {
                    "set" => r[a1].set(x),
                    "rem" => r[a1].remove(x),
                    _ => r[a1].flip(x),
                }))
            }
            "test" => {
                let x: usize = p(t[i + 2]);
                i += 3;
                match guarded(|| r[a1].test(x)) {
                    Some(b) => format!("b{}", b as u8),
                    None => "P".to_string(),
                }
            }
            "clear" => {
                i += 2;
                unit(guarded(|| r[a1].clear()))
            }
            "count" => {
                i += 2;
                match guarded(|| r[a1].count()) {
                    Some(c) => format!("n{}", c),
                    None => "P".to_string(),
                }
            }
            "iter" => {
                i += 2;
                match guarded(|| drain(&mut r[a1].iter_bits(), bound)) {
                    Some((items, e)) => list_tok(&items, e),
                    None => "P".to_string(),
                }
            }
            "iterx" => {
                let (k, j): (usize, usize) = (p(t[i + 2]), p(t[i + 3]));
                i += 4;
                match guarded(|| {
                    let (items, e) = drain(&mut r[a1].iter_bits(), bound);
                    if items.len() > bound {
                        return (items, e, Ok(())); // already wrong: shown as it is
                    }
                    let c = iter_consistency(&r[a1], &items, k, j);
                    (items, e, c)
                }) {
                    Some((items, e, Ok(()))) => list_tok(&items, e),
                    Some((_, _, Err(tag))) => format!("Xiter-{}", tag),
                    None => "P".to_string(),
                }
            }
            "itern" => {
                let (k, j): (usize, usize) = (p(t[i + 2]), p(t[i + 3]));
                i += 4;
                match guarded(|| {
                    let (items, e) = drain(&mut r[a1].iter_bits(), bound);
                    if !e || items.len() > bound {
                        return Err("not-ended");
                    }
                    if items.windows(2).any(|w| w[0] >= w[1]) || items.iter().any(|&v| v >= 64 * N) {
                        return Err("order");
                    }
                    let mut pos = 0usize;
                    for x in 0..64 * N {
                        let member = pos < items.len() && items[pos] == x;
                        if member {
                            pos += 1;
                        }
                        if r[a1].test(x) != member {
                            return Err("vs-test");
                        }
                    }
                    iter_consistency(&r[a1], &items, k, j)?;
                    Ok(items.len())
                }) {
                    Some(Ok(c)) => format!("n{}", c),
                    Some(Err(tag)) => format!("Xitern-{}", tag),
                    None => "P".to_string(),
                }
            }
            "dispn" | "dbgn" => {
                i += 2;
                let debug = op == "dbgn";
                match guarded(|| {
                    let s = if debug { format!("{:?}", r[a1]) } else { format!("{}", r[a1]) };
                    fmt_consistency(&r[a1], &s, debug)?;
                    let b = s.as_bytes();
                    if b.len() != 64 * N {
                        return Err("fmt-length");
                    }
                    let mut ones = 0usize;
                    for x in 0..64 * N {
                        let want = if r[a1].test(x) { b'1' } else { b'0' };
                        if b[x] != want {
                            return Err("fmt-vs-test");
                        }
                        ones += (b[x] == b'1') as usize;
                    }
                    Ok(ones)
                }) {
                    Some(Ok(c)) => format!("n{}", c),
                    Some(Err(tag)) => format!("X{}", tag),
                    None => "P".to_string(),
                }
            }
            "iterraw" => {
                i += 2;
                match guarded(|| {
                    let mut arr = [0u64; N];
                    for x in 0..64 * N {
                        if r[a1].test(x) {
                            arr[x / 64] |= 1u64 << (x % 64);
                        }
                    }
                    let mut it = BitsIter::new(&arr);
                    drain(&mut it, bound)
                }) {
                    Some((items, e)) => list_tok(&items, e),
                    None => "P".to_string(),
                }
            }
            "and" | "or" | "xor" => {
                let (a, b): (usize, usize) = (p(t[i + 2]), p(t[i + 3]));
                i += 4;
                unit(guarded(|| {
                    let v = match op {
                        "and" => &r[a] & &r[b],
                        "or" => &r[a] | &r[b],
                        _ => &r[a] ^ &r[b],
                    };
                    r[a1] = v;
                }))
            }
            "anda" | "ora" | "xora" => {
                let b: usize = p(t[i + 2]);
                i += 3;
                unit(guarded(|| {
                    let rhs = r[b].clone();
                    match op {
                        "anda" => r[a1] &= &rhs,
                        "ora" => r[a1] |= &rhs,
                        _ => r[a1] ^= &rhs,
                    }
                }))
            }
            "not" => {
                let a: usize = p(t[i + 2]);
                i += 3;
                unit(guarded(|| r[a1] = !r[a].clone()))
            }
            "eq" => {
                let b: usize = p(t[i + 2]);
                i += 3;
                // `==`, and the three other ways of asking the same question: `!=`, and both with the operands swapped
                match guarded(|| (r[a1] == r[b], r[a1] != r[b], r[b] == r[a1], r[b] != r[a1])) {
                    Some((e, ne, es, nes)) => {
                        if ne == e || nes == es {
                            "Xeq-ne".to_string()
                        } else if es != e {
                            "Xeq-sym".to_string()
                        } else {
                            format!("b{}", e as u8)
                        }
                    }
                    None => "P".to_string(),
                }
            }
            "clone" => {
                let a: usize = p(t[i + 2]);
                i += 3;
                unit(guarded(|| r[a1] = r[a].clone()))
            }
            "clonefrom" => {
                let a: usize = p(t[i + 2]);
                i += 3;
                unit(guarded(|| {
                    let src = r[a].clone();
                    r[a1].clone_from(&src);
                }))
            }
            "fdisp" | "fdbg" => {
                let (m, k): (usize, usize) = (p(t[i + 2]), p(t[i + 3]));
                i += 4;
                match guarded(|| abnormal(&r[a1], op == "fdbg", m, k).map(|_| r[a1].count())) {
                    Some(Ok(c)) => format!("n{}", c),
                    Some(Err(tag)) => format!("X{}", tag),
                    None => "P".to_string(),
                }
            }
            "xr" => {
                let (v, x, d, m, k): (usize, u64, usize, usize, usize) =
                    (p(t[i + 2]), p(t[i + 3]), p(t[i + 4]), p(t[i + 5]), p(t[i + 6]));
                i += 7;
                match guarded(|| foreign(a1, v, x, d == 1, m, k)) {
                    Some(Ok(())) => "u".to_string(),
                    Some(Err(tag)) => format!("Xforeign-{}", tag),
                    None => "P".to_string(),
                }
            }
            "iterp" => {
                let k: usize = p(t[i + 2]);
                i += 3;
                match guarded(|| {
                    let (items, e) = drain(&mut r[a1].iter_bits(), bound);
                    if items.len() > bound {
                        return (items, e, Ok(()));
                    }
                    let c = iter_panics(&r[a1], items.len(), k);
                    let (again, e2) = drain(&mut r[a1].iter_bits(), bound);
                    let c = c.and(if again == items && e2 == e { Ok(()) } else { Err("after-consumer-panic") });
                    (again, e2, c)
                }) {
                    Some((items, e, Ok(()))) => list_tok(&items, e),
                    Some((_, _, Err(tag))) => format!("Xiter-{}", tag),
                    None => "P".to_string(),
                }
            }
            "disp" | "dbg" => {
                i += 2;
                let debug = op == "dbg";
                match guarded(|| {
                    let s = if debug { format!("{:?}", r[a1]) } else { format!("{}", r[a1]) };
                    let c = fmt_consistency(&r[a1], &s, debug);
                    (s, c)
                }) {
                    Some((s, Ok(()))) => format!("s{}", s),
                    Some((_, Err(tag))) => format!("X{}", tag),
                    None => "P".to_string(),
                }
            }
            other => {
                eprintln!("harness: unknown op {}", other);
                std::process::exit(3)
            }
        };
        out.push(res);
    }
    if out.is_empty() {
        "-".to_string()
    } else {
        out.join(" ")
    }
}

fn dispatch(t: &[&str]) -> String {
    match t[0] {
        "0" => run::<0>(t),
        "1" => run::<1>(t),
        "2" => run::<2>(t),
        "3" => run::<3>(t),
        "4" => run::<4>(t),
        "8" => run::<8>(t),
        "10" => run::<10>(t),
        "16" => run::<16>(t),
        "17" => run::<17>(t),
        "20" => run::<20>(t),
        "32" => run::<32>(t),
        "33" => run::<33>(t),
        "64" => run::<64>(t),
        "65" => run::<65>(t),
        "128" => run::<128>(t),
        "129" => run::<129>(t),
        "157" => run::<157>(t),
        "1024" => run::<1024>(t),
        "1025" => run::<1025>(t),
        other => {
            eprintln!("harness: unsupported N {}", other);
            std::process::exit(3)
        }
    }
}

fn main() {
    // one thread per line: thread-local state of the library (if any) cannot travel from one case to the next, so every
    // case and every replay means the same whatever ran before it
    vh::serve(|t| {
        let owned: Vec<String> = t.iter().map(|x| x.to_string()).collect();
        let h = std::thread::Builder::new().stack_size(64 << 20).spawn(move || {
            let refs: Vec<&str> = owned.iter().map(|x| x.as_str()).collect();
            dispatch(&refs)
        });
        match h.map(|h| h.join()) {
            Ok(Ok(s)) => s,
            _ => "P".to_string(),
        }
    });
}
