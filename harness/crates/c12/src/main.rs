//! C12 executor.  One line = one history on four `Bitset<N>` registers, all starting as `new()`:
//!   `<N> <op> <args> <op> <args> ...`      N in {0, 1, 2, 3, 4, 8, 10, 16, 17, 20, 32, 33, 64, 65, 128, 129, 157, 1024, 1025}
//! ops: new d | from d x | set d x | rem d x | flip d x | test a x | clear d | count a | iter a
//!      | and/or/xor d a b  (d = &a op &b) | anda/ora/xora a b  (a op= &b) | not d a | eq a b
//!      | clone d a | disp a | dbg a
//!      | iterx a k j   (same output line as `iter a`; additionally every provided Iterator method that a user can
//!                       call on the iterator - size_hint, count, last, nth, fold, sum, min, max, collect, for, by_ref+take,
//!                       skip, step_by, peekable, position, two live iterators - is compared with the items that plain
//!                       `next()` produced, after k items have been consumed and with parameter j)
//!      | iterraw a     (same output line as `iter a`, produced by the public constructor `BitsIter::new` on a raw
//!                       `[u64; N]` rebuilt from `test`)
//!      | clonefrom d a (`d.clone_from(&a)`; same output as `clone d a`)
//!      | itern a k j   (same output line as `count a`: the NUMBER of items of `iter_bits`, after checking inside the
//!                       executor that the items are strictly ascending, are exactly the indices with `test` = true,
//!                       that the iterator stays at None, and everything `iterx a k j` checks; for sets too large to
//!                       replay item by item in the Coq model)
//!      | dispn a | dbgn a  (same output line as `count a`: the number of '1' characters of the rendering, after
//!                       checking inside the executor that it has 64*N characters and character i is '1' iff `test(i)`)
//! output: one token per op: `u` (done), `P` (panicked), `b0`/`b1`, `n<k>`,
//!         `l<e>:<i,j,...>` (iterator items; e = 1 iff two more next() calls gave None), `s<string>`,
//!         `X<tag>`: two public ways of asking the same question disagreed (`==` vs `!=`, `{}` vs `to_string()`,
//!         `next()` vs `count()`, ...): never what the model predicts.
use rlib_bitset::bits_iter::BitsIter;
use rlib_bitset::Bitset;
use vh::{guarded, p};

/// all items through `next()`, then two more calls (bounded: a broken iterator must not hang the executor)
fn drain(it: &mut impl Iterator<Item = usize>, bound: usize) -> (Vec<usize>, bool) {
    let mut items: Vec<usize> = Vec::new();
    while let Some(v) = it.next() {
        items.push(v);
        if items.len() > bound {
            break;
        }
    }
    let e = it.next().is_none() & it.next().is_none();
    (items, e)
}

fn list_tok(items: &[usize], e: bool) -> String {
    format!("l{}:{}", e as u8, items.iter().map(|v| v.to_string()).collect::<Vec<_>>().join(","))
}

fn hint_ok(h: (usize, Option<usize>), remaining: usize) -> bool {
    h.0 <= remaining && h.1.map_or(true, |u| remaining <= u)
}

fn mix(s: usize, v: usize) -> usize {
    s.wrapping_mul(31).wrapping_add(v).wrapping_add(1)
}

/// every other way of consuming the iterator must agree with `items` (what plain `next()` gave)
fn iter_consistency<const N: usize>(b: &Bitset<N>, items: &[usize], k: usize, j: usize) -> Result<(), &'static str> {
    let cnt = items.len();
    // size_hint while the iterator is consumed with next()
    {
        let mut it = b.iter_bits();
        let every = cnt <= 4096;
        for step in 0..cnt + 2 {
            let remaining = cnt.saturating_sub(step);
            if every || step == 0 || step == k || step + 1 >= cnt {
                if !hint_ok(it.size_hint(), remaining) {
                    return Err("size_hint");
                }
            }
            let got = it.next();
            if got != items.get(step).copied() {
                return Err("next-again");
            }
        }
    }
    // an iterator on which next() was called k times (k may exceed the number of items: calls after the end)
    let mk = |k: usize| {
        let mut it = b.iter_bits();
        for _ in 0..k.min(cnt + 2) {
            it.next();
        }
        it
    };
    let tail = &items[k.min(cnt)..];
    if !hint_ok(mk(k).size_hint(), tail.len()) {
        return Err("size_hint-k");
    }
    if mk(k).count() != tail.len() {
        return Err("count");
    }
    if mk(k).last() != tail.last().copied() {
        return Err("last");
    }
    {
        let mut it = mk(k);
        if it.nth(j) != tail.get(j).copied() {
            return Err("nth");
        }
        if !hint_ok(it.size_hint(), tail.len().saturating_sub(j + 1)) {
            return Err("size_hint-nth");
        }
        if it.next() != tail.get(j + 1).copied() {
            return Err("nth-next");
        }
    }
    if mk(k).fold(7usize, mix) != tail.iter().copied().fold(7usize, mix) {
        return Err("fold");
    }
    if mk(k).sum::<usize>() != tail.iter().sum::<usize>() {
        return Err("sum");
    }
    if mk(k).max() != tail.last().copied() || mk(k).min() != tail.first().copied() {
        return Err("minmax");
    }
    if mk(k).collect::<Vec<usize>>() != tail {
        return Err("collect");
    }
    {
        let mut v: Vec<usize> = Vec::new();
        for x in mk(k) {
            v.push(x);
            if v.len() > cnt + 8 {
                break;
            }
        }
        if v != tail {
            return Err("for");
        }
    }
    {
        let mut seen = 0usize;
        mk(k).for_each(|x| {
            if tail.get(seen) == Some(&x) {
                seen += 1;
            } else {
                seen = usize::MAX / 2;
            }
        });
        if seen != tail.len() {
            return Err("for_each");
        }
    }
    {
        let cut = j.min(tail.len());
        let mut it = mk(k);
        let first: Vec<usize> = it.by_ref().take(j).collect();
        if first != tail[..cut] {
            return Err("take");
        }
        if !hint_ok(it.size_hint(), tail.len() - cut) {
            return Err("size_hint-take");
        }
        if it.count() != tail.len() - cut {
            return Err("count-after-take");
        }
        let mut it = mk(k);
        let mut got = 0;
        for x in it.by_ref() {
            if tail.get(got) != Some(&x) {
                return Err("by_ref-for");
            }
            got += 1;
            if got >= j {
                break;
            }
        }
        let rest: Vec<usize> = it.collect();
        if rest != tail[got.min(tail.len())..] {
            return Err("resume");
        }
    }
    if mk(k).skip(j).next() != tail.get(j).copied() {
        return Err("skip");
    }
    if mk(k).step_by(j + 1).collect::<Vec<usize>>() != tail.iter().copied().step_by(j + 1).collect::<Vec<usize>>() {
        return Err("step_by");
    }
    {
        let mut pk = mk(k).peekable();
        if pk.peek().copied() != tail.first().copied() {
            return Err("peek");
        }
        if pk.collect::<Vec<usize>>() != tail {
            return Err("peekable");
        }
    }
    match tail.get(j) {
        Some(&target) => {
            if mk(k).position(|v| v == target) != Some(j) {
                return Err("position");
            }
            if mk(k).find(|&v| v >= target) != Some(target) {
                return Err("find");
            }
        }
        None => {
            if mk(k).position(|v| v == usize::MAX) != None {
                return Err("position-none");
            }
        }
    }
    if !mk(k).all(|v| v < 64 * N) || mk(k).any(|v| v >= 64 * N) {
        return Err("all-any");
    }
    // two live iterators on the same bitset (and one on a clone), advanced in an interleaved order
    {
        let c = b.clone();
        let (mut i1, mut i2, mut i3) = (b.iter_bits(), b.iter_bits(), c.iter_bits());
        let (mut p1, mut p2, mut p3) = (0usize, 0usize, 0usize);
        for round in 0..cnt + 2 {
            if i1.next() != items.get(p1).copied() {
                return Err("interleave-1");
            }
            p1 += 1;
            if round % 2 == 0 {
                if i2.next() != items.get(p2).copied() {
                    return Err("interleave-2");
                }
                p2 += 1;
            }
            if round % 3 == j % 3 {
                if i3.next() != items.get(p3).copied() {
                    return Err("interleave-3");
                }
                p3 += 1;
            }
        }
        if i2.collect::<Vec<usize>>() != items[p2.min(cnt)..] || i3.count() != cnt - p3.min(cnt) {
            return Err("interleave-rest");
        }
    }
    Ok(())
}

struct Pieces(Vec<String>);
impl std::fmt::Write for Pieces {
    fn write_str(&mut self, s: &str) -> std::fmt::Result {
        self.0.push(s.to_string());
        Ok(())
    }
}

/// the other ways of rendering must give the string `s` that `format!("{}")` / `format!("{:?}")` gave.
/// Width and precision equal to the length of `s` cannot change it whether or not the flags are honoured.
fn fmt_consistency<const N: usize>(b: &Bitset<N>, s: &str, debug: bool) -> Result<(), &'static str> {
    use std::fmt::Write;
    // std limits width / precision arguments to u16; a width below the length is as harmless as one equal to it,
    // a precision below the length is not (it would truncate if honoured), so it is used only when it fits
    let w = s.len().min(65535);
    let prec_ok = s.len() <= 65535;
    let mut pc = Pieces(Vec::new());
    if debug {
        if format!("{:#?}", b) != s {
            return Err("fmt-alt-debug");
        }
        if format!("{:w$?}", b, w = w) != s || format!("{:<w$?}", b, w = w) != s || (prec_ok && format!("{:.w$?}", b, w = w) != s) {
            return Err("fmt-width-debug");
        }
        if write!(pc, "{:?}", b).is_err() || pc.0.concat() != s {
            return Err("fmt-writer-debug");
        }
    } else {
        if b.to_string() != s {
            return Err("fmt-to_string");
        }
        if format!("{:w$}", b, w = w) != s || format!("{:>w$}", b, w = w) != s || (prec_ok && format!("{:.w$}", b, w = w) != s) {
            return Err("fmt-width");
        }
        if write!(pc, "{}", b).is_err() || pc.0.concat() != s {
            return Err("fmt-writer");
        }
        if format!("[{}|{}]", b, b) != format!("[{}|{}]", s, s) {
            return Err("fmt-nested");
        }
    }
    Ok(())
}

fn run<const N: usize>(t: &[&str]) -> String {
    let mut r: Vec<Bitset<N>> = (0..4).map(|_| Bitset::<N>::new()).collect();
    let mut out: Vec<String> = Vec::new();
    let mut i = 1;
    let unit = |o: Option<()>| if o.is_some() { "u".to_string() } else { "P".to_string() };
    let bound = 64 * N + 8;
    while i < t.len() {
        let op = t[i];
        let a1: usize = p(t[i + 1]);
        let res = match op {
            "new" => {
                i += 2;
                // both public ways to get the empty set: new() and the Default impl
                unit(guarded(|| r[a1] = if a1 % 2 == 0 { Bitset::<N>::new() } else { Bitset::<N>::default() }))
            }
            "from" => {
                let x: u64 = p(t[i + 2]);
                i += 3;
                unit(guarded(|| r[a1] = Bitset::<N>::from_u64(x)))
            }
            "set" | "rem" | "flip" => {
                let x: usize = p(t[i + 2]);
                i += 3;
                unit(guarded(|| match op {
                    "set" => r[a1].set(x),
                    "rem" => r[a1].remove(x),
                    _ => r[a1].flip(x),
                }))
            }
            "test" => {
                let x: usize = p(t[i + 2]);
                i += 3;
                match guarded(|| r[a1].test(x)) {
                    Some(b) => format!("b{}", b as u8),
                    None => "P".to_string(),
                }
            }
            "clear" => {
                i += 2;
                unit(guarded(|| r[a1].clear()))
            }
            "count" => {
                i += 2;
                match guarded(|| r[a1].count()) {
                    Some(c) => format!("n{}", c),
                    None => "P".to_string(),
                }
            }
            "iter" => {
                i += 2;
                match guarded(|| drain(&mut r[a1].iter_bits(), bound)) {
                    Some((items, e)) => list_tok(&items, e),
                    None => "P".to_string(),
                }
            }
            "iterx" => {
                let (k, j): (usize, usize) = (p(t[i + 2]), p(t[i + 3]));
                i += 4;
                match guarded(|| {
                    let (items, e) = drain(&mut r[a1].iter_bits(), bound);
                    if items.len() > bound {
                        return (items, e, Ok(())); // already wrong: shown as it is
                    }
                    let c = iter_consistency(&r[a1], &items, k, j);
                    (items, e, c)
                }) {
                    Some((items, e, Ok(()))) => list_tok(&items, e),
                    Some((_, _, Err(tag))) => format!("Xiter-{}", tag),
                    None => "P".to_string(),
                }
            }
            "itern" => {
                let (k, j): (usize, usize) = (p(t[i + 2]), p(t[i + 3]));
                i += 4;
                match guarded(|| {
                    let (items, e) = drain(&mut r[a1].iter_bits(), bound);
                    if !e || items.len() > bound {
                        return Err("not-ended");
                    }
                    if items.windows(2).any(|w| w[0] >= w[1]) || items.iter().any(|&v| v >= 64 * N) {
                        return Err("order");
                    }
                    let mut pos = 0usize;
                    for x in 0..64 * N {
                        let member = pos < items.len() && items[pos] == x;
                        if member {
                            pos += 1;
                        }
                        if r[a1].test(x) != member {
                            return Err("vs-test");
                        }
                    }
                    iter_consistency(&r[a1], &items, k, j)?;
                    Ok(items.len())
                }) {
                    Some(Ok(c)) => format!("n{}", c),
                    Some(Err(tag)) => format!("Xitern-{}", tag),
                    None => "P".to_string(),
                }
            }
            "dispn" | "dbgn" => {
                i += 2;
                let debug = op == "dbgn";
                match guarded(|| {
                    let s = if debug { format!("{:?}", r[a1]) } else { format!("{}", r[a1]) };
                    fmt_consistency(&r[a1], &s, debug)?;
                    let b = s.as_bytes();
                    if b.len() != 64 * N {
                        return Err("fmt-length");
                    }
                    let mut ones = 0usize;
                    for x in 0..64 * N {
                        let want = if r[a1].test(x) { b'1' } else { b'0' };
                        if b[x] != want {
                            return Err("fmt-vs-test");
                        }
                        ones += (b[x] == b'1') as usize;
                    }
                    Ok(ones)
                }) {
                    Some(Ok(c)) => format!("n{}", c),
                    Some(Err(tag)) => format!("X{}", tag),
                    None => "P".to_string(),
                }
            }
            "iterraw" => {
                i += 2;
                match guarded(|| {
                    let mut arr = [0u64; N];
                    for x in 0..64 * N {
                        if r[a1].test(x) {
                            arr[x / 64] |= 1u64 << (x % 64);
                        }
                    }
                    let mut it = BitsIter::new(&arr);
                    drain(&mut it, bound)
                }) {
                    Some((items, e)) => list_tok(&items, e),
                    None => "P".to_string(),
                }
            }
            "and" | "or" | "xor" => {
                let (a, b): (usize, usize) = (p(t[i + 2]), p(t[i + 3]));
                i += 4;
                unit(guarded(|| {
                    let v = match op {
                        "and" => &r[a] & &r[b],
                        "or" => &r[a] | &r[b],
                        _ => &r[a] ^ &r[b],
                    };
                    r[a1] = v;
                }))
            }
            "anda" | "ora" | "xora" => {
                let b: usize = p(t[i + 2]);
                i += 3;
                unit(guarded(|| {
                    let rhs = r[b].clone();
                    match op {
                        "anda" => r[a1] &= &rhs,
                        "ora" => r[a1] |= &rhs,
                        _ => r[a1] ^= &rhs,
                    }
                }))
            }
            "not" => {
                let a: usize = p(t[i + 2]);
                i += 3;
                unit(guarded(|| r[a1] = !r[a].clone()))
            }
            "eq" => {
                let b: usize = p(t[i + 2]);
                i += 3;
                // `==`, and the three other ways of asking the same question: `!=`, and both with the operands swapped
                match guarded(|| (r[a1] == r[b], r[a1] != r[b], r[b] == r[a1], r[b] != r[a1])) {
                    Some((e, ne, es, nes)) => {
                        if ne == e || nes == es {
                            "Xeq-ne".to_string()
                        } else if es != e {
                            "Xeq-sym".to_string()
                        } else {
                            format!("b{}", e as u8)
                        }
                    }
                    None => "P".to_string(),
                }
            }
            "clone" => {
                let a: usize = p(t[i + 2]);
                i += 3;
                unit(guarded(|| r[a1] = r[a].clone()))
            }
            "clonefrom" => {
                let a: usize = p(t[i + 2]);
                i += 3;
                unit(guarded(|| {
                    let src = r[a].clone();
                    r[a1].clone_from(&src);
                }))
            }
            "disp" | "dbg" => {
                i += 2;
                let debug = op == "dbg";
                match guarded(|| {
                    let s = if debug { format!("{:?}", r[a1]) } else { format!("{}", r[a1]) };
                    let c = fmt_consistency(&r[a1], &s, debug);
                    (s, c)
                }) {
                    Some((s, Ok(()))) => format!("s{}", s),
                    Some((_, Err(tag))) => format!("X{}", tag),
                    None => "P".to_string(),
                }
            }
            other => {
                eprintln!("harness: unknown op {}", other);
                std::process::exit(3)
            }
        };
        out.push(res);
    }
    if out.is_empty() {
        "-".to_string()
    } else {
        out.join(" ")
    }
}

fn main() {
    vh::serve(|t| match t[0] {
        "0" => run::<0>(t),
        "1" => run::<1>(t),
        "2" => run::<2>(t),
        "3" => run::<3>(t),
        "4" => run::<4>(t),
        "8" => run::<8>(t),
        "10" => run::<10>(t),
        "16" => run::<16>(t),
        "17" => run::<17>(t),
        "20" => run::<20>(t),
        "32" => run::<32>(t),
        "33" => run::<33>(t),
        "64" => run::<64>(t),
        "65" => run::<65>(t),
        "128" => run::<128>(t),
        "129" => run::<129>(t),
        "157" => run::<157>(t),
        "1024" => run::<1024>(t),
        "1025" => run::<1025>(t),
        other => {
            eprintln!("harness: unsupported N {}", other);
            std::process::exit(3)
        }
    });
}
