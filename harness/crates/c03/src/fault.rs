//! C16: faults in USER code that runs inside a library call, and user callbacks that re-enter the library.
//!
//! One event `E:<what>:<where>:<m>:<pos>:<cb>:<tid>:<k>:<act>:<r>:<q>` works on a throw-away `Treap<Bomb>` (never observed
//! afterwards: after a panic inside an operation its state is unspecified) and leaves the process in whatever state the
//! library is in after the abnormal exit.  What is observed is everything that happens AFTERWARDS on other treaps: the next
//! draw of the priority generator (the probe: `TreapNode::new(..).priority`, printed in the token) and, by the caller, the
//! fresh treaps built after the event.
//!
//!   setup     m nodes appended with insert_at (ids 0..m-1; m draws), callbacks switched off
//!   what      ins  t.insert_at(pos, item m)                     nod  the same through TreapNode::{split_at, new, merge, merge}
//!             mrg  merge(t, from_item(item m)) (pos odd: merge(from_item(item m), t))
//!             spl  t.split_at(pos)        spb  t.split_by(id < pos) (the predicate is callback kind 3)
//!             rem  t.remove_at(min(pos, m-1))       col  t.collect()      fst  t.first()      lst  t.last()
//!   cb        which callback of the item type may fire: 0 update, 1 push, 2 size, 3 the split_by predicate
//!   tid       -1: every call of that callback counts; otherwise only calls that involve the item with this id (as `self` or
//!             as one of the children handed to the callback) - `tid = m` is "the first update the NEW node takes part in",
//!             which by construction happens after the node was created, inside the merges of insert_at
//!   k         the k-th counted call fires (once; the switch is off afterwards)
//!   act       0 panic
//!             1 re-enter the library: r times drop(TreapNode::new(..))          3 = 1, then panic
//!             2 re-enter the library: a treap of r nodes built with insert_at, collected and checked     4 = 2, then panic
//!             5 as 2 on a thread spawned (and joined) inside the callback
//!   where     c  the whole event under catch_unwind on the line's own thread
//!             t  the whole event on a worker thread (which dies if the callback panics)
//!             p  as c, while a helper thread builds a treap of q nodes by sorted appends (started together behind a barrier)
//!             q  as t, while the line's own thread builds that treap
//!   The helper's treap is checked on the spot (heap order, height <= 3*floor(log2(q+1))+12, at most one repeated priority);
//!   a failure prints `!helper`.  A nested treap (act 2 / 4 / 5) that is not a heap of r nodes prints `!nested`.
//! Token: `E:<fired 0/1>:<panicked 0/1>:<probe priority>`.  The plugin knows how many draws the event must have consumed
//! (m + [the new node] + r re-entrant nodes if fired + q) and compares the probe with that draw of the modelled stream.
//! A hang (a callback that re-enters the library while the library holds a lock) is turned into an observation by the
//! watchdog of main.rs (history lines with an event run in a child process) resp. by the plugin's time-out (family search).
use crate::{HItem, ItemSized};
use rlib_treap::*;
use std::panic::{catch_unwind, AssertUnwindSafe};
use std::sync::atomic::{AtomicBool, AtomicI64, AtomicU32, Ordering::SeqCst};
use std::sync::{Arc, Barrier};
use vh::p;

const ANY: u32 = u32::MAX;
static ARMED: AtomicBool = AtomicBool::new(false);
static CB: AtomicU32 = AtomicU32::new(0);
static TID: AtomicU32 = AtomicU32::new(ANY);
static FUSE: AtomicI64 = AtomicI64::new(0);
static ACT: AtomicU32 = AtomicU32::new(0);
static RE: AtomicU32 = AtomicU32::new(0);
static FIRED: AtomicU32 = AtomicU32::new(0);
static NESTED_BAD: AtomicBool = AtomicBool::new(false);

/// id + subtree size; every callback asks the switch whether it is its turn to misbehave
pub struct Bomb {
    id: u32,
    sz: u32,
}

impl Bomb {
    fn new(id: u32) -> Self {
        Bomb { id, sz: 1 }
    }
}

impl TreapItem for Bomb {
    fn update(&mut self, left: Option<&Self>, right: Option<&Self>) {
        fire(0, [Some(self.id), left.map(|i| i.id), right.map(|i| i.id)]);
        self.sz = left.map(|i| i.sz).unwrap_or(0) + right.map(|i| i.sz).unwrap_or(0) + 1;
    }

    fn push(&mut self, left: Option<&mut Self>, right: Option<&mut Self>) {
        fire(1, [Some(self.id), left.map(|i| i.id), right.map(|i| i.id)]);
    }
}

impl TreapItemSized for Bomb {
    fn size(&self) -> usize {
        fire(2, [Some(self.id), None, None]);
        self.sz as usize
    }
}

fn disarm() {
    ARMED.store(false, SeqCst);
}

fn fire(cb: u32, ids: [Option<u32>; 3]) {
    if !ARMED.load(SeqCst) || CB.load(SeqCst) != cb {
        return;
    }
    let tid = TID.load(SeqCst);
    if tid != ANY && !ids.contains(&Some(tid)) {
        return;
    }
    if FUSE.fetch_sub(1, SeqCst) != 1 {
        return;
    }
    disarm();
    FIRED.fetch_add(1, SeqCst);
    let (act, r) = (ACT.load(SeqCst), RE.load(SeqCst) as usize);
    match act {
        1 | 3 => {
            for _ in 0..r {
                drop(TreapNode::new(Bomb::new(ANY - 1)));
            }
        }
        2 | 4 => nested(r),
        5 => {
            if std::thread::spawn(move || nested(r)).join().is_err() {
                NESTED_BAD.store(true, SeqCst);
            }
        }
        _ => {}
    }
    if act == 0 || act == 3 || act == 4 {
        panic!("bomb");
    }
}

/// (size, height, heap order in the code's exact form) of a subtree; its priorities are appended to `prios`
fn shape<I>(n: &Option<Box<TreapNode<I>>>, prios: &mut Vec<u32>) -> (usize, usize, bool) {
    match n {
        None => (0, 0, true),
        Some(b) => {
            let (ls, lh, lo) = shape(&b.left, prios);
            prios.push(b.priority);
            let (rs, rh, ro) = shape(&b.right, prios);
            let here = b.left.as_ref().map_or(true, |c| b.priority <= c.priority) && b.right.as_ref().map_or(true, |c| b.priority < c.priority);
            (ls + rs + 1, 1 + lh.max(rh), lo && ro && here)
        }
    }
}

/// the callback itself uses the library: a treap of r nodes (alternately at the back and at the front)
fn nested(r: usize) {
    let mut t: Treap<Bomb> = Treap::new();
    for i in 0..r {
        let pos = if i % 2 == 0 { t.size() } else { 0 };
        t.insert_at(pos, Bomb::new(ANY - 3));
    }
    let collected = t.collect().len();
    let mut ps = Vec::new();
    let (s, _, heap) = shape(&t.root, &mut ps);
    if !(heap && s == r && collected == r && t.size() == r) {
        NESTED_BAD.store(true, SeqCst);
    }
}

/// a treap of q nodes by sorted appends on the calling thread, checked on the spot
fn helper(q: usize) -> bool {
    let mut t: Treap<ItemSized> = Treap::new();
    for i in 0..q {
        t.insert_at(i, ItemSized::mk(i as i64));
    }
    let mut ps = Vec::with_capacity(q);
    let (s, h, heap) = shape(&t.root, &mut ps);
    ps.sort_unstable();
    ps.dedup();
    heap && s == q && t.size() == q && h <= crate::fam::bound(q) && ps.len() + 1 >= q
}

#[derive(Clone)]
pub struct Ev {
    what: String,
    wher: String,
    m: usize,
    pos: usize,
    cb: u32,
    tid: i64,
    k: i64,
    act: u32,
    r: u32,
    q: usize,
}

/// fields of the token split at `:` (f[0] = "E")
pub fn parse(f: &[&str]) -> Ev {
    if f.len() != 11 || f[0] != "E" {
        eprintln!("harness: malformed event {:?}", f);
        std::process::exit(3)
    }
    Ev { what: f[1].into(), wher: f[2].into(), m: p(f[3]), pos: p(f[4]), cb: p(f[5]), tid: p(f[6]), k: p(f[7]), act: p(f[8]), r: p(f[9]), q: p(f[10]) }
}

pub struct Out {
    pub fired: u32,
    pub panicked: bool,
    pub probe: u32,
    pub helper: Option<bool>,
    pub nested_bad: bool,
}

fn core(ev: &Ev) {
    disarm();
    let m = ev.m;
    let mut t: Treap<Bomb> = Treap::new();
    for i in 0..m {
        t.insert_at(i, Bomb::new(i as u32));
    }
    CB.store(ev.cb, SeqCst);
    TID.store(if ev.tid < 0 { ANY } else { ev.tid as u32 }, SeqCst);
    FUSE.store(ev.k, SeqCst);
    ACT.store(ev.act, SeqCst);
    RE.store(ev.r, SeqCst);
    ARMED.store(true, SeqCst);
    let pos = ev.pos;
    match ev.what.as_str() {
        "ins" => t.insert_at(pos, Bomb::new(m as u32)),
        "nod" => {
            let (l, r) = TreapNode::split_at(t.root.take(), pos);
            let nd = Box::new(TreapNode::new(Bomb::new(m as u32)));
            t.root = TreapNode::merge(TreapNode::merge(l, Some(nd)), r);
        }
        "mrg" => {
            let x = Treap::from_item(Bomb::new(m as u32));
            t = if pos % 2 == 1 { Treap::merge(x, t) } else { Treap::merge(t, x) };
        }
        "spl" => {
            let (a, b) = t.split_at(pos);
            t = Treap::merge(b, a);
        }
        "spb" => {
            let (a, b) = t.split_by(|it| {
                fire(3, [Some(it.id), None, None]);
                (it.id as usize) < pos
            });
            t = Treap::merge(a, b);
        }
        "rem" => {
            if m > 0 {
                t.remove_at(pos.min(m - 1));
            }
        }
        "col" => {
            let _ = t.collect().len();
        }
        "fst" => {
            let _ = t.first().map(|i| i.id);
        }
        "lst" => {
            let _ = t.last().map(|i| i.id);
        }
        other => {
            eprintln!("harness: unknown event operation {}", other);
            std::process::exit(3)
        }
    }
    disarm();
    drop(t);
}

fn spawn<X: Send + 'static, F: FnOnce() -> X + Send + 'static>(f: F) -> std::thread::JoinHandle<X> {
    std::thread::Builder::new().stack_size(64 << 20).spawn(f).unwrap()
}

pub fn run(ev: &Ev) -> Out {
    FIRED.store(0, SeqCst);
    NESTED_BAD.store(false, SeqCst);
    disarm();
    let (panicked, helper_ok) = match ev.wher.as_str() {
        "c" => (catch_unwind(AssertUnwindSafe(|| core(ev))).is_err(), None),
        "t" => {
            let e = ev.clone();
            (spawn(move || core(&e)).join().is_err(), None)
        }
        "p" => {
            let b = Arc::new(Barrier::new(2));
            let (b2, q) = (b.clone(), ev.q);
            let h = spawn(move || {
                b2.wait();
                helper(q)
            });
            b.wait();
            let pan = catch_unwind(AssertUnwindSafe(|| core(ev))).is_err();
            (pan, Some(h.join().unwrap_or(false)))
        }
        "q" => {
            let b = Arc::new(Barrier::new(2));
            let (b2, e) = (b.clone(), ev.clone());
            let w = spawn(move || {
                b2.wait();
                core(&e)
            });
            b.wait();
            let ok = helper(ev.q);
            (w.join().is_err(), Some(ok))
        }
        other => {
            eprintln!("harness: unknown event place {}", other);
            std::process::exit(3)
        }
    };
    disarm();
    let probe = TreapNode::new(Bomb::new(ANY - 2)).priority;
    Out { fired: FIRED.load(SeqCst), panicked, probe, helper: helper_ok, nested_bad: NESTED_BAD.load(SeqCst) }
}

pub fn token(o: &Out) -> String {
    if o.nested_bad {
        "!nested".into()
    } else if o.helper == Some(false) {
        "!helper".into()
    } else {
        format!("E:{}:{}:{}", o.fired, o.panicked as u8, o.probe)
    }
}
