//! C16 implementation-level search: `x <family> <n> [a] [b] [c]` (every node keeps the generator's own priority).
//!
//! Every created node gets an id (its item carries it) and the priority it was born with is read from the public
//! `priority` field right after the creation and recorded.  At every checkpoint (number of steps a power of two, and at
//! the end) every live treap is checked for
//!   * the code's exact heap invariant on every edge: priority <= left child's, < right child's (by c16_cartesian that
//!     IS "the shape is the Cartesian tree of the in-order priorities"),
//!   * subtree sizes,
//!   * every node still carries the priority it was born with (priorities are only moved),
//!   * height <= 3*floor(log2(n+1)) + 12 (n = size of that treap) - for independent uniform priorities the probability
//!     of a larger height is below 3e-6 for every n <= 2^21 (Chernoff bound on the depth of a node, union over the nodes);
//!     the older bound 5*floor(log2(n+1)) + 20 of c16_height_partial is implied,
//!   * family specific: keys strictly increasing (set families), removed nodes do not come back.
//! Output `ok <family> <n> <final height> <worst height*1000/bound> <checkpoints> <final size> <nodes created>
//! <chain hash> <multiset hash>`: the chain hash is h = h*K + (priority+1) (mod 2^64) over the recorded priorities in
//! id order (= creation order except for concurrently running threads), the multiset hash is the sum of a mix of each
//! recorded priority.  The plugin predicts both from the modelled generator (the whole stream of a line is pinned
//! bit for bit, in both build profiles) and, where the in-order id sequence has a closed form, the exact final height.
//! Any failed check prints `bad <what> ...`.
//!
//! Families (`s` = current size, i = step = id of the created node unless said otherwise):
//!   append front rotate appendremove      the original four (item = ItemSized, lazy add)
//!   deque            insert_at(0) / insert_at(s) alternately        middle     insert_at(s/2)
//!   mergebuild a     t = merge(t, from_item(x)); a = 1: every other step merge(from_item(x), t)
//!   setbuild a       sorted set as in the repository's own test: split_by(key < k) + from_item + merge + merge;
//!                    a = 0 ascending keys, a = 1 scattered keys ((i * 1234577) mod 2000003)
//!   splitany         scattered insert_at, then split_by with a stateful, non-monotone FnMut predicate and merge(l, r)
//!   randremove       scattered insert_at; every other step remove_at((i*104729) mod s) (the returned item names a live node)
//!   roundrobin k     k treaps, node i appended to treap i mod k (odd treaps: at the front); all checked at every
//!                    checkpoint; finally concatenated by merge and checked
//!   blocks b a       pieces of b nodes, each started from Treap::default() (a = 0) / Treap::new() (a = 1), nodes inserted
//!                    at the front of the piece, t = merge(t, piece)
//!   nodeapi          TreapNode::split_at + Box::new(TreapNode::new(item)) + TreapNode::merge x 2 on an Option<Box<..>>,
//!                    every third step also TreapNode::split_by + TreapNode::merge
//!   threads T m a b  T threads build a treap of m nodes each (a = 0 appends, 1 front inserts), the treaps are moved to
//!                    this thread and merged in thread order; b = 0: the threads run one after the other (ids in creation
//!                    order), b = 1: all at once behind a barrier (the multiset of priorities is the stream's prefix)
//!   doubling b r     b appended nodes, r times t = merge(t, t.clone()) - only when `Treap<Item>: Clone` exists (autoref
//!                    specialisation); otherwise prints `skip doubling noclone`
//!   fault n fam a ev the event `ev` (fault.rs: user code that panics / re-enters the library inside a library call, on a
//!                    throw-away treap, followed by one probe draw), THEN family `fam` (one of the one-treap families above, with
//!                    its parameter a) with n nodes on this thread.  Only the nodes created after the event are recorded (ids
//!                    from 0); the event's token is appended to the output line.
//! A trailing `+k` burns k draws first (k times `drop(TreapNode::new(item))`, recorded as well).
use crate::{HItem, ItemSized};
use rlib_treap::*;
use vh::p;

pub trait FamItem: TreapItem + TreapItemSized + Sized + Send + 'static {
    fn make(key: i64, id: usize) -> Self;
    fn id(&self) -> usize;
    fn key(&self) -> i64;
}

impl FamItem for ItemSized {
    fn make(_key: i64, id: usize) -> Self {
        ItemSized::mk(id as i64)
    }
    fn id(&self) -> usize {
        self.elem() as usize
    }
    fn key(&self) -> i64 {
        self.elem()
    }
}

/// key + id + subtree size; `push` is the trait's default (empty) body
#[derive(Clone, Default)]
pub struct ItemIdx {
    key: i64,
    id: u32,
    sz: u32,
}

impl TreapItem for ItemIdx {
    fn update(&mut self, left: Option<&Self>, right: Option<&Self>) {
        self.sz = left.map(|i| i.sz).unwrap_or(0) + right.map(|i| i.sz).unwrap_or(0) + 1;
    }
}

impl TreapItemSized for ItemIdx {
    fn size(&self) -> usize {
        self.sz as usize
    }
}

impl FamItem for ItemIdx {
    fn make(key: i64, id: usize) -> Self {
        Self { key, id: id as u32, sz: 1 }
    }
    fn id(&self) -> usize {
        self.id as usize
    }
    fn key(&self) -> i64 {
        self.key
    }
}

type Link<I> = Option<Box<TreapNode<I>>>;

const HK: u64 = 0x9E37_79B9_7F4A_7C15;

fn mix(p: u32) -> u64 {
    let z = (p as u64).wrapping_add(HK).wrapping_mul(0xBF58_476D_1CE4_E5B9);
    z ^ (z >> 29)
}

/// priorities the nodes were born with, by id; `gone[id]`: the node was removed
struct Rec {
    born: Vec<u32>,
    gone: Vec<bool>,
    worst: usize,
    checks: usize,
    same_prio: bool,
}

impl Rec {
    fn new() -> Self {
        Rec { born: Vec::new(), gone: Vec::new(), worst: 0, checks: 0, same_prio: true }
    }
    fn next_id(&self) -> usize {
        self.born.len()
    }
    fn push(&mut self, pr: u32) {
        self.born.push(pr);
        self.gone.push(false);
    }
    fn hashes(&self) -> (u64, u64) {
        let (mut c, mut m) = (0u64, 0u64);
        for &pr in &self.born {
            c = c.wrapping_mul(HK).wrapping_add(pr as u64 + 1);
            m = m.wrapping_add(mix(pr));
        }
        (c, m)
    }
}

fn log2_floor(n: usize) -> usize {
    (usize::BITS - 1 - n.leading_zeros()) as usize
}

pub fn bound(n: usize) -> usize {
    3 * log2_floor(n + 1) + 12
}

/// (size, height) of a subtree, or what is wrong with it
fn walk<I: FamItem>(n: &Link<I>, rec: &Rec, sorted: bool, last: &mut Option<i64>) -> Result<(usize, usize), String> {
    match n {
        None => Ok((0, 0)),
        Some(b) => {
            if let Some(c) = &b.left {
                if c.priority < b.priority {
                    return Err(format!("heap left-edge {} above {}", b.priority, c.priority));
                }
            }
            if let Some(c) = &b.right {
                if c.priority <= b.priority {
                    return Err(format!("heap right-edge {} above {}", b.priority, c.priority));
                }
            }
            let (ls, lh) = walk(&b.left, rec, sorted, last)?;
            let id = b.item.id();
            if rec.same_prio {
                if id >= rec.born.len() || rec.gone[id] {
                    return Err(format!("node id {} is not a live node", id));
                }
                if rec.born[id] != b.priority {
                    return Err(format!("prio node {} born with {} now {}", id, rec.born[id], b.priority));
                }
            }
            if sorted {
                if let Some(k) = *last {
                    if k >= b.item.key() {
                        return Err(format!("order key {} before {}", k, b.item.key()));
                    }
                }
                *last = Some(b.item.key());
            }
            let (rs, rh) = walk(&b.right, rec, sorted, last)?;
            if b.item.size() != ls + rs + 1 {
                return Err(format!("size {} for {} nodes", b.item.size(), ls + rs + 1));
            }
            Ok((ls + rs + 1, 1 + lh.max(rh)))
        }
    }
}

/// all checks on one treap; returns its height
fn check<I: FamItem>(root: &Link<I>, rec: &mut Rec, sorted: bool, want_size: Option<usize>) -> Result<usize, String> {
    let mut last = None;
    let (s, h) = walk(root, rec, sorted, &mut last)?;
    if let Some(w) = want_size {
        if w != s {
            return Err(format!("size {} nodes, expected {}", s, w));
        }
    }
    let b = bound(s);
    if h > b {
        return Err(format!("height {} for {} nodes, bound {} (older bound {})", h, s, b, 5 * log2_floor(s + 1) + 20));
    }
    rec.worst = rec.worst.max(h * 1000 / b);
    Ok(h)
}

/// the node at in-order position `pos`, found through the public fields and the items' sizes
fn node_at<I: FamItem>(root: &Link<I>, mut pos: usize) -> Option<&TreapNode<I>> {
    let mut cur = root.as_ref()?;
    loop {
        let ls = cur.left.as_ref().map(|l| l.item.size()).unwrap_or(0);
        if pos < ls {
            cur = cur.left.as_ref()?;
        } else if pos == ls {
            return Some(cur);
        } else {
            pos -= ls + 1;
            cur = cur.right.as_ref()?;
        }
    }
}

/// the real insert_at; the new node's priority is read back from the tree
fn ins<I: FamItem>(t: &mut Treap<I>, pos: usize, key: i64, rec: &mut Rec) -> Result<(), String> {
    let id = rec.next_id();
    t.insert_at(pos, I::make(key, id));
    let at = pos.min(t.size().saturating_sub(1));
    match node_at(&t.root, at) {
        Some(nd) if nd.item.id() == id => {
            rec.push(nd.priority);
            Ok(())
        }
        _ => Err(format!("insert node {} is not at position {}", id, at)),
    }
}

fn single<I: FamItem>(key: i64, rec: &mut Rec) -> Treap<I> {
    let t = Treap::from_item(I::make(key, rec.next_id()));
    rec.push(t.root.as_ref().unwrap().priority);
    t
}

fn burn<I: FamItem>(k: usize, rec: &mut Rec) {
    for _ in 0..k {
        let nd = TreapNode::new(I::make(0, rec.next_id()));
        rec.push(nd.priority);
        let id = rec.next_id() - 1;
        rec.gone[id] = true;
    }
}

fn take<I: TreapItem>(t: &mut Treap<I>) -> Treap<I> {
    std::mem::replace(t, Treap::new())
}

fn finish(fam: &str, n: usize, height: usize, size: usize, rec: &Rec) -> String {
    let (c, m) = rec.hashes();
    format!("ok {} {} {} {} {} {} {} {} {}", fam, n, height, rec.worst, rec.checks, size, rec.born.len(), c, m)
}

fn bad(fam: &str, step: usize, e: String) -> String {
    format!("bad {} step {} : {}", fam, step, e)
}

fn one_treap<I: FamItem>(fam: &str, n: usize, a: usize, burnt: usize, ev: Option<&str>) -> String {
    let mut rec = Rec::new();
    burn::<I>(burnt, &mut rec);
    let mut evinfo = String::new();
    if let Some(tok) = ev {
        let f: Vec<&str> = tok.split(':').collect();
        evinfo = format!(" {}", crate::fault::token(&crate::fault::run(&crate::fault::parse(&f))));
        rec = Rec::new();
    }
    let mut t: Treap<I> = Treap::new();
    let mut raw: Link<I> = None; // family nodeapi works on the bare link
    let mut flip = 0u64;
    let sorted = fam == "setbuild";
    for i in 0..n {
        let mut step = || -> Result<(), String> {
            match fam {
                "append" => ins(&mut t, i, i as i64, &mut rec)?,
                "front" => ins(&mut t, 0, i as i64, &mut rec)?,
                "rotate" => {
                    // insert at a scattered place, then a split-and-swap rotation (the suite's tp == 3); same formulas as C16/Model.v
                    ins(&mut t, (i * 7919) % (i + 1), i as i64, &mut rec)?;
                    let cut = (i * 104729 + 12345) % (i + 2);
                    let (l, r) = take(&mut t).split_at(cut);
                    t = Treap::merge(r, l);
                }
                "appendremove" => {
                    // sorted appends with every third element removed again from the front
                    let s = t.size();
                    ins(&mut t, s, i as i64, &mut rec)?;
                    if i % 3 == 2 {
                        let it = t.remove_at(0);
                        gone(&mut rec, it.id())?;
                    }
                }
                "deque" => {
                    let s = t.size();
                    ins(&mut t, if i % 2 == 0 { 0 } else { s }, i as i64, &mut rec)?
                }
                "middle" => {
                    let s = t.size();
                    ins(&mut t, s / 2, i as i64, &mut rec)?
                }
                "mergebuild" => {
                    let x = single::<I>(i as i64, &mut rec);
                    t = if a == 1 && i % 2 == 1 { Treap::merge(x, take(&mut t)) } else { Treap::merge(take(&mut t), x) };
                }
                "setbuild" => {
                    let key = if a == 0 { i as i64 } else { ((i as u64 * 1234577) % 2000003) as i64 };
                    let (l, r) = take(&mut t).split_by(|it| it.key() < key);
                    t = Treap::merge(Treap::merge(l, single::<I>(key, &mut rec)), r);
                }
                "splitany" => {
                    ins(&mut t, (i * 7919) % (i + 1), i as i64, &mut rec)?;
                    let (l, r) = take(&mut t).split_by(|it| {
                        flip = flip.wrapping_mul(6364136223846793005).wrapping_add(it.id() as u64 + 1442695040888963407);
                        (flip >> 33) % 3 != 0
                    });
                    t = Treap::merge(l, r);
                }
                "randremove" => {
                    let s = t.size();
                    ins(&mut t, (i * 7919) % (s + 1), i as i64, &mut rec)?;
                    if i % 2 == 1 {
                        let k = (i * 104729) % t.size();
                        let want = node_at(&t.root, k).map(|nd| nd.item.id());
                        let it = t.remove_at(k);
                        if want != Some(it.id()) {
                            return Err(format!("remove_at({}) returned node {}", k, it.id()));
                        }
                        gone(&mut rec, it.id())?;
                    }
                }
                "nodeapi" => {
                    let s = raw.as_ref().map(|r| r.item.size()).unwrap_or(0);
                    let pos = (i * 7919) % (s + 1);
                    let (l, r) = TreapNode::split_at(raw.take(), pos);
                    let nd = Box::new(TreapNode::new(I::make(i as i64, rec.next_id())));
                    rec.push(nd.priority);
                    raw = TreapNode::merge(TreapNode::merge(l, Some(nd)), r);
                    if i % 3 == 2 {
                        let c = (i * 104729) as i64 % (i as i64 + 1);
                        let (l, r) = TreapNode::split_by(raw.take(), |it: &I| it.key() < c);
                        raw = TreapNode::merge(l, r);
                    }
                }
                _ => {
                    eprintln!("harness: unknown family {}", fam);
                    std::process::exit(3)
                }
            }
            Ok(())
        };
        if let Err(e) = step() {
            return bad(fam, i, e);
        }
        let m = i + 1;
        if m.is_power_of_two() || m == n {
            rec.checks += 1;
            let (root, want) = if fam == "nodeapi" { (&raw, None) } else { (&t.root, Some(t.size())) };
            if let Err(e) = check(root, &mut rec, sorted, want) {
                return bad(fam, m, e);
            }
        }
    }
    let root = if fam == "nodeapi" { &raw } else { &t.root };
    let mut last = None;
    match walk(root, &rec, false, &mut last) {
        Ok((s, h)) => finish(fam, n, h, s, &rec) + &evinfo,
        Err(e) => bad(fam, n, e),
    }
}

fn gone(rec: &mut Rec, id: usize) -> Result<(), String> {
    if id >= rec.gone.len() || rec.gone[id] {
        return Err(format!("removed node {} is not a live node", id));
    }
    rec.gone[id] = true;
    Ok(())
}

fn roundrobin(n: usize, k: usize, burnt: usize) -> String {
    let fam = "roundrobin";
    let mut rec = Rec::new();
    burn::<ItemIdx>(burnt, &mut rec);
    let mut ts: Vec<Treap<ItemIdx>> = (0..k).map(|_| Treap::new()).collect();
    for i in 0..n {
        let j = i % k;
        let pos = if j % 2 == 1 { 0 } else { ts[j].size() };
        if let Err(e) = ins(&mut ts[j], pos, i as i64, &mut rec) {
            return bad(fam, i, e);
        }
        let m = i + 1;
        if m.is_power_of_two() || m == n {
            rec.checks += 1;
            for t in ts.iter() {
                if let Err(e) = check(&t.root, &mut rec, false, Some(t.size())) {
                    return bad(fam, m, e);
                }
            }
        }
    }
    let mut all: Treap<ItemIdx> = Treap::new();
    for t in ts {
        all = Treap::merge(all, t);
    }
    rec.checks += 1;
    match check(&all.root, &mut rec, false, Some(n)) {
        Ok(h) => finish(fam, n, h, all.size(), &rec),
        Err(e) => bad(fam, n, e),
    }
}

fn blocks(n: usize, b: usize, a: usize, burnt: usize) -> String {
    let fam = "blocks";
    let mut rec = Rec::new();
    burn::<ItemIdx>(burnt, &mut rec);
    let mut t: Treap<ItemIdx> = Treap::default();
    let mut piece: Treap<ItemIdx> = Treap::new();
    for i in 0..n {
        if i % b == 0 {
            t = Treap::merge(t, take(&mut piece));
            piece = if a == 0 { Treap::default() } else { Treap::new() };
        }
        if let Err(e) = ins(&mut piece, 0, i as i64, &mut rec) {
            return bad(fam, i, e);
        }
        let m = i + 1;
        if m.is_power_of_two() || m == n {
            rec.checks += 1;
            t = Treap::merge(t, take(&mut piece));
            if let Err(e) = check(&t.root, &mut rec, false, Some(m)) {
                return bad(fam, m, e);
            }
            // the piece goes on where it was: split it off again
            let (l, r) = t.split_at(m - (m % b));
            t = l;
            piece = r;
        }
    }
    t = Treap::merge(t, piece);
    rec.checks += 1;
    match check(&t.root, &mut rec, false, Some(n)) {
        Ok(h) => finish(fam, n, h, t.size(), &rec),
        Err(e) => bad(fam, n, e),
    }
}

fn threads(nt: usize, m: usize, a: usize, par: bool, burnt: usize) -> String {
    let fam = "threads";
    let mut rec = Rec::new();
    burn::<ItemIdx>(burnt, &mut rec);
    let base = rec.next_id();
    let barrier = std::sync::Arc::new(std::sync::Barrier::new(if par { nt } else { 1 }));
    let work = move |k: usize, barrier: std::sync::Arc<std::sync::Barrier>| -> Result<(Treap<ItemIdx>, Vec<u32>), String> {
        barrier.wait();
        let mut t: Treap<ItemIdx> = Treap::new();
        let mut born = Vec::with_capacity(m);
        for j in 0..m {
            let id = base + k * m + j;
            let pos = if a == 0 { j } else { 0 };
            t.insert_at(pos, ItemIdx::make(id as i64, id));
            match node_at(&t.root, pos) {
                Some(nd) if nd.item.id() == id => born.push(nd.priority),
                _ => return Err(format!("insert node {} is not at position {}", id, pos)),
            }
        }
        Ok((t, born))
    };
    let mut parts = Vec::with_capacity(nt);
    if par {
        let hs: Vec<_> = (0..nt)
            .map(|k| {
                let b = barrier.clone();
                std::thread::Builder::new().stack_size(16 << 20).spawn(move || work(k, b)).unwrap()
            })
            .collect();
        for h in hs {
            parts.push(h.join());
        }
    } else {
        for k in 0..nt {
            let b = barrier.clone();
            parts.push(std::thread::Builder::new().stack_size(16 << 20).spawn(move || work(k, b)).unwrap().join());
        }
    }
    let mut all: Treap<ItemIdx> = Treap::new();
    let mut pieces = Vec::with_capacity(nt);
    for (k, part) in parts.into_iter().enumerate() {
        match part {
            Ok(Ok((t, born))) => {
                for pr in born {
                    rec.push(pr);
                }
                pieces.push(t);
            }
            Ok(Err(e)) => return bad(fam, k, e),
            Err(_) => return bad(fam, k, "thread panicked".into()),
        }
    }
    // every piece on its own, then the pieces merged in thread order (this thread owns them now)
    for (k, t) in pieces.into_iter().enumerate() {
        rec.checks += 1;
        if let Err(e) = check(&t.root, &mut rec, false, Some(m)) {
            return bad(fam, k, e);
        }
        all = Treap::merge(all, t);
        let done = k + 1;
        if done.is_power_of_two() || done == nt {
            rec.checks += 1;
            if let Err(e) = check(&all.root, &mut rec, false, Some(done * m)) {
                return bad(fam, done * m, e);
            }
        }
    }
    let mut last = None;
    match walk(&all.root, &rec, false, &mut last) {
        Ok((s, h)) => finish(fam, nt * m, h, s, &rec),
        Err(e) => bad(fam, nt * m, e),
    }
}

// ---- `t.clone()` only if `Treap<ItemIdx>: Clone` exists (autoref specialisation: the impl for `Probe<T>` is found one
// autoref step earlier than the fallback for `&Probe<T>` and is taken whenever its bound holds)
#[allow(dead_code)]
struct Probe<'a, T>(&'a T);
#[allow(dead_code)]
trait DupByClone<T> {
    fn dup(&self) -> Option<T>;
}
trait DupMissing<T> {
    fn dup(&self) -> Option<T>;
}
impl<'a, T: Clone> DupByClone<T> for Probe<'a, T> {
    fn dup(&self) -> Option<T> {
        Some(self.0.clone())
    }
}
impl<'a, 'b, T> DupMissing<T> for &'b Probe<'a, T> {
    fn dup(&self) -> Option<T> {
        None
    }
}

fn doubling(b: usize, rounds: usize) -> String {
    let fam = "doubling";
    let mut rec = Rec::new();
    let mut t: Treap<ItemIdx> = Treap::new();
    for i in 0..b {
        if let Err(e) = ins(&mut t, i, i as i64, &mut rec) {
            return bad(fam, i, e);
        }
    }
    // copies share ids; a Clone that draws new priorities for the copy would be fine, so the born-with check is off
    rec.same_prio = false;
    let mut h = 0;
    for r in 0..rounds {
        let copy: Option<Treap<ItemIdx>> = (&Probe(&t)).dup();
        match copy {
            None => return "skip doubling noclone".to_string(),
            Some(c) => t = Treap::merge(t, c),
        }
        rec.checks += 1;
        match check(&t.root, &mut rec, false, Some(b << (r + 1))) {
            Ok(x) => h = x,
            Err(e) => return bad(fam, r + 1, e),
        }
    }
    // the doubled sequence keeps working: rotation, insert, remove
    let s = t.size();
    let (l, r) = t.split_at(s / 3);
    t = Treap::merge(r, l);
    t.insert_at(s / 2, ItemIdx::make(-1, b));
    t.remove_at(s / 5);
    rec.checks += 1;
    match check(&t.root, &mut rec, false, Some(s)) {
        Ok(x) => h = h.max(x),
        Err(e) => return bad(fam, rounds + 1, e),
    }
    finish(fam, b << rounds, h, t.size(), &rec)
}

pub fn run(toks: &[&str]) -> String {
    let mut args: Vec<&str> = toks.to_vec();
    let mut burnt = 0usize;
    if let Some(last) = args.last() {
        if let Some(k) = last.strip_prefix('+') {
            burnt = p(k);
            args.pop();
        }
    }
    let fam = args[0];
    let num = |k: usize| -> usize { args.get(k).map(|s| p::<usize>(s)).unwrap_or(0) };
    let n = num(1);
    match fam {
        "append" | "front" | "rotate" | "appendremove" | "deque" | "middle" => one_treap::<ItemSized>(fam, n, num(2), burnt, None),
        "mergebuild" | "setbuild" | "splitany" | "randremove" | "nodeapi" => one_treap::<ItemIdx>(fam, n, num(2), burnt, None),
        "fault" => match (args.get(2).copied(), args.get(4).copied()) {
            (Some(after @ ("append" | "front" | "rotate" | "appendremove" | "deque" | "middle")), Some(ev)) => {
                one_treap::<ItemSized>(after, n, num(3), burnt, Some(ev))
            }
            (Some(after @ ("mergebuild" | "setbuild" | "splitany" | "randremove" | "nodeapi")), Some(ev)) => {
                one_treap::<ItemIdx>(after, n, num(3), burnt, Some(ev))
            }
            _ => {
                eprintln!("harness: fault needs <n> <family> <a> <event>");
                std::process::exit(3)
            }
        },
        "roundrobin" => roundrobin(n, num(2).max(1), burnt),
        "blocks" => blocks(n, num(2).max(1), num(3), burnt),
        "threads" => threads(n, num(2), num(3), num(4) == 1, burnt),
        "doubling" => doubling(n, num(2)),
        _ => {
            eprintln!("harness: unknown family {}", fam);
            std::process::exit(3)
        }
    }
}
