//! C03 / C16 executor.
//!
//! `h <kind> <op> <op> ...`   one multi-treap history (kind 0 = lazy-add item, 1 = assign/add item,
//!                             2 = positional-hash item: order-sensitive aggregate, lazy add)
//!     N            new empty treap (Treap::new)         F:v:p[:ms]   from_item (priority p, or `n` = keep the generator's)
//!     D            new empty treap (Treap::default)
//!     M:i:j        merge treaps i and j                 A:i:k        split_at
//!     B:i:c        split_by (elem < c)                  I:i:k:v:p[:ms]   insert_at
//!     R:i:k        remove_at                            U:i:a:c / U:i:s:c   root_mut().modify(add c / set c)
//!     Uf:i:a:c / Uf:i:s:c   the same modification attached through the PUBLIC FIELDS instead of the accessor:
//!                    `t.root.as_mut().unwrap().item.modify(..)`;   Un:...  at node level: `t.root` is taken out, the raw
//!                    Option<Box<TreapNode>> gets `node.item.modify(..)` (the only handle for users of TreapNode::split_at /
//!                    merge) and becomes the `root` field of a new treap.  Same token, same observation as U.
//!     V:i:k:j:k2:p[:ms]   move: `let mut it = treaps[i].remove_at(k); <ms>; treaps[j].insert_at(k2, it)` — the item
//!                    OBJECT that remove_at returned is inserted (i == j allowed; skipped unless both are live; priority
//!                    p as for I)
//!     f:i l:i C:i S:i G:i    first, last, collect, size, root aggregate
//!     Mn:i:j An:i:k Bn:i:c Cn:i   the same as M A B C, but through the public building blocks: `t.root` is taken out
//!                    and handed to TreapNode::{merge, split_at, split_by, collect_into} (collect_into appends to a
//!                    vector that already holds an item), the results are put into the `root` field of new treaps
//!   `ms` (optional) = modifications that the CALLER applies to the item while it is outside every treap, before
//!   from_item / insert_at gets it: comma-separated `a<c>` (add c) / `s<c>` (set c), e.g. `s9,a1`.  With `ms` the item
//!   enters the treap with a pending tag (a pre-modified fresh item; remove_at + modify + insert_at = move-and-update).
//!   S, C and G also call `is_empty()`; when it disagrees with what they see (size 0 / nothing collected / no root) the
//!   token is `!is_empty` instead of the value.
//!   Treaps live in a vector; merge/split remove their operands and append the results (an operation naming a
//!   missing treap is skipped and prints `x`).  The `priority` of every node created with a numeric `p` is
//!   overwritten through the public field, so that the Coq model sees the same priorities.
//!   remove_at (R and V) prints the COMPLETE returned item, `r:` + the six numbers that the raw shapes print for a node
//!   item (element, aggregate, size, pending tag, extra fields), read before anything else touches the item.
//!   Output: one token per op, ` | `, the raw shape of every live treap read through the public fields
//!   left/right/priority/item, ` | `, collect() of every live treap.
//!     Z:k          burn: k times `drop(TreapNode::new(item))` - k draws of the priority generator, no treap (token `z`)
//!     Ft:v:p[:ms]  It:i:k:v:p[:ms]   the same as F / I, but the node is created on ANOTHER thread: from_item runs on a
//!                    spawned thread and the treap is moved back; for It the treap is moved to a spawned thread, insert_at
//!                    runs there, the treap is moved back (the threads are joined at once: the draws stay in line order)
//!     Fn:v:p[:ms]  In:i:k:v:p[:ms]   the same as F / I through the building blocks: `Box::new(TreapNode::new(item))` put into
//!                    the `root` field resp. TreapNode::split_at + TreapNode::new + TreapNode::merge + TreapNode::merge on `t.root`
//!     E:<what>:<where>:<m>:<pos>:<cb>:<tid>:<k>:<act>:<r>:<q>   (C16) a fault in user code inside a library call, on a throw-away
//!                    treap: an item whose update / push / size (or the split_by predicate) panics or re-enters the library, on a
//!                    worker thread that dies / under catch_unwind / while another thread creates nodes; then one probe draw.
//!                    Token `E:<fired>:<panicked>:<probe priority>`; see fault.rs.  A line with an event runs in a CHILD process
//!                    of this executor with a watchdog (C03_WATCHDOG_MS, default 3000): a line that does not come back (a
//!                    callback re-entering the library while the library holds its generator lock) is the observation `H`, a
//!                    child that crashes is `P`; a lock poisoned by the event cannot leak into the following lines.
//! `x <family> <n> [a] [b] [c]`   implementation-level search for C16 (native priorities), see fam.rs
use rlib_treap::*;
use vh::p;

mod fam;
mod fault;

#[derive(Clone, Copy)]
enum Md {
    Add(i64),
    Set(i64),
}

trait HItem: TreapItem + TreapItemSized + Sized + Default + Send + 'static {
    fn mk(v: i64) -> Self;
    fn modify(&mut self, m: Md);
    fn elem(&self) -> i64;
    fn agg(&self) -> i64;
    fn dump(&self) -> String;
}

/// the `ItemSized` of rlib/treap/tests/tests.rs over i64 (no wrapping: values stay small)
#[derive(Default)]
struct ItemSized {
    x: i64,
    sm: i64,
    md: i64,
    sz: usize,
}

impl ItemSized {
    fn add(&mut self, m: i64) {
        self.md += m;
        self.x += m;
        self.sm += m * self.sz as i64;
    }
}

impl TreapItem for ItemSized {
    fn update(&mut self, left: Option<&Self>, right: Option<&Self>) {
        self.sm = left.map(|i| i.sm).unwrap_or(0) + right.map(|i| i.sm).unwrap_or(0) + self.x;
        self.sz = left.map(|i| i.sz).unwrap_or(0) + right.map(|i| i.sz).unwrap_or(0) + 1;
    }

    fn push(&mut self, left: Option<&mut Self>, right: Option<&mut Self>) {
        if let Some(left) = left {
            left.add(self.md);
        }
        if let Some(right) = right {
            right.add(self.md);
        }
        self.md = 0;
    }
}

impl TreapItemSized for ItemSized {
    fn size(&self) -> usize {
        self.sz
    }
}

impl HItem for ItemSized {
    fn mk(v: i64) -> Self {
        Self { x: v, sm: v, md: 0, sz: 1 }
    }
    fn modify(&mut self, m: Md) {
        match m {
            Md::Add(c) | Md::Set(c) => self.add(c),
        }
    }
    fn elem(&self) -> i64 {
        self.x
    }
    fn agg(&self) -> i64 {
        self.sm
    }
    fn dump(&self) -> String {
        format!("{} {} {} {} 0 0", self.x, self.sm, self.sz, self.md)
    }
}

/// assign-or-add: the pending tag is the function  e -> (set or e) + add ; modifications do not commute
#[derive(Default)]
struct ItemAA {
    x: i64,
    sm: i64,
    sz: usize,
    set: Option<i64>,
    add: i64,
}

impl ItemAA {
    fn apply(&mut self, m: Md) {
        match m {
            Md::Add(c) => {
                self.x += c;
                self.sm += c * self.sz as i64;
                self.add += c;
            }
            Md::Set(c) => {
                self.x = c;
                self.sm = c * self.sz as i64;
                self.set = Some(c);
                self.add = 0;
            }
        }
    }
    fn push_to(&self, ch: &mut Self) {
        if let Some(c) = self.set {
            ch.apply(Md::Set(c));
        }
        if self.add != 0 {
            ch.apply(Md::Add(self.add));
        }
    }
}

impl TreapItem for ItemAA {
    fn update(&mut self, left: Option<&Self>, right: Option<&Self>) {
        self.sm = left.map(|i| i.sm).unwrap_or(0) + self.x + right.map(|i| i.sm).unwrap_or(0);
        self.sz = left.map(|i| i.sz).unwrap_or(0) + 1 + right.map(|i| i.sz).unwrap_or(0);
    }

    fn push(&mut self, left: Option<&mut Self>, right: Option<&mut Self>) {
        if let Some(left) = left {
            self.push_to(left);
        }
        if let Some(right) = right {
            self.push_to(right);
        }
        self.set = None;
        self.add = 0;
    }
}

impl TreapItemSized for ItemAA {
    fn size(&self) -> usize {
        self.sz
    }
}

impl HItem for ItemAA {
    fn mk(v: i64) -> Self {
        Self { x: v, sm: v, sz: 1, set: None, add: 0 }
    }
    fn modify(&mut self, m: Md) {
        self.apply(m)
    }
    fn elem(&self) -> i64 {
        self.x
    }
    fn agg(&self) -> i64 {
        self.sm
    }
    fn dump(&self) -> String {
        match self.set {
            Some(c) => format!("{} {} {} {} 1 {}", self.x, self.sm, self.sz, self.add, c),
            None => format!("{} {} {} {} 0 0", self.x, self.sm, self.sz, self.add),
        }
    }
}

/// positional (polynomial) hash over Z mod HP with base HB: for the subsequence x_0..x_{n-1} of a subtree
///   sz = n, pw = HB^n, rp = sum_{i<n} HB^i, h = sum_i x_i * HB^(n-1-i)      (all reduced into [0, HP))
/// The aggregate is order-sensitive: exchanging the two children in `update` changes `h`.
/// Lazy modification "add c to every element": x += c, h += c * rp, md += c.  `x` and `md` stay small
/// (never reduced, below 2^24 in every history); every product below is < 2^40, so i64 never overflows.  Same formulas, same
/// reductions as `ihs_update` / `ihs_modify` / `ihs_push` in coq/theories/C03/Model.v.
const HP: i64 = 65521;
const HB: i64 = 30011;

#[derive(Default)]
struct ItemHash {
    x: i64,
    sz: usize,
    pw: i64,
    rp: i64,
    h: i64,
    md: i64,
}

impl ItemHash {
    fn add(&mut self, c: i64) {
        self.x += c;
        self.h = (self.h + c * self.rp).rem_euclid(HP);
        self.md += c;
    }
}

impl TreapItem for ItemHash {
    fn update(&mut self, left: Option<&Self>, right: Option<&Self>) {
        let (szl, pwl, rpl, hl) = left.map(|i| (i.sz, i.pw, i.rp, i.h)).unwrap_or((0, 1, 0, 0));
        let (szr, pwr, rpr, hr) = right.map(|i| (i.sz, i.pw, i.rp, i.h)).unwrap_or((0, 1, 0, 0));
        let bp = (HB * pwr).rem_euclid(HP);
        self.sz = szl + 1 + szr;
        self.pw = (pwl * bp).rem_euclid(HP);
        self.rp = (rpl * bp + pwr + rpr).rem_euclid(HP);
        self.h = (hl * bp + self.x * pwr + hr).rem_euclid(HP);
    }

    fn push(&mut self, left: Option<&mut Self>, right: Option<&mut Self>) {
        if let Some(left) = left {
            left.add(self.md);
        }
        if let Some(right) = right {
            right.add(self.md);
        }
        self.md = 0;
    }
}

impl TreapItemSized for ItemHash {
    fn size(&self) -> usize {
        self.sz
    }
}

impl HItem for ItemHash {
    fn mk(v: i64) -> Self {
        Self { x: v, sz: 1, pw: HB.rem_euclid(HP), rp: 1, h: v.rem_euclid(HP), md: 0 }
    }
    fn modify(&mut self, m: Md) {
        match m {
            Md::Add(c) | Md::Set(c) => self.add(c),
        }
    }
    fn elem(&self) -> i64 {
        self.x
    }
    fn agg(&self) -> i64 {
        self.h
    }
    fn dump(&self) -> String {
        format!("{} {} {} {} {} {}", self.x, self.h, self.sz, self.md, self.pw, self.rp)
    }
}

/// `a<c>` / `s<c>` separated by commas (absent or empty: nothing)
fn parse_mods(s: Option<&&str>) -> Vec<Md> {
    let mut out = Vec::new();
    if let Some(s) = s {
        for t in s.split(',').filter(|t| !t.is_empty()) {
            let c: i64 = p(&t[1..]);
            out.push(if t.starts_with('s') { Md::Set(c) } else { Md::Add(c) });
        }
    }
    out
}

/// a freshly made item that the caller modified before handing it over
fn made<I: HItem>(v: i64, ms: &[Md]) -> I {
    let mut it = I::mk(v);
    for m in ms {
        it.modify(*m);
    }
    it
}

/// a treap around a root obtained from the building blocks (only the public `root` field is used)
fn wrap<I: HItem>(root: Option<Box<TreapNode<I>>>) -> Treap<I> {
    let mut t = Treap::new();
    t.root = root;
    t
}

/// S / C / G: `is_empty()` must agree with what the observation sees
fn empty_agrees<I: HItem>(t: &Treap<I>, seen_empty: bool, tok: String) -> String {
    if t.is_empty() == seen_empty {
        tok
    } else {
        "!is_empty".into()
    }
}

/// run `f` on a freshly spawned thread and hand its result back (joined at once)
fn on_thread<X: Send + 'static, F: FnOnce() -> X + Send + 'static>(f: F) -> X {
    match std::thread::Builder::new().stack_size(256 << 20).spawn(f).unwrap().join() {
        Ok(x) => x,
        Err(e) => std::panic::resume_unwind(e),
    }
}

fn node_of<I: HItem>(item: I, pr: &str) -> Treap<I> {
    let mut t = Treap::from_item(item);
    if pr != "n" {
        t.root.as_mut().unwrap().priority = p::<u32>(pr);
    }
    t
}

fn dump<I: HItem>(n: &Option<Box<TreapNode<I>>>, out: &mut String) {
    match n {
        None => out.push_str(" ."),
        Some(b) => {
            out.push_str(" (");
            dump(&b.left, out);
            out.push(' ');
            out.push_str(&b.item.dump());
            out.push(' ');
            out.push_str(&b.priority.to_string());
            dump(&b.right, out);
            out.push_str(" )");
        }
    }
}

fn take2<X>(v: &mut Vec<X>, i: usize, j: usize) -> Option<(X, X)> {
    if i == j || i >= v.len() || j >= v.len() {
        return None;
    }
    if i < j {
        let b = v.remove(j);
        let a = v.remove(i);
        Some((a, b))
    } else {
        let a = v.remove(i);
        let b = v.remove(j);
        Some((a, b))
    }
}

fn history<I: HItem>(toks: &[&str]) -> String {
    let mut ts: Vec<Treap<I>> = Vec::new();
    let mut out = String::new();
    for tok in toks {
        let f: Vec<&str> = tok.split(':').collect();
        let idx = |k: usize| -> usize { p::<usize>(f[k]) };
        let r: String = match f[0] {
            "N" => {
                ts.push(Treap::new());
                "u".into()
            }
            "D" => {
                ts.push(Treap::default());
                "u".into()
            }
            "F" => {
                ts.push(node_of(made::<I>(p(f[1]), &parse_mods(f.get(3))), f[2]));
                "u".into()
            }
            "Z" => {
                for _ in 0..idx(1) {
                    drop(TreapNode::new(I::mk(0)));
                }
                "z".into()
            }
            "E" => fault::token(&fault::run(&fault::parse(&f))),
            "Ft" => {
                let it = made::<I>(p(f[1]), &parse_mods(f.get(3)));
                let pr = f[2].to_string();
                ts.push(on_thread(move || node_of(it, &pr)));
                "u".into()
            }
            "Fn" => {
                let mut nd = Box::new(TreapNode::new(made::<I>(p(f[1]), &parse_mods(f.get(3)))));
                if f[2] != "n" {
                    nd.priority = p::<u32>(f[2]);
                }
                ts.push(wrap(Some(nd)));
                "u".into()
            }
            "It" | "In" => {
                let i = idx(1);
                if i >= ts.len() {
                    "x".into()
                } else {
                    let it = made::<I>(p(f[3]), &parse_mods(f.get(5)));
                    let pos: usize = p(f[2]);
                    let pr = f[4].to_string();
                    let mut t = std::mem::replace(&mut ts[i], Treap::new());
                    if f[0] == "It" {
                        t = on_thread(move || {
                            insert_item_with_priority(&mut t, pos, it, &pr);
                            t
                        });
                    } else {
                        let (l, r) = TreapNode::split_at(t.root.take(), pos);
                        let mut nd = Box::new(TreapNode::new(it));
                        if pr != "n" {
                            nd.priority = p::<u32>(&pr);
                        }
                        t.root = TreapNode::merge(TreapNode::merge(l, Some(nd)), r);
                    }
                    ts[i] = t;
                    "u".into()
                }
            }
            "M" | "Mn" => match take2(&mut ts, idx(1), idx(2)) {
                Some((a, b)) => {
                    if f[0] == "M" {
                        ts.push(Treap::merge(a, b));
                    } else {
                        ts.push(wrap(TreapNode::merge(a.root, b.root)));
                    }
                    "u".into()
                }
                None => "x".into(),
            },
            "A" | "B" | "An" | "Bn" => {
                let i = idx(1);
                if i >= ts.len() {
                    "x".into()
                } else {
                    let t = ts.remove(i);
                    let (a, b) = match f[0] {
                        "A" => t.split_at(p::<usize>(f[2])),
                        "An" => {
                            let (a, b) = TreapNode::split_at(t.root, p::<usize>(f[2]));
                            (wrap(a), wrap(b))
                        }
                        "B" => {
                            let c: i64 = p(f[2]);
                            t.split_by(|it| it.elem() < c)
                        }
                        _ => {
                            let c: i64 = p(f[2]);
                            let (a, b) = TreapNode::split_by(t.root, |it: &I| it.elem() < c);
                            (wrap(a), wrap(b))
                        }
                    };
                    ts.push(a);
                    ts.push(b);
                    "u".into()
                }
            }
            "Cn" => {
                let i = idx(1);
                if i >= ts.len() {
                    "x".into()
                } else {
                    // collect_into appends: the vector already holds an item
                    let sentinel = I::mk(424242);
                    let mut v: Vec<&I> = vec![&sentinel];
                    if let Some(root) = ts[i].root.as_mut() {
                        root.collect_into(&mut v);
                    }
                    if v[0].elem() != 424242 {
                        "!collect_into".into()
                    } else {
                        format!("c:{}", v[1..].iter().map(|it| it.elem().to_string()).collect::<Vec<_>>().join(","))
                    }
                }
            }
            "I" => {
                let i = idx(1);
                if i >= ts.len() {
                    "x".into()
                } else {
                    let it = made::<I>(p(f[3]), &parse_mods(f.get(5)));
                    insert_item_with_priority(&mut ts[i], p::<usize>(f[2]), it, f[4]);
                    "u".into()
                }
            }
            "R" => {
                let i = idx(1);
                if i >= ts.len() {
                    "x".into()
                } else {
                    let k: usize = p(f[2]);
                    let t = &mut ts[i];
                    match vh::guarded(|| t.remove_at(k)) {
                        Some(it) => format!("r:{}", it.dump().replace(' ', ",")),
                        None => "P".into(),
                    }
                }
            }
            "V" => {
                let (i, j) = (idx(1), idx(3));
                if i >= ts.len() || j >= ts.len() {
                    "x".into()
                } else {
                    let k: usize = p(f[2]);
                    let t = &mut ts[i];
                    match vh::guarded(|| t.remove_at(k)) {
                        Some(mut it) => {
                            let r = format!("r:{}", it.dump().replace(' ', ","));
                            for m in parse_mods(f.get(6)) {
                                it.modify(m);
                            }
                            insert_item_with_priority(&mut ts[j], p::<usize>(f[4]), it, f[5]);
                            r
                        }
                        None => "P".into(),
                    }
                }
            }
            "U" | "Uf" | "Un" => {
                let i = idx(1);
                if i >= ts.len() {
                    "x".into()
                } else {
                    let c: i64 = p(f[3]);
                    let m = if f[2] == "s" { Md::Set(c) } else { Md::Add(c) };
                    match f[0] {
                        // the accessor
                        "U" => {
                            if let Some(r) = ts[i].root_mut() {
                                r.modify(m);
                            }
                        }
                        // the public fields `Treap::root` / `TreapNode::item`, in place
                        "Uf" => {
                            if let Some(nd) = ts[i].root.as_mut() {
                                nd.item.modify(m);
                            }
                        }
                        // node level: the root is taken out of the treap and handled as a raw Option<Box<TreapNode>>
                        // (what TreapNode::split_at / merge hand out; `node.item` is the only handle there is), then put back
                        _ => {
                            let mut raw: Option<Box<TreapNode<I>>> = ts[i].root.take();
                            if let Some(nd) = raw.as_mut() {
                                let nd: &mut TreapNode<I> = &mut **nd;
                                nd.item.modify(m);
                            }
                            ts[i] = wrap(raw);
                        }
                    }
                    "u".into()
                }
            }
            "f" | "l" | "C" | "S" | "G" => {
                let i = idx(1);
                if i >= ts.len() {
                    "x".into()
                } else {
                    let t = &mut ts[i];
                    let was_empty = t.is_empty();
                    match f[0] {
                        "f" => match t.first() {
                            Some(it) => format!("e:{}", it.elem()),
                            None => "e:none".into(),
                        },
                        "l" => match t.last() {
                            Some(it) => format!("e:{}", it.elem()),
                            None => "e:none".into(),
                        },
                        "C" => {
                            let v = t.collect();
                            let tok = format!("c:{}", v.iter().map(|it| it.elem().to_string()).collect::<Vec<_>>().join(","));
                            let seen = v.is_empty();
                            if was_empty == seen {
                                tok
                            } else {
                                "!is_empty".into()
                            }
                        }
                        "S" => empty_agrees(t, t.size() == 0, format!("s:{}", t.size())),
                        _ => match t.root() {
                            Some(it) => empty_agrees(t, false, format!("g:{}", it.agg())),
                            None => empty_agrees(t, true, "g:none".into()),
                        },
                    }
                }
            }
            other => {
                eprintln!("harness: unknown op {}", other);
                std::process::exit(3)
            }
        };
        out.push_str(&r);
        out.push(' ');
    }
    out.push('|');
    for t in ts.iter() {
        dump(&t.root, &mut out);
    }
    out.push_str(" |");
    for t in ts.iter_mut() {
        out.push_str(" c:");
        out.push_str(&t.collect().iter().map(|it| it.elem().to_string()).collect::<Vec<_>>().join(","));
    }
    out
}

/// `Treap::insert_at` calls `TreapNode::new` itself, so the priority of the new node cannot be overwritten
/// before `merge` looks at it.  With a native priority (`n`) the real `insert_at` runs (the plugin predicts the
/// generator's draws: every node creation of the line draws once, also when the field is overwritten afterwards, so
/// the plugin can choose the injected priorities of the OTHER nodes relative to the draw of a native insert and
/// steer the real `insert_at` into every rank pattern, ties included); with an injected priority the body of
/// `insert_at` is replayed through the public API (split_at, from_item + public priority field, merge, merge).
/// The item is whatever the caller holds: freshly made, made and modified, or the object `remove_at` returned
/// (modified or not); it is handed over as it is.
fn insert_item_with_priority<I: HItem>(t: &mut Treap<I>, pos: usize, item: I, pr: &str) {
    if pr == "n" {
        t.insert_at(pos, item);
        return;
    }
    let whole = std::mem::replace(t, Treap::new());
    let (l, r) = whole.split_at(pos);
    *t = Treap::merge(Treap::merge(l, node_of(item, pr)), r);
}

/// one line in a child process of this executor; `H` if it does not finish in time, `P` if the child dies
fn in_child(toks: &[&str]) -> String {
    use std::io::{Read, Write};
    let limit_ms: u128 = std::env::var("C03_WATCHDOG_MS").ok().and_then(|s| s.parse().ok()).unwrap_or(3000);
    let mut ch = std::process::Command::new(std::env::current_exe().unwrap())
        .env("C03_CHILD", "1")
        .stdin(std::process::Stdio::piped())
        .stdout(std::process::Stdio::piped())
        .spawn()
        .unwrap();
    {
        let mut stdin = ch.stdin.take().unwrap();
        let _ = writeln!(stdin, "{}", toks.join(" "));
    }
    let mut pipe = ch.stdout.take().unwrap();
    let reader = std::thread::spawn(move || {
        let mut s = String::new();
        let _ = pipe.read_to_string(&mut s);
        s
    });
    let t0 = std::time::Instant::now();
    let status = loop {
        match ch.try_wait().unwrap() {
            Some(st) => break Some(st),
            None if t0.elapsed().as_millis() >= limit_ms => {
                let _ = ch.kill();
                let _ = ch.wait();
                break None;
            }
            None => std::thread::sleep(std::time::Duration::from_millis(1)),
        }
    };
    let out = reader.join().unwrap_or_default();
    match status {
        None => "H".to_string(),
        Some(st) if st.success() && !out.trim().is_empty() => out.trim().to_string(),
        Some(_) => "P".to_string(),
    }
}

fn main() {
    let is_child = std::env::var_os("C03_CHILD").is_some();
    vh::serve(|t| {
        if !is_child && t[0] == "h" && t.iter().any(|s| s.starts_with("E:")) {
            return in_child(t);
        }
        let owned: Vec<String> = t.iter().map(|s| s.to_string()).collect();
        // every line starts from the seed of the process-wide priority generator (hook, cargo feature
        // `verif`) and runs on a fresh thread whose stack is large enough for the degenerate
        // (all-equal / monotone priority) shapes
        rlib_treap::verif_reset_priorities();
        let h = std::thread::Builder::new()
            .stack_size(512 << 20)
            .spawn(move || {
                let toks: Vec<&str> = owned.iter().map(|s| s.as_str()).collect();
                match toks[0] {
                    "h" => match toks[1] {
                        "0" => history::<ItemSized>(&toks[2..]),
                        "1" => history::<ItemAA>(&toks[2..]),
                        "2" => history::<ItemHash>(&toks[2..]),
                        _ => {
                            eprintln!("harness: unknown item kind");
                            std::process::exit(3)
                        }
                    },
                    "x" => fam::run(&toks[1..]),
                    _ => {
                        eprintln!("harness: unknown line kind");
                        std::process::exit(3)
                    }
                }
            })
            .unwrap();
        match h.join() {
            Ok(s) => s,
            Err(_) => "P".to_string(),
        }
    });
}
