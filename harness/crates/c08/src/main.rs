//! C08 executor.
//!   `Q`                                    -> `B<Reader::VERIF_BUF_SIZE> R<room offered to the first Read::read>`
//!   `C <hex input|-> <schedule|-> <op>*`   -> `B<size> <value tokens>* [P]`
//!   `T<k> <hex input|-> <schedule|-> <op>*`-> the same line; a second Reader (fixed input, delivery variant k) is
//!                                             alive and used between the operations; if THAT reader returns anything
//!                                             but what it returns when run alone, the token `X:twin` follows `B<size>`
//!   `M<k> <hex input|-> <schedule|-> <op>*`-> the same line, produced by a child process whose reader comes from
//!                                             `rlib_io::make_io!` (real stdin, a pipe): the schedule's chunks are
//!                                             written one by one, each after the child has drained the pipe; k = 1:
//!                                             every `I` of the schedule is a real signal (handler without SA_RESTART)
//!                                             sent while the child is blocked in read(2), i.e. a real EINTR
//! `B<size>` = the largest room the reader offered to `Read::read` in this case (the hook value when it never read).
//! schedule: comma separated; `n` = a read delivers the next n input bytes (n >= 1; if the reader
//! asks for fewer, it gets what fits and the rest of the chunk stays for the next call), `nxk` = k
//! such chunks, `I` = the read fails with ErrorKind::Interrupted, `Ixk` = k such failures in a row.
//! After the schedule: Ok(0).
//! ops: i8..i128 isize u8..u128 usize s(String) c(char) t:<ty>,<ty>.. v:<n>:<ty> l(read_line)
//! L(read_lines) e(is_eof); vt:<n>:<ty>,<ty>.. = read_vec::<(A, B, ..)>(n) and nt:<nested tuple> =
//! read::<((A, B), C)>() etc., both printed flattened as `t<k>` + components (the model reads the same
//! tokens left to right); m = move the Reader to another address and overwrite the old place (no output).
//! A panic ends the script and prints `P`.
use rlib_io::reader::{Readable, Reader};
use std::cell::RefCell;
use std::collections::VecDeque;
use std::io::Read;
use std::mem::MaybeUninit;
use std::rc::Rc;

enum Ev {
    Data(usize),
    Intr,
}

struct Sched {
    data: Vec<u8>,
    pos: usize,
    events: VecDeque<Ev>,
    /// largest `buf.len()` seen by `read` (0 = never called)
    max_room: usize,
    first_room: usize,
}

struct Src(Rc<RefCell<Sched>>);

impl Read for Src {
    fn read(&mut self, buf: &mut [u8]) -> std::io::Result<usize> {
        let mut s = self.0.borrow_mut();
        if s.max_room == 0 {
            s.first_room = buf.len();
        }
        s.max_room = s.max_room.max(buf.len());
        match s.events.pop_front() {
            None => Ok(0),
            Some(Ev::Intr) => Err(std::io::Error::new(std::io::ErrorKind::Interrupted, "scripted")),
            Some(Ev::Data(n)) => {
                let k = n.min(buf.len());
                let pos = s.pos;
                buf[..k].copy_from_slice(&s.data[pos..pos + k]);
                s.pos += k;
                if k < n {
                    s.events.push_front(Ev::Data(n - k));
                }
                Ok(k)
            }
        }
    }
}

trait Show: Readable {
    const NAME: &'static str;
    fn show(&self) -> String;
}
macro_rules! show_int {
    ($($t:ty),*) => { $( impl Show for $t {
        const NAME: &'static str = stringify!($t);
        fn show(&self) -> String { format!("i:{}", self) }
    } )* };
}
show_int!(i8, i16, i32, i64, i128, isize, u8, u16, u32, u64, u128, usize);

fn hex_str(s: &str) -> String {
    // every char came from `u8 as char`, so its code point is the byte; anything else is shown as `[code point]`
    // (the model never produces it)
    s.chars().map(|c| if (c as u32) < 256 { format!("{:02x}", c as u32) } else { format!("[{:x}]", c as u32) }).collect()
}
impl Show for String {
    const NAME: &'static str = "s";
    fn show(&self) -> String {
        format!("s:{}", hex_str(self))
    }
}
impl Show for char {
    const NAME: &'static str = "c";
    fn show(&self) -> String {
        format!("c:{:02x}", *self as u32)
    }
}

/// components of a (possibly nested) tuple value, left to right
trait Flat {
    fn flat(&self, out: &mut Vec<String>);
    fn sig() -> String;
}
macro_rules! flat_scalar {
    ($($t:ty),*) => { $( impl Flat for $t {
        fn flat(&self, out: &mut Vec<String>) { out.push(self.show()) }
        fn sig() -> String { <$t as Show>::NAME.to_string() }
    } )* };
}
flat_scalar!(i8, i16, i32, i64, i128, isize, u8, u16, u32, u64, u128, usize, String, char);
macro_rules! flat_tuple {
    ($($t:ident : $i:tt),+) => {
        impl<$($t: Flat),+> Flat for ($($t,)+) {
            fn flat(&self, out: &mut Vec<String>) { $( self.$i.flat(out); )+ }
            fn sig() -> String { format!("({})", [$($t::sig()),+].join(",")) }
        }
    };
}
flat_tuple!(A: 0, B: 1);
flat_tuple!(A: 0, B: 1, C: 2);

fn scalar<T: Show>(r: &mut Reader, out: &mut Vec<String>) {
    let v: T = r.read();
    out.push(v.show());
}
fn vector<T: Show>(r: &mut Reader, n: usize, out: &mut Vec<String>) {
    let v: Vec<T> = r.read_vec(n);
    out.push(format!("v{}", v.len()));
    out.extend(v.iter().map(|x| x.show()));
}

macro_rules! by_type {
    ($name:expr, $f:ident, $($arg:expr),*) => {
        match $name {
            "i8" => $f::<i8>($($arg),*), "i16" => $f::<i16>($($arg),*), "i32" => $f::<i32>($($arg),*),
            "i64" => $f::<i64>($($arg),*), "i128" => $f::<i128>($($arg),*), "isize" => $f::<isize>($($arg),*),
            "u8" => $f::<u8>($($arg),*), "u16" => $f::<u16>($($arg),*), "u32" => $f::<u32>($($arg),*),
            "u64" => $f::<u64>($($arg),*), "u128" => $f::<u128>($($arg),*), "usize" => $f::<usize>($($arg),*),
            "s" => $f::<String>($($arg),*), "c" => $f::<char>($($arg),*),
            other => bad(other),
        }
    };
}

fn bad(what: &str) -> ! {
    eprintln!("harness: unknown token {:?}", what);
    std::process::exit(3)
}

macro_rules! tuples {
    ($r:expr, $sig:expr, $out:expr, $( ($($t:ty : $v:ident),+) );* $(;)?) => {{
        let mut matched = false;
        $(
            if !matched && $sig == [$(<$t as Show>::NAME),+].join(",") {
                matched = true;
                let ($($v),+): ($($t),+) = $r.read();
                let items: Vec<String> = vec![$($v.show()),+];
                $out.push(format!("t{}", items.len()));
                $out.extend(items);
            }
        )*
        if !matched { bad($sig) }
    }};
}

/// the tuple types instantiated here (keep in sync with TUPLES in checks/c08.py)
fn tuple(r: &mut Reader, sig: &str, out: &mut Vec<String>) {
    tuples!(r, sig, out,
        (i32: a, i32: b);
        (String: a, i64: b);
        (char: a, u8: b);
        (i8: a, u16: b, String: c);
        (i128: a, char: b, isize: c);
        (u64: a, i16: b, char: c, String: d);
        (usize: a, i64: b, u128: c, i8: d, u32: e);
        (i32: a, String: b, char: c, u8: d, i64: e, i16: f);
        (u8: a, u8: b, i8: c, i8: d, char: e, char: f, String: g);
        (i64: a, u64: b, i128: c, u128: d, isize: e, usize: f, String: g, char: h);
    );
}

fn flat_value<T: Readable + Flat>(r: &mut Reader, out: &mut Vec<String>) {
    let v: T = r.read();
    let mut items = Vec::new();
    v.flat(&mut items);
    out.push(format!("t{}", items.len()));
    out.extend(items);
}
fn flat_vector<T: Readable + Flat>(r: &mut Reader, n: usize, out: &mut Vec<String>) {
    let v: Vec<T> = r.read_vec(n);
    let mut items = Vec::new();
    for x in &v {
        x.flat(&mut items);
    }
    out.push(format!("t{}", items.len()));
    out.extend(items);
}

macro_rules! flat_types {
    ($sig:expr, $f:ident, $args:tt, $($t:ty);* $(;)?) => {{
        let mut matched = false;
        $( if !matched && $sig == <$t as Flat>::sig() { matched = true; $f::<$t> $args; } )*
        if !matched { bad($sig) }
    }};
}

/// vectors of tuples (keep in sync with VEC_TUPLES in checks/c08.py; the op writes the signature without the outer parentheses)
fn vec_tuple(r: &mut Reader, n: usize, sig: &str, out: &mut Vec<String>) {
    let sig = format!("({})", sig);
    let sig = sig.as_str();
    flat_types!(sig, flat_vector, (r, n, out),
        (usize, usize);
        (i32, String);
        (i64, char, u8);
        (i128, i128);
        (u8, i8);
    );
}

/// nested tuples (keep in sync with NESTED in checks/c08.py)
fn nested(r: &mut Reader, sig: &str, out: &mut Vec<String>) {
    flat_types!(sig, flat_value, (r, out),
        ((i32, i32), String);
        (i8, (char, (u64, String)), i16);
        ((usize, usize), (isize, isize));
        (String, (u128, char, i128));
    );
}

fn one_op(r: &mut Reader, op: &str, out: &mut Vec<String>) {
    match op {
        "l" => out.push(match r.read_line() {
            None => "l:-".to_string(),
            Some(s) => format!("l:={}", hex_str(&s)),
        }),
        "L" => {
            let ls = r.read_lines();
            out.push(format!("L{}", ls.len()));
            out.extend(ls.iter().map(|s| format!("={}", hex_str(s))));
        }
        "e" => out.push(format!("e:{}", if r.is_eof() { 1 } else { 0 })),
        _ if op.starts_with("t:") => tuple(r, &op[2..], out),
        _ if op.starts_with("nt:") => nested(r, &op[3..], out),
        _ if op.starts_with("vt:") => {
            let mut it = op[3..].splitn(2, ':');
            let n: usize = vh::p(it.next().unwrap());
            let sig = it.next().unwrap_or_else(|| bad(op));
            vec_tuple(r, n, sig, out)
        }
        _ if op.starts_with("v:") => {
            let mut it = op[2..].splitn(2, ':');
            let n: usize = vh::p(it.next().unwrap());
            let ty = it.next().unwrap_or_else(|| bad(op));
            by_type!(ty, vector, r, n, out)
        }
        _ => by_type!(op, scalar, r, out),
    }
}

fn unhex(s: &str) -> Vec<u8> {
    if s == "-" {
        return Vec::new();
    }
    (0..s.len() / 2).map(|i| u8::from_str_radix(&s[2 * i..2 * i + 2], 16).unwrap_or_else(|_| bad(s))).collect()
}

fn schedule(s: &str) -> VecDeque<Ev> {
    let mut q = VecDeque::new();
    if s == "-" {
        return q;
    }
    for t in s.split(',') {
        if t == "I" {
            q.push_back(Ev::Intr);
        } else if let Some(k) = t.strip_prefix("Ix") {
            let k: usize = vh::p(k);
            for _ in 0..k {
                q.push_back(Ev::Intr);
            }
        } else if let Some((n, k)) = t.split_once('x') {
            let (n, k): (usize, usize) = (vh::p(n), vh::p(k));
            for _ in 0..k {
                q.push_back(Ev::Data(n));
            }
        } else {
            q.push_back(Ev::Data(vh::p(t)));
        }
    }
    q
}

fn checked_schedule(s: &str, len: usize) -> VecDeque<Ev> {
    let events = schedule(s);
    let total: usize = events.iter().map(|e| if let Ev::Data(n) = e { *n } else { 0 }).sum();
    if total != len || events.iter().any(|e| matches!(e, Ev::Data(0))) {
        eprintln!("harness: schedule delivers {} bytes, input has {}", total, len);
        std::process::exit(3);
    }
    events
}

// ------------------------------------------------------------------ a Reader that can be moved for real
/// The Reader lives in one of two heap blocks.  `relocate` moves it (a plain Rust move: bitwise copy, the old
/// place is dead afterwards) into the other block and overwrites the old block, so anything in the Reader that
/// still points into its former location (cursor pointers into the inline buffer) reads 0xA5 garbage.
struct Home {
    mem: [Box<MaybeUninit<Reader<'static>>>; 2],
    cur: usize,
    shared: Rc<RefCell<Sched>>,
}

impl Home {
    fn new(data: Vec<u8>, events: VecDeque<Ev>) -> Home {
        let shared = Rc::new(RefCell::new(Sched { data, pos: 0, events, max_room: 0, first_room: 0 }));
        let mut h = Home { mem: [Box::new(MaybeUninit::uninit()), Box::new(MaybeUninit::uninit())], cur: 0, shared: shared.clone() };
        h.mem[0].write(Reader::new(Box::new(Src(shared))));
        h
    }
    fn reader(&mut self) -> &mut Reader<'static> {
        // SAFETY: mem[cur] always holds the live Reader
        unsafe { self.mem[self.cur].assume_init_mut() }
    }
    fn relocate(&mut self) {
        let (from, to) = (self.cur, 1 - self.cur);
        // SAFETY: mem[from] holds the Reader; after the read it is treated as uninitialised (moved out)
        let r: Reader<'static> = unsafe { self.mem[from].assume_init_read() };
        self.mem[to].write(r);
        // SAFETY: writing bytes into a MaybeUninit block of exactly this size
        unsafe { std::ptr::write_bytes(self.mem[from].as_mut_ptr() as *mut u8, 0xA5, std::mem::size_of::<Reader<'static>>()) };
        self.cur = to;
    }
    fn room(&self, hook: usize) -> usize {
        let m = self.shared.borrow().max_room;
        if m == 0 {
            hook
        } else {
            m
        }
    }
}

impl Drop for Home {
    fn drop(&mut self) {
        // SAFETY: mem[cur] holds the live Reader, dropped exactly once
        unsafe { self.mem[self.cur].assume_init_drop() }
    }
}

// ------------------------------------------------------------------ the second Reader of the `T` cases
const TWIN_INPUT: &[u8] = b"  -12345 abc\r\nline two\rX\n 77 q\n";
const TWIN_OPS: [&str; 7] = ["i32", "s", "l", "l", "u8", "c", "e"];

fn twin_home(k: usize) -> Home {
    let n = TWIN_INPUT.len();
    let events: VecDeque<Ev> = match k % 3 {
        0 => vec![Ev::Data(n)].into(),
        1 => (0..n).map(|_| Ev::Data(1)).collect(),
        _ => vec![Ev::Data(5), Ev::Intr, Ev::Data(n - 5)].into(),
    };
    Home::new(TWIN_INPUT.to_vec(), events)
}

struct Twin {
    k: usize,
    home: Home,
    next: usize,
    alone: Vec<Vec<String>>,
    ok: bool,
}

impl Twin {
    fn new(k: usize) -> Twin {
        // what the twin's script returns when its Reader is the only one alive
        let mut solo = twin_home(k);
        let alone: Vec<Vec<String>> = TWIN_OPS
            .iter()
            .map(|op| {
                let mut v = Vec::new();
                if vh::guarded(|| one_op(solo.reader(), op, &mut v)).is_none() {
                    v.push("P".to_string());
                }
                v
            })
            .collect();
        drop(solo);
        Twin { k, home: twin_home(k), next: 0, alone, ok: true }
    }
    fn step(&mut self) {
        let mut v = Vec::new();
        let op = TWIN_OPS[self.next];
        if vh::guarded(|| one_op(self.home.reader(), op, &mut v)).is_none() {
            v.push("P".to_string());
        }
        if v != self.alone[self.next] {
            self.ok = false;
        }
        self.next += 1;
        if self.next == TWIN_OPS.len() {
            self.home = twin_home(self.k);
            self.next = 0;
        }
    }
}

/// `C` and `T<k>` lines
fn in_process(t: &[&str], twin: Option<usize>) -> String {
    let hook = Reader::VERIF_BUF_SIZE;
    let data = unhex(t[1]);
    let events = checked_schedule(t[2], data.len());
    let mut twin = twin.map(Twin::new);
    let mut home = Home::new(data, events);
    let mut vals: Vec<String> = Vec::new();
    for op in &t[3..] {
        if let Some(tw) = twin.as_mut() {
            tw.step();
        }
        if *op == "m" {
            home.relocate();
            if let Some(tw) = twin.as_mut() {
                tw.home.relocate();
            }
            continue;
        }
        let mut v = Vec::new();
        match vh::guarded(|| one_op(home.reader(), op, &mut v)) {
            Some(()) => vals.extend(v),
            None => {
                vals.push("P".to_string());
                break;
            }
        }
    }
    let mut out = vec![format!("B{}", home.room(hook))];
    if let Some(tw) = twin.as_mut() {
        tw.step();
        if !tw.ok {
            out.push("X:twin".to_string());
        }
    }
    out.extend(vals);
    out.join(" ")
}

// ------------------------------------------------------------------ `M<k>`: the reader of make_io!, in a child process
#[cfg(target_os = "linux")]
mod sys {
    extern "C" {
        pub fn signal(signum: i32, handler: usize) -> usize;
        pub fn siginterrupt(sig: i32, flag: i32) -> i32;
        pub fn kill(pid: i32, sig: i32) -> i32;
        pub fn ioctl(fd: i32, req: u64, ...) -> i32;
    }
    pub const SIGUSR1: i32 = 10;
    pub const FIONREAD: u64 = 0x541B;
    pub extern "C" fn on_signal(_: i32) {}
}

/// child: `<exe> --child <k> <op>*`; input on stdin; prints `R` first (handler installed), the observation last
fn child(args: &[String]) {
    std::panic::set_hook(Box::new(|_| {}));
    #[cfg(target_os = "linux")]
    if args[0] == "1" {
        // SAFETY: installs an empty handler for SIGUSR1 and switches SA_RESTART off for it
        unsafe {
            sys::signal(sys::SIGUSR1, sys::on_signal as *const () as usize);
            sys::siginterrupt(sys::SIGUSR1, 1);
        }
    }
    println!("R");
    // what a user of the library writes (the macros of rlib_io call each other by their bare names)
    #[allow(unused_imports)]
    use rlib_io::*;
    rlib_io::make_io!(reader, writer);
    let mut out: Vec<String> = vec![format!("B{}", Reader::VERIF_BUF_SIZE)];
    for op in &args[1..] {
        if op == "m" {
            // a plain move of the binding, as `make_output_macro_!` itself does
            let moved = reader;
            reader = moved;
            continue;
        }
        let mut v = Vec::new();
        match vh::guarded(|| one_op(&mut reader, op, &mut v)) {
            Some(()) => out.extend(v),
            None => {
                out.push("P".to_string());
                break;
            }
        }
    }
    println!("{}", out.join(" "));
}

#[cfg(target_os = "linux")]
fn via_make_io(t: &[&str], k: usize) -> String {
    use std::io::{BufRead, BufReader, Write};
    use std::os::unix::io::AsRawFd;
    use std::process::{Command, Stdio};
    use std::time::{Duration, Instant};
    let data = unhex(t[1]);
    let events = checked_schedule(t[2], data.len());
    let exe = std::env::current_exe().unwrap();
    let mut attempt = 0;
    let mut ch = loop {
        match Command::new(&exe).arg("--child").arg(k.to_string()).args(&t[3..]).stdin(Stdio::piped()).stdout(Stdio::piped()).spawn() {
            Ok(ch) => break ch,
            Err(e) if attempt < 20 => {
                // a busy machine may be out of processes for a moment
                eprintln!("harness: spawn failed ({}), retrying", e);
                attempt += 1;
                std::thread::sleep(Duration::from_millis(250));
            }
            Err(e) => {
                eprintln!("harness: cannot start the child process: {}", e);
                std::process::exit(3);
            }
        }
    };
    let pid = ch.id() as i32;
    let mut to = ch.stdin.take().unwrap();
    let mut from = BufReader::new(ch.stdout.take().unwrap());
    let mut ready = String::new();
    from.read_line(&mut ready).unwrap();
    if ready.trim() != "R" {
        let _ = ch.wait();
        return format!("B{} X:child-start", Reader::VERIF_BUF_SIZE);
    }
    // the rest of the child's output is collected concurrently (it may exceed the pipe capacity)
    let collector = std::thread::spawn(move || {
        let mut s = String::new();
        let _ = from.read_to_string(&mut s);
        s
    });
    let fd = to.as_raw_fd();
    let stat = format!("/proc/{}/stat", pid);
    // results must not depend on any of these timings: every wait gives up after a while
    let mut gone = false;
    let wait = |ch: &mut std::process::Child, need_blocked: bool, gone: &mut bool| {
        let t0 = Instant::now();
        while !*gone && t0.elapsed() < Duration::from_secs(5) {
            if let Ok(Some(_)) = ch.try_wait() {
                *gone = true;
                break;
            }
            let mut pending: i32 = 0;
            // SAFETY: FIONREAD stores one int
            let rc = unsafe { sys::ioctl(fd, sys::FIONREAD, &mut pending as *mut i32) };
            let drained = rc != 0 || pending == 0;
            let blocked = !need_blocked
                || std::fs::read_to_string(&stat)
                    .ok()
                    .and_then(|s| s.rsplit_once(')').map(|(_, r)| r.trim_start().starts_with('S')))
                    .unwrap_or(true);
            if drained && blocked {
                break;
            }
            std::thread::sleep(Duration::from_micros(40));
        }
    };
    let mut pos = 0;
    for e in events {
        if gone {
            break;
        }
        match e {
            Ev::Data(n) => {
                if to.write_all(&data[pos..pos + n]).and_then(|_| to.flush()).is_err() {
                    gone = true; // the child finished its script and closed stdin
                }
                pos += n;
                wait(&mut ch, false, &mut gone);
            }
            Ev::Intr => {
                if k == 1 {
                    wait(&mut ch, true, &mut gone);
                    if !gone {
                        // SAFETY: plain kill(2) of our own child (not yet reaped, so the pid cannot have been reused)
                        unsafe { sys::kill(pid, sys::SIGUSR1) };
                    }
                }
            }
        }
    }
    drop(to);
    let status = ch.wait().unwrap();
    let text = collector.join().unwrap();
    match text.lines().last() {
        Some(l) if status.success() && l.starts_with('B') => l.to_string(),
        _ => format!("B{} X:child-{:?}", Reader::VERIF_BUF_SIZE, status.code()),
    }
}

#[cfg(not(target_os = "linux"))]
fn via_make_io(t: &[&str], _k: usize) -> String {
    in_process(t, None)
}

fn main() {
    let args: Vec<String> = std::env::args().collect();
    if args.len() >= 3 && args[1] == "--child" {
        child(&args[2..]);
        return;
    }
    vh::serve(|t| {
        let hook = Reader::VERIF_BUF_SIZE;
        if t[0] == "Q" {
            let mut probe = Home::new(Vec::new(), VecDeque::new());
            let _ = probe.reader().is_eof();
            let room = probe.shared.borrow().first_room;
            return format!("B{} R{}", hook, room);
        }
        if t.len() < 3 {
            bad(t[0]);
        }
        if t[0] == "C" {
            in_process(t, None)
        } else if let Some(k) = t[0].strip_prefix('T') {
            in_process(t, Some(vh::p(k)))
        } else if let Some(k) = t[0].strip_prefix('M') {
            via_make_io(t, vh::p(k))
        } else {
            bad(t[0])
        }
    });
}
